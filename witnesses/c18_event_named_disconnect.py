"""C18 witness: on an instrumented server (development mode) a client that emits an ordinary event called 'disconnect'
makes the instrumentation forget its timestamp; when the client then really disconnects, the wrapper raises KeyError
before calling the original _trigger_event, so the application's disconnect handler never runs - it does run on the
same server without instrumentation.  (With no argument the same event raises IndexError inside the wrapper.)

Real Server + InstrumentedServer code, engine.io mocked.  exit 1 = reproduces, exit 0 = does not."""
import sys
from unittest import mock

import socketio
from socketio import packet


def run(instrumented):
    sio = socketio.Server(async_handlers=False)
    calls = []

    @sio.event
    def connect(sid, environ):
        calls.append('connect')

    @sio.event
    def disconnect(sid, *a):
        calls.append('disconnect%r' % (a,))
    if instrumented:
        sio.instrument(auth=False, mode='development')
    sio.eio = mock.MagicMock()
    sio.eio.generate_id.side_effect = ['S%d' % i for i in range(100)]
    if instrumented:
        sio.eio.sockets = {}
    err = None
    try:
        sio._handle_eio_connect('e1', {})
        sio._handle_eio_message('e1', '0')
        sio._handle_eio_message('e1', '2["disconnect","x"]')       # an application event that happens to be called 'disconnect'
        sio._handle_eio_message('e1', '1')                         # the client really leaves
    except Exception as e:      # noqa: BLE001
        err = repr(e)
    return calls, err


def main():
    plain, e0 = run(False)
    inst, e1 = run(True)
    print('without instrumentation: handler calls %r, error %r' % (plain, e0))
    print('with instrumentation   : handler calls %r, error %r' % (inst, e1))
    return 1 if (plain != inst or e0 != e1) else 0


if __name__ == '__main__':
    sys.exit(main())
