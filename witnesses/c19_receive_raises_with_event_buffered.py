"""C19 witness: receive() raises DisconnectedError / TimeoutError while an event that has already arrived sits in the buffer.

The real SimpleClient / AsyncSimpleClient code runs; only the transport-level client is replaced by a recorder of the
handlers that connect() registers, and the schedule is forced at the single interleaving point the verifier's
counterexample names: the handler side runs between receive()'s emptiness check and its look at the connection state.

exit 1 = the behaviour reproduces (defect present), exit 0 = it does not.
"""
import asyncio
import sys
import threading

from socketio import SimpleClient, AsyncSimpleClient
from socketio.exceptions import DisconnectedError, TimeoutError


class FakeClient:
    def __init__(self, *a, **kw):
        self.handlers = {}

    def event(self, namespace=None):
        def deco(f):
            self.handlers[f.__name__] = f
            return f
        return deco

    def on(self, ev, namespace=None):
        def deco(f):
            self.handlers[ev] = f
            return f
        return deco

    def connect(self, *a, **kw):
        self.handlers['connect']()


class AsyncFakeClient(FakeClient):
    async def connect(self, *a, **kw):
        self.handlers['connect']()


class HookedEvent(threading.Event):
    """runs `before_wait` once, on another thread, at the moment the application thread is about to wait"""
    before_wait = None

    def wait(self, timeout=None):
        f, self.before_wait = self.before_wait, None
        if f is not None:
            t = threading.Thread(target=f)
            t.start()
            t.join()
        return super().wait(timeout)


def threaded(final):
    class SC(SimpleClient):
        client_class = FakeClient
    sc = SC()
    sc.connected_event = HookedEvent()
    sc.connect('http://x')
    h = sc.client.handlers

    def handler_thread():
        h['*']('msg', 1)                 # the event arrives ...
        if final:
            h['disconnect']()
            h['__disconnect_final']()    # ... and the connection ends for good
        else:
            h['disconnect']()            # ... and the connection drops (reconnection pending)
    sc.connected_event.before_wait = handler_thread
    try:
        r = sc.receive(timeout=0.3)
        return 'returned %r' % (r,), list(sc.input_buffer)
    except DisconnectedError:
        return 'DisconnectedError', list(sc.input_buffer)
    except TimeoutError:
        return 'TimeoutError', list(sc.input_buffer)


async def asynchronous():
    class ASC(AsyncSimpleClient):
        client_class = AsyncFakeClient
    sc = ASC()
    await sc.connect('http://x')
    h = sc.client.handlers
    h['disconnect']()                    # connection lost, reconnection in progress
    task = asyncio.ensure_future(sc.receive(timeout=1))
    await asyncio.sleep(0.05)            # receive() is parked on connected_event
    # one polling payload: CONNECT ack, an EVENT, a DISCONNECT - handled back to back without yielding to the loop
    h['connect']()
    h['*']('msg', 1)
    h['disconnect']()
    h['__disconnect_final']()
    try:
        r = await task
        return 'returned %r' % (r,), list(sc.input_buffer)
    except DisconnectedError:
        return 'DisconnectedError', list(sc.input_buffer)
    except TimeoutError:
        return 'TimeoutError', list(sc.input_buffer)


def main():
    bad = 0
    for label, (what, buf) in (('threads, connection ended for good', threaded(True)),
                               ('threads, connection dropped', threaded(False)),
                               ('asyncio, connection ended for good', asyncio.run(asynchronous()))):
        broken = what.endswith('Error') and buf
        print('%s: receive() -> %s, input_buffer = %r%s' % (label, what, buf, '   <-- raised with an event buffered' if broken else ''))
        bad += bool(broken)
    return 1 if bad else 0


if __name__ == '__main__':
    sys.exit(main())
