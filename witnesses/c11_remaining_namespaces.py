"""Known finding C11: a raising disconnect handler makes _handle_eio_disconnect skip the remaining namespaces.
Run: PYTHONPATH=<repo>/src /venv/bin/python witnesses/c11_remaining_namespaces.py   (exit 1 = the defect reproduces)"""
import sys
from unittest import mock
import socketio

s = socketio.Server(async_handlers=False, namespaces='*')
s.eio = mock.MagicMock()
s.eio.generate_id.side_effect = ['s1', 's2', 's3']


def boom(sid, reason):
    raise RuntimeError('application bug in the disconnect handler')


s.on('disconnect', boom, namespace='/a')
s.on('disconnect', lambda sid, reason: None, namespace='/b')
s._handle_eio_connect('e1', {})
s._handle_eio_message('e1', '0/a,')
s._handle_eio_message('e1', '0/b,')
try:
    s._handle_eio_disconnect('e1', 'transport close')
except RuntimeError:
    pass
left = {ns: list(rooms[None]) for ns, rooms in s.manager.rooms.items() if None in rooms}
print('sessions still registered after the transport ended:', left)
sys.exit(1 if left else 0)
