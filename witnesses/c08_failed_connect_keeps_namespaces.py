"""C08 witness: connect(wait=True) that ends in ConnectionError because one namespace was refused leaves the namespaces the
server did accept in Client.namespaces: the client is not "fully disconnected", and emit() on such a namespace sends a
packet instead of raising BadNamespaceError.

Real Client / AsyncClient code; engine.io is a mock whose connect() runs the client's own handlers the way engine.io does.
exit 1 = reproduces (defect present), exit 0 = does not."""
import asyncio
import sys
import threading
import time
from unittest import mock

import socketio
from socketio import packet, exceptions


def threaded():
    c = socketio.Client()
    c.eio = mock.MagicMock()
    c.eio.state = 'connected'
    c.eio.create_event.return_value = threading.Event()

    def fake_connect(*a, **kw):
        c._handle_eio_connect()

        def server():
            time.sleep(0.05)
            c._handle_eio_message(packet.Packet(packet.CONNECT, {'sid': 'S1'}, namespace='/a').encode())
            c._handle_eio_message(packet.Packet(packet.CONNECT_ERROR, {'message': 'no'}, namespace='/b').encode())
        threading.Thread(target=server).start()
    c.eio.connect.side_effect = fake_connect
    c.eio.disconnect.side_effect = lambda *a, **kw: c._handle_eio_disconnect(c.reason.CLIENT_DISCONNECT)
    try:
        c.connect('http://x', namespaces=['/a', '/b'], wait_timeout=0.5)
        return 'connect() returned', c
    except exceptions.ConnectionError:
        pass
    c.eio.send.reset_mock()
    try:
        c.emit('x', namespace='/a')
        sent = c.eio.send.call_count
    except exceptions.BadNamespaceError:
        sent = 'BadNamespaceError'
    return (c.connected, dict(c.namespaces), sent), c


async def asynchronous():
    c = socketio.AsyncClient()
    c.eio = mock.MagicMock()
    c.eio.state = 'connected'
    c.eio.create_event.return_value = asyncio.Event()

    async def fake_connect(*a, **kw):
        await c._handle_eio_connect()

        async def server():
            await asyncio.sleep(0.05)
            await c._handle_eio_message(packet.Packet(packet.CONNECT, {'sid': 'S1'}, namespace='/a').encode())
            await c._handle_eio_message(packet.Packet(packet.CONNECT_ERROR, {'message': 'no'}, namespace='/b').encode())
        asyncio.ensure_future(server())
    c.eio.connect = fake_connect
    c.eio.send = mock.AsyncMock()

    async def fake_disconnect(*a, **kw):
        await c._handle_eio_disconnect(c.reason.CLIENT_DISCONNECT)
    c.eio.disconnect = fake_disconnect
    try:
        await c.connect('http://x', namespaces=['/a', '/b'], wait_timeout=0.5)
        return 'connect() returned'
    except exceptions.ConnectionError:
        pass
    c.eio.send.reset_mock()
    try:
        await c.emit('x', namespace='/a')
        sent = c.eio.send.call_count
    except exceptions.BadNamespaceError:
        sent = 'BadNamespaceError'
    return (c.connected, dict(c.namespaces), sent)


def main():
    bad = 0
    for label, res in (('Client', threaded()[0]), ('AsyncClient', asyncio.run(asynchronous()))):
        broken = isinstance(res, tuple) and (res[1] or res[2] != 'BadNamespaceError')
        print('%s: after ConnectionError: connected=%r namespaces=%r emit on /a -> %r%s' % ((label,) + tuple(res) + ('   <-- not fully disconnected' if broken else '',))
              if isinstance(res, tuple) else '%s: %s' % (label, res))
        bad += bool(broken)
    return 1 if bad else 0


if __name__ == '__main__':
    sys.exit(main())
