"""Known finding C16: a user session survives a namespace DISCONNECT + reconnect on the same transport.
Run: PYTHONPATH=<repo>/src /venv/bin/python witnesses/c16_session_survives_namespace_reconnect.py   (exit 1 = reproduces)"""
import sys
from unittest import mock
import socketio

s = socketio.Server(async_handlers=False, namespaces='*')
store = {}
s.eio = mock.MagicMock()
s.eio.generate_id.side_effect = ['sid-1', 'sid-2']
s.eio.get_session.side_effect = lambda eio_sid: store.setdefault(eio_sid, {})
s._handle_eio_connect('e1', {})
s._handle_eio_message('e1', '0/chat,')
s.save_session('sid-1', {'user': 'alice'}, namespace='/chat')
s._handle_eio_message('e1', '1/chat,')            # the client leaves /chat, the transport stays
s._handle_eio_message('e1', '0/chat,')            # and connects to /chat again: a new session id
fresh = s.get_session('sid-2', namespace='/chat')
print('session of the newly connected sid-2:', fresh)
sys.exit(1 if fresh else 0)
