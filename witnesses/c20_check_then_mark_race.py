"""Known finding C20: check-then-mark race of two threads ending the same client (threaded server).
The schedule "both threads pass is_connected() before either calls pre_disconnect()" is forced with a barrier inside a
wrapped is_connected (no change to the library).
Run: PYTHONPATH=<repo>/src /venv/bin/python witnesses/c20_check_then_mark_race.py   (exit 1 = reproduces)"""
import sys
import threading
from unittest import mock
import socketio

s = socketio.Server(async_handlers=False)
s.eio = mock.MagicMock()
s.eio.generate_id.side_effect = ['sid1', 'sid2']
runs = []
s.on('disconnect', lambda sid, reason: runs.append((sid, reason)))
s._handle_eio_connect('e1', {})
s._handle_eio_message('e1', '0')
orig = s.manager.is_connected
bar = threading.Barrier(2, timeout=5)


def is_connected(sid, ns):
    r = orig(sid, ns)
    if threading.current_thread().name.startswith('T'):
        try:
            bar.wait()
        except threading.BrokenBarrierError:
            pass
    return r


s.manager.is_connected = is_connected
errs = []


def t1():
    try:
        s.disconnect('sid1')
    except Exception as e:
        errs.append(repr(e))


def t2():
    try:
        s._handle_eio_message('e1', '1')
    except Exception as e:
        errs.append(repr(e))


a = threading.Thread(target=t1, name='T1')
b = threading.Thread(target=t2, name='T2')
a.start(); b.start(); a.join(); b.join()
print('disconnect handler runs:', runs, 'errors:', errs)
print('residue: rooms', s.manager.rooms, 'pending', s.manager.pending_disconnect)
bad = len(runs) != 1 or errs or s.manager.rooms or s.manager.pending_disconnect
sys.exit(1 if bad else 0)
