"""Known finding C08: a DISCONNECT packet for a namespace the client is not (or no longer) connected to still runs that
namespace's disconnect handler, as long as the client is connected to some other namespace.  The behaviour is pinned by the
repository's own tests (test_handle_disconnect_unknown_namespace), so it is recorded, not repaired.
Run: PYTHONPATH=<repo>/src /venv/bin/python witnesses/c08_disconnect_unconnected_namespace.py   (exit 1 = reproduces)"""
import sys
from unittest import mock
import socketio

c = socketio.Client()
c.eio = mock.MagicMock()
calls = []
c.on('disconnect', lambda *a: calls.append('/a'), namespace='/a')
c.connected = True
c.namespaces = {'/a': 'sa', '/b': 'sb'}
c._handle_eio_message('1/a,')      # the server ends /a
c._handle_eio_message('1/a,')      # a duplicate DISCONNECT for /a: /a is not connected any more
print('disconnect handler of /a ran %d times for one connection' % len(calls))
sys.exit(1 if len(calls) != 1 else 0)
