NOTES = ('Every check re-reads /repo/src/socketio with ast on each run, executes the functions under contract symbolically '
         'and discharges the generated verification conditions with z3/cvc5. Exit 0 held, 1 violation, 2 undecided '
         '(function outside the supported subset / not found / solver unknown on a new obligation), 3 engine self-check failed. '
         'Genuine defects found are listed in known_findings.json; seven were repaired in /repo by minimal unguarded commits whose message starts "fix:" '
         '(61f8023, 057a35d, 64a2509, 03a6c1b, 408e8f0, 66e1809, a0fe0ac); no hook or instrumentation was added to /repo. Bounded stand-ins (C01/C02 codec) are reported '
         'separately and never counted as discharged obligations. DESIGN.md section 0 describes what was built.')
DEFAULT_NA = 'check not built yet (construction in progress; see DESIGN.md section 11 for the build order)'
NOT_APPLICABLE = {}
TB = ('Trusted: the PyVC encoding of Python semantics (/verif/pyvc), z3/cvc5, and the assumed contracts listed in the evidence file '
      '(coverage.trusted_base). ')
CLAIMED = {
    'C13': {
        'text': 'Unbounded proof: _get_event_handler/_get_namespace_handler (server and client) and the four _trigger_event '
                'implementations are loop-free and are executed symbolically over fully symbolic registries (maps as SMT arrays), '
                'event, namespace and argument tuple of symbolic length; every path is checked against the six-target precedence '
                'written from the statement. The four Namespace.trigger_event methods are proved to call on_<event> with the arguments.',
        'design_ref': '8.13', 'technique': 'contract-based deductive verification (symbolic execution of the real AST + SMT)',
        'note': TB + "Domain: event and namespace names other than '*'; registered handlers are truthy (A4); the client's internal "
                     "'__disconnect_final' pseudo-event excluded. Application handlers may return anything and raise any Exception."},
    'C17': {
        'text': 'Unbounded proof, complete for the stated domain: each of the 30 helper methods is loop-free and is executed with every '
                'parameter an unconstrained symbolic value; the single delegated call is bound against the real signature of the '
                'target method and each same-named parameter is proved to receive the caller\'s value (namespace: the caller\'s if '
                'truthy, else the registration namespace); the result is proved to be passed back.',
        'design_ref': '8.17', 'technique': 'contract-based deductive verification (contract schema instantiated per helper)',
        'note': TB + 'The contract schema is instantiated mechanically for every public method of the four namespace classes that has a '
                     'same-named method on the delegate class; argument binding follows Python\'s positional/keyword rules.'},
}

GEN = 'contract-based deductive verification (symbolic execution of the real AST against sidecar contracts, VCs discharged by z3/cvc5)'
CLAIMED.update({
    'C03': {'text': 'Unbounded proof over all membership states: a representation invariant of the room tables (bidict consistency, members are '
                    'connected with one transport id, ids issued) and, per manager operation, a postcondition over the abstract view '
                    'member(ns, room, sid) written from the statement; the emit recipient loops (threaded and asyncio, with and without '
                    'callback) carry an inductive invariant "exactly once to every addressed, not skipped member, nothing to anyone else"; '
                    'get_rooms/get_participants/close_room/disconnect loops likewise. History claims follow by induction on the operations.',
            'design_ref': '8.3', 'technique': GEN,
            'note': TB + 'bidict 0.24 item assignment/deletion semantics assumed; engine.io send_packet queues one frame; rooms are hashable non-sequence '
                         'names or non-empty lists of them; single-host managers.'},
    'C04': {'text': 'Unbounded proof of the sequential lifecycle: _handle_connect (admission, handler invoked once with the auth payload, CONNECT / '
                    'CONNECT_ERROR / always_connect variants, no membership retained on refusal, fresh session id), _handle_disconnect, disconnect(), '
                    '_handle_eio_disconnect (every namespace of the transport) and the manager operations they use, each against postconditions '
                    'written from the statement, including the exits on which an application handler raises.',
            'design_ref': '8.4', 'technique': GEN,
            'note': TB + 'engine.io generate_id returns a never-used id; handlers do not re-enter the server (H0); the asyncio interleaving clause is decided '
                         'by the gate obligations of C20/C04-async where present; one known finding (remaining namespaces skipped when a disconnect handler raises).'},
    'C05': {'text': 'Unbounded proof: _handle_eio_message hands each frame exactly once to the handler its decoded type selects (binary packets '
                    'reassembled per transport), _handle_event dispatches exactly once for a connected client and not at all otherwise, '
                    '_handle_event_internal sends exactly one ACK with the id, namespace and packed return value to the sender only; for all '
                    'registries, ids and payloads (symbolic).', 'design_ref': '8.5', 'technique': GEN,
            'note': TB + 'background tasks run their target exactly once (modelled inline); Packet methods are used through the summaries proved in the codec world.'},
    'C06': {'text': 'Unbounded proof: _generate_ack_id issues an id unique among the client\'s outstanding callbacks, emit registers one per '
                    'recipient, trigger_callback/_handle_ack invoke the callback exactly once with the acknowledged arguments only for an '
                    'outstanding id of the acknowledging connection and otherwise change nothing, basic_disconnect drops outstanding callbacks.',
            'design_ref': '8.6', 'technique': GEN, 'note': TB + 'call() (Event wait) not yet under contract; ids are values off the wire (never the private counter sentinel).'},
    'C08': {'text': 'Unbounded proof of the per-packet bookkeeping so far under contract: _handle_connect (first/repeated acceptance), '
                    '_handle_disconnect (handler once, namespace forgotten, connected flag), emit namespace guard. One known finding (DISCONNECT for a '
                    'namespace that is not connected runs the handler).', 'design_ref': '8.8', 'technique': GEN,
            'note': TB + 'connect() wait loop, _handle_error, _handle_eio_connect/_disconnect are not under contract yet; engine.io client disconnect() contract assumed.'},
    'C09': {'text': 'Unbounded proof: client _handle_event (one dispatch, exactly one ACK when an id is present), _handle_ack (callback once for an '
                    'outstanding namespace+id, otherwise no effect), _generate_ack_id (fresh id), emit (packing, id registration, BadNamespaceError), '
                    '_send_packet (frames in order); threaded and asyncio clients.', 'design_ref': '8.9', 'technique': GEN,
            'note': TB + 'call() not yet under contract.'},
    'C11': {'text': 'Unbounded proof that _handle_eio_disconnect leaves no room/namespace membership, callbacks, pending mark, request environment or '
                    'partially received packet of the transport, on normal exit and when handlers raise (two defects repaired, one recorded); '
                    '_handle_disconnect/disconnect/basic_disconnect/_handle_connect refusal paths likewise.', 'design_ref': '8.11', 'technique': GEN,
            'note': TB + '"memory does not grow" is derived from the frame conditions, not measured; quiescent pre-state (no disconnect of the same transport in progress).'},
    'C12': {'text': 'Unbounded proof of an ownership frame for _handle_eio_message with the decoded fields of the frame ARBITRARY (uninterpreted functions '
                    'of the frame): nothing is sent to another transport, no other client\'s membership, callbacks or half-received packet changes, '
                    'handlers run only with the sender\'s session id, the manager invariant is preserved, on normal and exceptional exit; '
                    'malformed payloads covered by total contracts of the event/ack handlers.', 'design_ref': '8.12', 'technique': GEN,
            'note': TB + 'engine.io contains exceptions of the message callback; decode totality/size clauses belong to the codec world (not yet claimed); names \'*\' excluded.'},
    'C16': {'text': 'Unbounded proof: get_session/save_session address exactly the cell (transport of the sid, namespace), return what was saved, '
                    'create an empty dict otherwise and touch no other cell; injectivity of sid -> (transport, namespace) from the manager invariant. '
                    'Freshness after a namespace disconnect is a recorded finding.', 'design_ref': '8.16', 'technique': GEN,
            'note': TB + 'engine.io get_session returns one dict per live connection; session() context manager not yet under contract.'},
})

# ---- refreshed notes for checks whose coverage grew after they were first claimed
CLAIMED['C06']['note'] = TB + ('call() is under contract with the Event.wait model (the only thing that sets the private event is the private callback); '
                               'ids are values off the wire (never the private counter sentinel, repaired in 057a35d); emit on pub/sub managers may '
                               'address session ids of other hosts, so "the sid was issued here" is not required of emit.')
CLAIMED['C08']['text'] = ('Unbounded proof of the client-side bookkeeping: _handle_eio_message (type selection, binary reassembly), _handle_connect (first/'
                          'repeated acceptance), _handle_disconnect (handler once, namespace forgotten, connected flag), _handle_error, _handle_eio_disconnect '
                          '(every connected namespace told once, tables emptied), emit namespace guard. One known finding (DISCONNECT for a namespace '
                          'that is not connected runs the handler), pinned by an upstream test and therefore recorded, not repaired.')
CLAIMED['C08']['note'] = TB + ('the body of Client.connect() (wait loop over namespaces) and _handle_eio_connect are not under contract: connect() is used through an '
                               'assumed summary; engine.io client disconnect() contract assumed.')
CLAIMED['C09']['note'] = TB + 'call() is under contract with the Event.wait model; engine.io client send() queues one frame (assumed).'

CLAIMED.update({
    'C01': {'text': 'PARTIAL. Proved without bound (structural induction encoded as a contract on the recursive function): _data_is_binary finds a byte string '
                    'at any depth of lists/tuples/dicts and nothing else; Packet.__init__ promotes EVENT/ACK to BINARY_EVENT/BINARY_ACK exactly when the '
                    'payload contains one (and only those types); add_attachment counts attachments and reports completion exactly at the announced count. '
                    '_reconstruct_binary_internal is proved (structural induction, the recursive calls replaced by its own contract) to return the tree with every '
                    'placeholder object replaced by the attachment it numbers, lists and dicts rebuilt item by item in order (spec relation is_recon), for trees whose '
                    'placeholders are in range. NOT proved: the text header scanner/printer (encode/decode string code: z3/cvc5 string theories did not decide '
                    'int(s[a:b]) and replace chains, see DESIGN.md 10) and the placeholder extraction _deconstruct_binary_internal (a comprehension whose body '
                    'appends to the attachment list: outside the executor); those and the round trip itself are covered only by the BOUNDED stand-in bounded/codec.py.',
            'design_ref': '8.1', 'technique': GEN,
            'note': TB + 'json.dumps/loads round trip on JSON-compatible trees assumed; Lean lemma off_pos_iff (lemmas/Lemmas.lean) checked by lean and assumed in the codec world.'},
    'C07': {'text': 'Unbounded proof per function plus composition lemmas: every PubSubManager/AsyncPubSubManager operation either applies the operation '
                    'locally (exactly the Manager contract of C03) or publishes exactly one message carrying its arguments and host id; every _handle_* applies a '
                    'received message to the local membership exactly as the single-server operation would, only for locally held session ids, and skips the '
                    'issuing host for emits it already delivered; callbacks are relayed to and completed only on the issuing host. The cluster lemmas (any number '
                    'of hosts, any placement; z3) derive "exactly the single-server recipients, each from exactly one host" from those contracts and the '
                    'freshness of session ids.', 'design_ref': '8.7', 'technique': GEN + '; composition lemmas over abstract views',
            'note': TB + 'the channel is an ordered, lossless broadcast (assumed: _publish/_listen are the backend\'s); the race clause (membership change vs. in-flight '
                         'message) follows from per-host atomic application and is argued in DESIGN.md, not mechanised; backends (redis/kafka/kombu/zmq) not under contract.'},
    'C10': {'text': 'Unbounded proof: _handle_eio_disconnect starts a reconnection effort exactly when reconnection is enabled, the loss was not requested by either '
                    'side and no effort exists; _handle_reconnect (loop invariant over the attempt counter, symbolic real-valued delays) waits before attempt k '
                    'for a delay within min(delay*2^(k-1), max) +/- randomization, re-issues connect() with the recorded url/headers/auth/transports/namespaces, '
                    'stops at the first success or after reconnection_attempts attempts, and ends without a further attempt when the abort event is set; '
                    'connect(), whatever its outcome, leaves the reconnect task and the reconnect-abort event alone.',
            'design_ref': '8.10', 'technique': GEN,
            'note': TB + 'random.random() in [0,1); Event.wait(timeout) model; Client.connect() used through an assumed summary (records the attempt; returns or raises '
                         'ConnectionError); real arithmetic for delays (no floating point rounding).'},
    'C14': {'text': 'Translation-validation style: every asyncio function under contract is verified against the SAME contract object as its threaded twin '
                    '(async/await erased by a fixed rewriting whose idioms R1-R4 are modelled once), so both are proved to have the same packets, handler calls, '
                    'results and exceptions as far as the contracts of C03-C13/C15-C20 constrain them; in addition every coroutine-vs-function dispatch site is '
                    'classified (awaited iff coroutine function) and the pairs not under any contract are listed in the evidence as uncovered.',
            'design_ref': '8.14', 'technique': GEN + ' applied to both members of each twin pair',
            'note': TB + 'equivalence is relative to the contracts: behaviour the contracts leave open (log messages, internal task scheduling order) is not compared; '
                         'twin pairs without a contract are listed under coverage.not_reached.'},
    'C15': {'text': 'Unbounded proof with an explicit fault model: the listener loop body is executed with the received message ARBITRARY (any value, any type) and '
                    'with every _handle_* and decoding step allowed to raise any Exception; the loop invariant "the listener is still consuming" is preserved on every '
                    'path (the only exits are those of the channel generator). Each _handle_* is proved to ignore messages carrying the local host id and '
                    'acknowledgements addressed to another host.', 'design_ref': '8.15', 'technique': GEN,
            'note': TB + 'the channel generator (_listen) itself is the backend\'s and assumed not to terminate on its own; BaseException (task cancellation, KeyboardInterrupt) out of scope.'},
    'C18': {'text': 'Unbounded proof: admin_connect accepts exactly per the authentication decision table written from the statement (disabled / equal dict / member '
                    'of list / predicate true, sync and coroutine predicates) and registers nothing on refusal; the instrumentation wrappers '
                    '(_trigger_event, _emit, _basic_enter_room, _basic_leave_room) call the original exactly once with the caller\'s arguments, return its result, '
                    'let its exception through unchanged, and otherwise only emit to the admin namespace; read-only mode registers no mutating admin handler.',
            'design_ref': '8.18', 'technique': GEN,
            'note': TB + 'the wrapped server is an external object whose uses are recorded (every attribute chain and call); periodic stats task and the '
                         'engine.io-level wrappers (_eio_*) not under contract.'},
    'C19': {'text': 'Rely/guarantee proof over all interleavings at the granularity the property names: each handler closure registered by connect() is an action with a '
                    'verified contract; receive()/emit()/call() are verified with the environment relation ENV (reflexive-transitive closure of those actions, '
                    'lemmas env.* proved by z3) applied before every Event operation and every read of the shared buffer/flag (threads) or inside every wait that '
                    'suspends (asyncio). Proved: receive returns arrived[k] on its k-th return (ghost invariant arrived = returned ++ buffer); TimeoutError only with '
                    'no signalled, unreturned event; DisconnectedError only after the final disconnect with every arrival returned; emit/call go to the client\'s '
                    'namespace, retry over SocketIOError and raise DisconnectedError only after the end. One defect found and repaired (408e8f0).',
            'design_ref': '8.19', 'technique': GEN + '; rely/guarantee with ghost history',
            'note': TB + 'handlers of one client run one after another (engine.io read loop); Event.set/clear/wait are atomic; the arrival instant of an event is the '
                         'signal (input_event.set()) of the catch-all handler; SimpleClient.connect()/disconnect() bodies not under contract.'},
    'C20': {'text': 'Gate rule: (g1, syntactic over the real AST) the test is_connected/can_disconnect and the mark pre_disconnect are one atomic step; (g2/g3, proved from '
                    'the verified manager contracts) once marked or gone a session id is never connected again by another party, so the second terminator finds it '
                    'not connected and does nothing. g1 fails for the threaded server (no lock between test and mark): recorded as known finding with a '
                    'deterministic witness; g2/g3 are proved so that any other race is still reported.', 'design_ref': '8.20',
            'technique': GEN + '; syntactic atomicity rule for the gate',
            'note': TB + 'thread interleavings are not enumerated: the argument is the gate rule; the finding is not repaired (needs a lock in Server.disconnect/_handle_disconnect).'},
})

CLAIMED['C02'] = {
    'text': 'Composition over per-function proofs. Proved without bound, for the threaded and the asyncio classes: emit() queues exactly one packet whose payload is '
            '[event] ++ pack(data) on the stated namespace (tuple / None / single value cases, BadNamespaceError otherwise), with a fresh id iff a callback is given; '
            '_send_packet hands the frames of one packet to engine.io contiguously and in order; _handle_eio_message gives every decoded packet to the handler its type selects '
            '(binary packets reassembled per transport); _handle_event dispatches (event = payload[0], namespace, sid? ++ payload[1:]) exactly once and acknowledges with the packed '
            'return value under the same id and namespace; _handle_ack/trigger_callback invoke the registered callback with the acknowledged elements; call() returns '
            'None / the value / the tuple. Thirteen z3 lemmas connect those clause builders to the oracle args(x) written from the statement (what is queued is what the '
            'receiving contract dispatches; callback and call() results). The codec round trip between the two sides is only BOUNDED (bounded/codec.py, default and msgpack).',
    'design_ref': '0.2, 8.2', 'technique': GEN + '; composition lemmas; bounded stand-in for the codec',
    'note': TB + 'engine.io delivers the frames of one connection losslessly and in order (assumed); Packet/MsgPackPacket encode-decode round trip is not proved (bounded over a '
                 'finite packet grammar, reported separately); with async_handlers=True handlers are STARTED in arrival order, completion order is not claimed; concurrent emitters excluded by the property.'}

# ---- second refresh (functions added late in the build)
CLAIMED['C08']['text'] = ('Unbounded proof of the client-side bookkeeping: connect() (recorded arguments, transport failure reported to connect_error per requested namespace, '
                          'the wait for the namespaces under arbitrary interference of the packet-handling thread, success only when exactly the requested namespaces are '
                          'connected, the failure path leaving the client fully disconnected - one defect found there and repaired, 66e1809), _handle_eio_connect (one CONNECT per '
                          'requested namespace carrying the auth value or the result of one call of the auth callable), _handle_eio_message, _handle_connect, _handle_disconnect, '
                          '_handle_error, _handle_eio_disconnect, disconnect(), shutdown(), _handle_reconnect (re-connects with the recorded arguments), emit namespace guard. '
                          'One known finding (DISCONNECT for a namespace that is not connected runs the handler), pinned by an upstream test and therefore recorded, not repaired.')
CLAIMED['C08']['note'] = TB + ('connect(): namespaces given explicitly (string or list; the default "every namespace with a handler" is outside the proof), retry=False; engine.io '
                               'connect() either raises ConnectionError(msg[, info]) or runs the connect handler once before returning, disconnect() runs the disconnect handler '
                               'synchronously once (read from engine.io 4.14).')
CLAIMED['C10']['note'] = TB + ('random.random() in [0,1); Event.wait(timeout) model; _handle_reconnect sees connect() through its call-site summary (records the attempt; returns or '
                               'raises ConnectionError) while the body of connect() is verified separately; real arithmetic for delays (no floating point rounding); shutdown() under contract.')
CLAIMED['C16']['note'] = TB + 'engine.io get_session returns one dict per live connection; the session() context manager (__enter__/__exit__, sync and asyncio) is under contract.'
CLAIMED['C19']['note'] = TB + ('handlers of one client run one after another (engine.io read loop); Event.set/clear/wait are atomic; the arrival instant of an event is the '
                               'signal (input_event.set()) of the catch-all handler; SimpleClient.connect()/disconnect() are under contract (what is registered, on which namespace, '
                               'with which arguments the transport-level client is created and connected).')

CLAIMED['C18']['text'] = ('Unbounded proof: admin_connect accepts exactly per the authentication decision table written from the statement (disabled / equal dict / member '
                          'of list / predicate true, sync and coroutine predicates) and registers nothing on refusal; the instrumentation wrappers '
                          "(_trigger_event, _emit, _basic_enter_room, _basic_leave_room) call the original exactly once with the caller's positional, keyword and extra "
                          'keyword arguments, return its result, let its exception through unchanged, raise nothing of their own, and otherwise only emit to the admin '
                          'namespace; read-only mode registers no mutating admin handler. One defect found and repaired (a0fe0ac).')
