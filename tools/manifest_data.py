NOTES = ('Every check re-reads /repo/src/socketio with ast on each run, executes the functions under contract symbolically '
         'and discharges the generated verification conditions with z3/cvc5. Exit 0 held, 1 violation, 2 undecided '
         '(function outside the supported subset / not found / solver unknown on a new obligation), 3 engine self-check failed. '
         'Genuine defects found so far are listed in known_findings.json (fixed ones with their /repo commit).')
DEFAULT_NA = 'check not built yet (construction in progress; see DESIGN.md section 11 for the build order)'
NOT_APPLICABLE = {}
TB = ('Trusted: the PyVC encoding of Python semantics (/verif/pyvc), z3/cvc5, and the assumed contracts listed in the evidence file '
      '(coverage.trusted_base). ')
CLAIMED = {
    'C13': {
        'text': 'Unbounded proof: _get_event_handler/_get_namespace_handler (server and client) and the four _trigger_event '
                'implementations are loop-free and are executed symbolically over fully symbolic registries (maps as SMT arrays), '
                'event, namespace and argument tuple of symbolic length; every path is checked against the six-target precedence '
                'written from the statement. The four Namespace.trigger_event methods are proved to call on_<event> with the arguments.',
        'design_ref': '8.13', 'technique': 'contract-based deductive verification (symbolic execution of the real AST + SMT)',
        'note': TB + "Domain: event and namespace names other than '*'; registered handlers are truthy (A4); the client's internal "
                     "'__disconnect_final' pseudo-event excluded. Application handlers may return anything and raise any Exception."},
    'C17': {
        'text': 'Unbounded proof, complete for the stated domain: each of the 30 helper methods is loop-free and is executed with every '
                'parameter an unconstrained symbolic value; the single delegated call is bound against the real signature of the '
                'target method and each same-named parameter is proved to receive the caller\'s value (namespace: the caller\'s if '
                'truthy, else the registration namespace); the result is proved to be passed back.',
        'design_ref': '8.17', 'technique': 'contract-based deductive verification (contract schema instantiated per helper)',
        'note': TB + 'The contract schema is instantiated mechanically for every public method of the four namespace classes that has a '
                     'same-named method on the delegate class; argument binding follows Python\'s positional/keyword rules.'},
}
