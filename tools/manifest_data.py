NOTES = ('Every check re-reads /repo/src/socketio with ast on each run, executes the functions under contract symbolically '
         'and discharges the generated verification conditions with z3/cvc5. Exit 0 held, 1 violation, 2 undecided '
         '(function outside the supported subset / not found / solver unknown on a new obligation), 3 engine self-check failed. '
         'Genuine defects found so far are listed in known_findings.json (fixed ones with their /repo commit).')
DEFAULT_NA = 'check not built yet (construction in progress; see DESIGN.md section 11 for the build order)'
NOT_APPLICABLE = {}
TB = ('Trusted: the PyVC encoding of Python semantics (/verif/pyvc), z3/cvc5, and the assumed contracts listed in the evidence file '
      '(coverage.trusted_base). ')
CLAIMED = {
    'C13': {
        'text': 'Unbounded proof: _get_event_handler/_get_namespace_handler (server and client) and the four _trigger_event '
                'implementations are loop-free and are executed symbolically over fully symbolic registries (maps as SMT arrays), '
                'event, namespace and argument tuple of symbolic length; every path is checked against the six-target precedence '
                'written from the statement. The four Namespace.trigger_event methods are proved to call on_<event> with the arguments.',
        'design_ref': '8.13', 'technique': 'contract-based deductive verification (symbolic execution of the real AST + SMT)',
        'note': TB + "Domain: event and namespace names other than '*'; registered handlers are truthy (A4); the client's internal "
                     "'__disconnect_final' pseudo-event excluded. Application handlers may return anything and raise any Exception."},
    'C17': {
        'text': 'Unbounded proof, complete for the stated domain: each of the 30 helper methods is loop-free and is executed with every '
                'parameter an unconstrained symbolic value; the single delegated call is bound against the real signature of the '
                'target method and each same-named parameter is proved to receive the caller\'s value (namespace: the caller\'s if '
                'truthy, else the registration namespace); the result is proved to be passed back.',
        'design_ref': '8.17', 'technique': 'contract-based deductive verification (contract schema instantiated per helper)',
        'note': TB + 'The contract schema is instantiated mechanically for every public method of the four namespace classes that has a '
                     'same-named method on the delegate class; argument binding follows Python\'s positional/keyword rules.'},
}

GEN = 'contract-based deductive verification (symbolic execution of the real AST against sidecar contracts, VCs discharged by z3/cvc5)'
CLAIMED.update({
    'C03': {'text': 'Unbounded proof over all membership states: a representation invariant of the room tables (bidict consistency, members are '
                    'connected with one transport id, ids issued) and, per manager operation, a postcondition over the abstract view '
                    'member(ns, room, sid) written from the statement; the emit recipient loops (threaded and asyncio, with and without '
                    'callback) carry an inductive invariant "exactly once to every addressed, not skipped member, nothing to anyone else"; '
                    'get_rooms/get_participants/close_room/disconnect loops likewise. History claims follow by induction on the operations.',
            'design_ref': '8.3', 'technique': GEN,
            'note': TB + 'bidict 0.24 item assignment/deletion semantics assumed; engine.io send_packet queues one frame; rooms are hashable non-sequence '
                         'names or non-empty lists of them; single-host managers.'},
    'C04': {'text': 'Unbounded proof of the sequential lifecycle: _handle_connect (admission, handler invoked once with the auth payload, CONNECT / '
                    'CONNECT_ERROR / always_connect variants, no membership retained on refusal, fresh session id), _handle_disconnect, disconnect(), '
                    '_handle_eio_disconnect (every namespace of the transport) and the manager operations they use, each against postconditions '
                    'written from the statement, including the exits on which an application handler raises.',
            'design_ref': '8.4', 'technique': GEN,
            'note': TB + 'engine.io generate_id returns a never-used id; handlers do not re-enter the server (H0); the asyncio interleaving clause is decided '
                         'by the gate obligations of C20/C04-async where present; one known finding (remaining namespaces skipped when a disconnect handler raises).'},
    'C05': {'text': 'Unbounded proof: _handle_eio_message hands each frame exactly once to the handler its decoded type selects (binary packets '
                    'reassembled per transport), _handle_event dispatches exactly once for a connected client and not at all otherwise, '
                    '_handle_event_internal sends exactly one ACK with the id, namespace and packed return value to the sender only; for all '
                    'registries, ids and payloads (symbolic).', 'design_ref': '8.5', 'technique': GEN,
            'note': TB + 'background tasks run their target exactly once (modelled inline); Packet methods are used through the summaries proved in the codec world.'},
    'C06': {'text': 'Unbounded proof: _generate_ack_id issues an id unique among the client\'s outstanding callbacks, emit registers one per '
                    'recipient, trigger_callback/_handle_ack invoke the callback exactly once with the acknowledged arguments only for an '
                    'outstanding id of the acknowledging connection and otherwise change nothing, basic_disconnect drops outstanding callbacks.',
            'design_ref': '8.6', 'technique': GEN, 'note': TB + 'call() (Event wait) not yet under contract; ids are values off the wire (never the private counter sentinel).'},
    'C08': {'text': 'Unbounded proof of the per-packet bookkeeping so far under contract: _handle_connect (first/repeated acceptance), '
                    '_handle_disconnect (handler once, namespace forgotten, connected flag), emit namespace guard. One known finding (DISCONNECT for a '
                    'namespace that is not connected runs the handler).', 'design_ref': '8.8', 'technique': GEN,
            'note': TB + 'connect() wait loop, _handle_error, _handle_eio_connect/_disconnect are not under contract yet; engine.io client disconnect() contract assumed.'},
    'C09': {'text': 'Unbounded proof: client _handle_event (one dispatch, exactly one ACK when an id is present), _handle_ack (callback once for an '
                    'outstanding namespace+id, otherwise no effect), _generate_ack_id (fresh id), emit (packing, id registration, BadNamespaceError), '
                    '_send_packet (frames in order); threaded and asyncio clients.', 'design_ref': '8.9', 'technique': GEN,
            'note': TB + 'call() not yet under contract.'},
    'C11': {'text': 'Unbounded proof that _handle_eio_disconnect leaves no room/namespace membership, callbacks, pending mark, request environment or '
                    'partially received packet of the transport, on normal exit and when handlers raise (two defects repaired, one recorded); '
                    '_handle_disconnect/disconnect/basic_disconnect/_handle_connect refusal paths likewise.', 'design_ref': '8.11', 'technique': GEN,
            'note': TB + '"memory does not grow" is derived from the frame conditions, not measured; quiescent pre-state (no disconnect of the same transport in progress).'},
    'C12': {'text': 'Unbounded proof of an ownership frame for _handle_eio_message with the decoded fields of the frame ARBITRARY (uninterpreted functions '
                    'of the frame): nothing is sent to another transport, no other client\'s membership, callbacks or half-received packet changes, '
                    'handlers run only with the sender\'s session id, the manager invariant is preserved, on normal and exceptional exit; '
                    'malformed payloads covered by total contracts of the event/ack handlers.', 'design_ref': '8.12', 'technique': GEN,
            'note': TB + 'engine.io contains exceptions of the message callback; decode totality/size clauses belong to the codec world (not yet claimed); names \'*\' excluded.'},
    'C16': {'text': 'Unbounded proof: get_session/save_session address exactly the cell (transport of the sid, namespace), return what was saved, '
                    'create an empty dict otherwise and touch no other cell; injectivity of sid -> (transport, namespace) from the manager invariant. '
                    'Freshness after a namespace disconnect is a recorded finding.', 'design_ref': '8.16', 'technique': GEN,
            'note': TB + 'engine.io get_session returns one dict per live connection; session() context manager not yet under contract.'},
})
