#!/bin/bash
# re-vet, with the final machinery, the seeds of the properties whose checks grew most with the callee closure
export VERIF_DIR=${VERIF_DIR:-$PWD}
V=/verif/tools/vet_seed.sh
one() { id=$1; P=${id%-*}; N=${id#*-}; if [ $N -le 2 ]; then WT=/tmp/wt IDOFF=0 bash $V $P $N 2>&1 | tail -1; elif [ $N -le 4 ]; then WT=/tmp/wt2 IDOFF=2 bash $V $P $((N-2)) 2>&1 | tail -1; else WT=/tmp/wt3 IDOFF=4 bash $V $P $((N-4)) 2>&1 | tail -1; fi; }
stream() { for id in "$@"; do one $id; done; }
stream C02-1 C02-2 C02-3 C02-4 C02-5 C02-6 C05-1 C05-2 C05-3 C05-4 C05-5 C05-6 > /tmp/vets_a.log 2>&1 &
stream C07-1 C07-2 C07-3 C07-4 C07-6 C10-1 C10-2 C10-3 C10-5 C10-6 C16-1 C16-2 > /tmp/vets_b.log 2>&1 &
stream C12-1 C12-2 C12-3 C12-4 C15-1 C15-2 C15-3 C15-4 C16-3 C16-4 C16-5 C16-6 > /tmp/vets_c.log 2>&1 &
wait
echo done
