#!/bin/bash
# every property, thorough tier, against /repo as it is; summary lines only
for p in C01 C02 C03 C05 C06 C07 C09 C12 C16 C17 C18 C19 C20 C15 C13 C08 C10 C14 C04 C11; do
  timeout 5400 ./check $p --tier thorough --norecord 2>&1 | grep -v "^      \|^KNOWN\|WARNING" | tail -4 | cut -c1-220
done
