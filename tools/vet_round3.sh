#!/bin/bash
# third round of seeded changes (/tmp/wt3, ids 5 and 6): vetted with the machinery exactly as committed, never looked at before
export VERIF_DIR=${VERIF_DIR:-$PWD}
V=/verif/tools/vet_seed.sh
one() { P=$1; for n in 1 2; do WT=/tmp/wt3 IDOFF=4 bash $V $P $n 2>&1 | tail -1; done; }
stream() { for p in "$@"; do one $p; done; }
stream C01 C02 C03 C05 C06 C07 C19 > /tmp/vet3_a.log 2>&1 &
stream C08 C09 C10 C12 C13 C17 C18 > /tmp/vet3_b.log 2>&1 &
stream C14 C15 C16 C20 C04 C11 > /tmp/vet3_c.log 2>&1 &
wait
echo done
