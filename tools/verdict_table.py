#!/usr/bin/env python3
"""Markdown verdict table from the evidence files (DESIGN.md section 0.2)."""
import json, os
ROOT = os.path.dirname(os.path.dirname(os.path.abspath(__file__)))
print('| id | functions | obligations (all discharged) | bounded stand-ins | known findings | dead spec. cases | wall s (quick, 16 cores) |')
print('|----|-----------|------------------------------|-------------------|----------------|------------------|--------------------------|')
for i in range(1, 21):
    p = 'C%02d' % i
    e = json.load(open(os.path.join(ROOT, 'evidence', p + '.json')))
    c = e['coverage']
    assert c['obligations'] == c['discharged'], p
    print('| %s | %d | %d | %d | %d | %d | %.0f |' % (p, len(c['functions_under_contract']), c['obligations'], len(c.get('bounded_stand_ins_not_counted_as_proved', [])),
                                                  len(c.get('known_findings', [])), len(c.get('specification_cases_no_path_realises', [])), e['wall_s']))
