#!/bin/bash
# tools/vet_all.sh  -- vet every seeded change (round 1: /tmp/wt, ids 1-2; round 2: /tmp/wt2, ids 3-4) in three parallel streams.
# Run through `vp run -- bash tools/vet_all.sh` so that the checks come from a committed snapshot (VERIF_DIR = the snapshot).
export VERIF_DIR=${VERIF_DIR:-$PWD}
V=/verif/tools/vet_seed.sh
one() { id=$1; P=${id%-*}; N=${id#*-}; if [ $N -le 2 ]; then WT=/tmp/wt IDOFF=0 bash $V $P $N 2>&1 | tail -1; else WT=/tmp/wt2 IDOFF=2 bash $V $P $((N-2)) 2>&1 | tail -1; fi; }
stream() { for id in "$@"; do one $id; done; }
stream C01-1 C01-2 C01-3 C01-4 C02-1 C02-2 C02-3 C02-4 C03-1 C03-2 C03-3 C03-4 C05-1 C05-2 C05-3 C05-4 C06-1 C06-2 C06-3 C06-4 C07-1 C07-2 C07-3 C07-4 C19-1 C19-2 C19-3 C19-4 > /tmp/vetall_a.log 2>&1 &
stream C08-1 C08-2 C08-3 C08-4 C09-1 C09-2 C09-3 C09-4 C10-1 C10-2 C10-3 C10-4 C12-1 C12-2 C12-3 C12-4 C13-1 C13-2 C13-3 C13-4 C17-1 C17-2 C17-3 C17-4 C18-1 C18-2 C18-3 C18-4 > /tmp/vetall_b.log 2>&1 &
stream C14-1 C14-2 C14-3 C14-4 C15-1 C15-2 C15-3 C15-4 C16-1 C16-2 C16-3 C16-4 C20-1 C20-2 C20-3 C20-4 C04-1 C04-2 C04-3 C04-4 C11-1 C11-2 C11-3 C11-4 > /tmp/vetall_c.log 2>&1 &
wait
echo done
