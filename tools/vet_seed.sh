#!/bin/bash
# tools/vet_seed.sh <property> <n> [check-props...]  -- vet one seeded defect produced in /tmp/wt/<property>/out/<n> and file it under seeded/
P=$1; N=$2; shift 2; CHECKS=${@:-$P}
SRC=${WT:-/tmp/wt}/$P/out/$N
ID=$P-$((N + ${IDOFF:-0}))
S=/tmp/vet/$ID
OUT=/verif/seeded/$ID
rm -rf $S; mkdir -p $S $OUT
cp -r /repo/src /repo/tests /repo/pyproject.toml /repo/tox.ini $S/ 2>/dev/null
cd $S && git init -q . && git add -A >/dev/null && git -c user.email=a@b -c user.name=x commit -qm base
APPLY=ok
PORTED=""
if [ -f $SRC/patch_ported.diff ]; then git apply $SRC/patch_ported.diff || APPLY=failed; PORTED="ported by hand to the repaired tree (the agent's patch was written against the tree before the fix: commits)"
else git apply $SRC/patch.diff 2>/dev/null || patch -p1 -s --fuzz=3 < $SRC/patch.diff >/dev/null 2>&1 || APPLY=failed; fi
if [ "$APPLY" = failed ]; then echo "$ID: PATCH DOES NOT APPLY"; echo "{\"id\": \"$ID\", \"status\": \"patch does not apply to the current tree\"}" > $OUT/meta.json; rm -rf $S; exit 0; fi
find . -name '*.orig' -delete; find . -name '*.rej' -delete
git diff > $OUT/patch.diff
cp $SRC/demo.py $OUT/demo.py; cp $SRC/notes.md $OUT/notes.md 2>/dev/null
# demo: unmodified (0 expected) and modified (non-zero expected)
(cd /tmp && PYTHONPATH=/repo/src timeout 300 /venv/bin/python $OUT/demo.py >/dev/null 2>&1); D0=$?
(cd /tmp && PYTHONPATH=$S/src timeout 300 /venv/bin/python $OUT/demo.py >/dev/null 2>&1); D1=$?
# the existing test suite without the two admin files (they bind a fixed port)
OLDT=$(python3 -c "import json;m=json.load(open('$OUT/meta.json'));print(m.get('tests_without_admin_files',''))" 2>/dev/null)
if [ -n "$REUSE_TESTS" ] && echo "$OLDT" | grep -q passed; then T="$OLDT"; else
T=$(cd $S && PYTHONPATH=$S/src timeout 1500 /venv/bin/python -m pytest -q -p no:cacheprovider --timeout=900 --ignore=tests/common/test_admin.py --ignore=tests/async/test_admin.py 2>&1 | tail -1)
fi
RES=""
for C in $CHECKS; do
  LOGF=/tmp/vet/$ID.$C.log
  (cd ${VERIF_DIR:-/verif} && VERIF_REPO_ROOT=$S timeout 2700 python3-vt -m pyvc.run $C --norecord 2>&1 | grep -v WARNING > $LOGF)
  R=$( (grep "^$C:" $LOGF; grep "^VIOLATION\|^UNVERIFIABLE\|^UNDECIDED\|^MISSING\|^SELF" $LOGF | head -6) | tr '\n' '|' | cut -c1-1500)
  rm -f $LOGF
  RES="$RES $R"
done
python3 - "$ID" "$P" "$D0" "$D1" "$T" "$RES" "$CHECKS" "$PORTED" <<'PY'
import json,sys,re
id_,p,d0,d1,t,res,checks,ported=sys.argv[1:9]
m=re.findall(r'exit (\d)',res)
meta={'id':id_,'breaks_property':p,'demo_exit_unmodified':int(d0),'demo_exit_with_patch':int(d1),'tests_without_admin_files':t.strip(),
      'checks_run':checks.split(),'check_output':res.strip(),'check_exit_codes':[int(x) for x in m],
      'detected': any(x=='1' for x in m) or ('VIOLATION property=' in res), 'ported': ported, 'what_i_ran':'tools/vet_seed.sh: patch applied to a scratch copy of /repo HEAD; demo.py on unmodified and patched tree; pytest without the two admin test files; ./check with VERIF_REPO_ROOT=<scratch>'}
json.dump(meta,open('/verif/seeded/%s/meta.json'%id_,'w'),indent=1)
print(id_,'demo',d0,d1,'|',t.strip()[-40:],'| detected' if meta['detected'] else '| NOT detected', m)
PY
rm -rf $S
