#!/usr/bin/env python3
"""Regenerates MANIFEST.json from tools/manifest_data.py (claimed checks) and properties.jsonl (everything else is
listed under not_applicable with its reason)."""
import json, os, sys
ROOT = os.path.dirname(os.path.dirname(os.path.abspath(__file__)))
sys.path.insert(0, os.path.join(ROOT, 'tools'))
import manifest_data as D
props = [json.loads(l) for l in open(os.path.join(ROOT, 'properties.jsonl'))]
checks = []
for p in props:
    pid = p['id']
    if pid not in D.CLAIMED:
        continue
    c = D.CLAIMED[pid]
    checks.append({
        'property_id': pid,
        'quick_cmd': './check %s --tier quick' % pid,
        'thorough_cmd': './check %s --tier thorough' % pid,
        'evidence_file': '/verif/evidence/%s.json' % pid,
        'replay_cmd_template': './check %s --tier quick -v   # replay file: {path}' % pid,
        'engine': 'pyvc',
        'level_claimed': {'category': c.get('category', 'proof'), 'text': c['text'], 'design_ref': c['design_ref']},
        'level_note': c['note'],
        'technique': c['technique'],
    })
na = [{'property_id': p['id'], 'reason': D.NOT_APPLICABLE.get(p['id'], D.DEFAULT_NA)} for p in props if p['id'] not in D.CLAIMED]
m = {
    'version': 1,
    'setup_cmd': './check --selftest',
    'hooks': {'guard': 'PYTHON_SOCKETIO_VERIF',
              'enable': 'no hooks: contracts are sidecar files under /verif/contracts; /repo is read with ast on every run and never instrumented',
              'baseline_off_cmd': 'cd /repo && /venv/bin/python -m pytest -q -p no:cacheprovider --timeout=900',
              'source_commits': [], 'add_only': True},
    'engines': [{'name': 'pyvc', 'path': '/verif/pyvc', 'serves_properties': sorted(D.CLAIMED),
                 'kind_free_text': 'contract-based deductive verifier for Python written for this task: symbolic execution of the real AST '
                                   'against sidecar contracts, verification conditions discharged by z3 5.1 (cvc5 1.0 as second back end)'}],
    'checks': checks,
    'notes': D.NOTES,
    'not_applicable': na,
}
json.dump(m, open(os.path.join(ROOT, 'MANIFEST.json'), 'w'), indent=1)
print('MANIFEST: %d checks, %d not_applicable' % (len(checks), len(na)))
