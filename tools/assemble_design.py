#!/usr/bin/env python3
"""Puts DESIGN_asbuilt.md (section 0, with the generated verdict and seeded tables) in front of the design-phase sections of DESIGN.md."""
import os, re, subprocess, sys
ROOT = os.path.dirname(os.path.dirname(os.path.abspath(__file__)))
d = open(os.path.join(ROOT, 'DESIGN.md')).read()
a = open(os.path.join(ROOT, 'DESIGN_asbuilt.md')).read()
run = lambda t: subprocess.run([sys.executable, os.path.join(ROOT, 'tools', t)], capture_output=True, text=True).stdout
a = a.replace('VERDICT_TABLE', run('verdict_table.py').strip())
seeded = run('seeded_table.py').strip()
a = a.replace('Table: SEEDED_TABLE', 'SEEDED_TABLE').replace('SEEDED_TABLE', seeded)
# drop an earlier section 0
if '## 0. As built' in d:
    i = d.index('## 0. As built')
    j = d.index('## 1. Verdict table')
    d = d[:i] + d[j:]
head_end = d.index('## 1. Verdict table')
status_old = d[d.index('Status:'):d.index('Contents')]
status_new = ('Status: built. Section 0 describes the machinery as it is and everything it found; sections 1-13 are the design that was\n'
              'written before any code existed and are kept for the argument (proof rules, encoding, trusted base); where they\n'
              'disagree with section 0, section 0 is right.\n\n')
d = d.replace(status_old, status_new)
d = d.replace('Contents\n\n1. Verdict table', 'Contents\n\n0. As built: what exists, verdicts, deviations, findings, false alarms corrected, seeded changes, what is not reached\n1. Verdict table (design phase)')
head_end = d.index('## 1. Verdict table')
d = d[:head_end] + a.rstrip() + '\n\n---------------------------------------------------------------------------\n\n' + d[head_end:]
open(os.path.join(ROOT, 'DESIGN.md'), 'w').write(d)
print('DESIGN.md assembled: %d lines' % d.count('\n'))
