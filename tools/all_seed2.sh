#!/bin/bash
# every property, quick tier, another solver seed; summary lines only
for p in C01 C02 C03 C05 C06 C07 C09 C12 C16 C17 C18 C19 C20 C15 C13 C08 C10 C14 C04 C11; do
  VERIF_SEED=2 timeout 3000 ./check $p --norecord 2>&1 | grep -v "^      \|^KNOWN\|WARNING" | tail -3 | cut -c1-200
done
