"""Writes expected/loop_sigs.json: for every target whose contract has loop invariants, the signatures (source text of what
is iterated) of the loops of the function on the current tree.  Run at rebaseline time on the unchanged tree:
    python3-vt tools/gen_loop_sigs.py"""
import ast, json, os, sys
ROOT = os.path.dirname(os.path.dirname(os.path.abspath(__file__)))
sys.path.insert(0, ROOT)
from pyvc import source
from pyvc.run import registry
from pyvc.contract import find_target
from pyvc.loops import loop_sig

out = {}
for c in registry().contracts:
    if not c.loops or c.trusted:
        continue
    for t in c.targets():
        f = find_target(t)
        if f is None:
            continue
        fn = source.prepared(f[2])
        sigs = []

        def visit(node):
            for child in ast.iter_child_nodes(node):
                if isinstance(child, (ast.For, ast.While, ast.AsyncFor, ast.ListComp, ast.DictComp, ast.GeneratorExp, ast.SetComp)):
                    sigs.append(loop_sig(child))
                visit(child)
        visit(fn)
        out[t] = sigs
json.dump(out, open(os.path.join(ROOT, 'expected', 'loop_sigs.json'), 'w'), indent=1, sort_keys=True)
print(len(out), 'targets')
