#!/bin/sh
# tools/try_patch.sh <property> <patch.diff> [extra check args]  -- run a check against a scratch copy of /repo with the patch applied
set -e
D=$(mktemp -d /tmp/mut.XXXXXX)
trap 'rm -rf $D' EXIT
mkdir -p $D && cp -r /repo/src $D/ 
(cd $D && patch -p1 -s < "$2")
cd /verif && VERIF_REPO_ROOT=$D python3-vt -m pyvc.run $1 --norecord $3 2>&1 | grep -v WARNING | tail -${TAILN:-4}
