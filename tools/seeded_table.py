#!/usr/bin/env python3
"""Markdown table of the vetted seeded changes (seeded/*/meta.json) for DESIGN.md section 0.7."""
import glob, json, os, re
ROOT = os.path.dirname(os.path.dirname(os.path.abspath(__file__)))
# seeds that slipped through when first run and are caught now only because the machinery was extended AFTER looking at them
EXTENDED = {
    'C01-4': "bounded grammar got a leaf containing '?'",
    'C03-3': 'writes through a live view became a frame obligation (also across loop cuts)',
    'C05-2': "C05's check now includes the handler-resolution contracts of C13",
    'C08-2': "C08's check now includes _handle_reconnect",
    'C10-2': "connect() body put under contract, clause 'reconnection effort left alone'",
    'C10-4': 'connect() body put under contract (caught in the first run; the later fix 66e1809 makes the seeded change harmless)',
    'C11-3': "C11's check now includes BaseManager.connect",
    'C12-1': "C12's check now includes is_connected",
    'C12-4': 'catch-all raise cases stopped accepting implicit exceptions',
    'C14-4': "clause 'client told before its disconnect handler runs' (@C14)",
    'C15-1': 'forbidden-outcome obligations are part of every baseline',
    'C15-3': 'forbidden-outcome obligations are part of every baseline',
    'C15-4': "C15's check now includes _return_callback",
    'C16-1': 'baseline obligations are never skipped after other failures',
    'C16-3': 'baseline obligations are never skipped after other failures',
    'C16-4': 'dict() builtin modelled (a copy is not the object)',
    'C17-3': "clause 'positional parameters in the order of the underlying method'",
    'C17-4': '_set_server/_set_client put under contract',
    'C18-4': 'the wrapper contract got symbolic extra keyword arguments',
    'C20-4': 'gate shape obligations g0',
    'C07-5': "callee closure: C07's check now includes get_participants / Manager.emit",
    'C12-5': "C12's check now includes _handle_eio_disconnect (other transports' half-received packets kept)",
    'C12-6': 'bounded stand-in: malformed msgpack frames must be refused (not deductive)',
    'C15-5': 'reading an unbound local raises UnboundLocalError in the executor',
    'C15-6': "_handle_emit clause: the acknowledgement is relayed to the host the message names",
    'C18-6': 'lookups in containers of the wrapped server may miss (KeyError of the wrapper itself)',
    'C20-5': 'gate g2: the mark is dropped only after the client left its rooms (statement order)',
    'C03-7': "loops are found again by what they iterate over when a loop was added (expected/loop_sigs.json); the new loop borrows the invariant of the loop it copies",
    'C10-7': "connect() clause 'reconnect-abort event left alone' (+ rely: packet handlers never touch that event)",
    'C18-7': 'a new optional parameter the contract does not declare is bound to its default (or to the keyword argument of that name) instead of giving up',
}
try:
    FIRST = json.load(open(os.path.join(ROOT, 'seeded', 'vet_run_at_4528970.json')))
    FIRST = {k: v for k, v in FIRST.items() if int(k.split('-')[1]) <= 4}
    FIRST.update(json.load(open(os.path.join(ROOT, 'seeded', 'vet_round3_at_43fd6fd.json'))))
    FIRST.update({k: dict(v, exit_codes=v['exit_codes']) for k, v in json.load(open(os.path.join(ROOT, 'seeded', 'vet_round4_at_9b9fbde.json'))).items()})
except Exception:
    FIRST = {}
rows = []
for f in sorted(glob.glob(os.path.join(ROOT, 'seeded', '*', 'meta.json'))):
    m = json.load(open(f))
    d = os.path.dirname(f)
    title = ''
    try:
        for l in open(os.path.join(d, 'notes.md')):
            if l.startswith('#'):
                title = re.sub(r'^#+\s*', '', l.strip())
                title = re.sub(r'^C\d\d[^:—-]*[:—-]\s*', '', title)
                break
        if not title:
            for l in open(os.path.join(d, 'notes.md')):
                if l.strip():
                    title = re.sub(r'[*`]', '', l.strip())
                    break
    except OSError:
        pass
    viol = re.findall(r'replays/C\d\d/([^| ]+?)\.json', m.get('check_output', ''))
    first = viol[0][:90] if viol else ''
    codes = m.get('check_exit_codes', [])
    if m.get('status'):
        res = m['status']
    elif m.get('demo_exit_with_patch') == 0:
        res = 'seed invalidated by fix 66e1809 (its demonstration passes with the patch now); check: exit %s' % ','.join(map(str, codes))
    elif m.get('detected'):
        res = 'caught (exit 1)'
    elif codes and all(c == 2 for c in codes):
        res = 'undecided (exit 2): function left the subset'
    else:
        res = 'NOT caught (exit %s)' % ','.join(map(str, codes))
    f0 = FIRST.get(m['id'])
    first_run = '' if f0 is None else ('caught' if f0['caught'] else 'missed (exit %s)' % ','.join(map(str, f0['exit_codes'])))
    rows.append((m['id'], title[:110], ' '.join(m.get('checks_run', [])), res, first, 'ported' if m.get('ported') else '', first_run, EXTENDED.get(m['id'], '')))
print('| seed | change | check | first run (4528970; ids 5,6: 43fd6fd; id 7: 9b9fbde) | final | first failed obligation | extended after the seed was seen |')
print('|------|--------|-------|----------------------------|-------|-------------------------|----------------------------------|')
for r in rows:
    print('| %s%s | %s | %s | %s | %s | `%s` | %s |' % (r[0], ' (ported)' if r[5] else '', r[1], r[2], r[6], r[3], r[4], r[7]))
def rnd(r):
    return (int(r[0].split('-')[1]) - 1) // 2 + 1
for k in (1, 2, 3, 4):
    rr = [r for r in rows if rnd(r) == k]
    if rr:
        print('\nround %d: %d of %d caught%s' % (k, sum(1 for r in rr if r[3].startswith('caught')), len(rr),
                                                 {1: '', 2: '', 3: ' at the end (33 of 40 when first vetted, with the machinery exactly as committed at 43fd6fd)',
                                                  4: ' at the end (8 of 12 when first vetted, with the machinery exactly as committed at 9b9fbde)'}[k]))
rows12 = [r for r in rows if rnd(r) < 3]
n = sum(1 for r in rows if r[3].startswith('caught'))
n0 = sum(1 for r in rows12 if r[6] == 'caught')
ne = sum(1 for r in rows if r[3].startswith('caught') and r[7])
print('\n%d of %d seeded changes are caught by the check of the property they break (%d of them only after an extension made with the seed in view); '
      '%d of the %d seeds of rounds 1 and 2 were caught by the machinery as committed at 4528970; 33 of the 40 seeds of round 3 by the machinery as committed at 43fd6fd.' % (n, len(rows), ne, n0, len(rows12)))
