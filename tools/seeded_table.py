#!/usr/bin/env python3
"""Markdown table of the vetted seeded changes (seeded/*/meta.json) for DESIGN.md section 0.7."""
import glob, json, os, re
ROOT = os.path.dirname(os.path.dirname(os.path.abspath(__file__)))
rows = []
for f in sorted(glob.glob(os.path.join(ROOT, 'seeded', '*', 'meta.json'))):
    m = json.load(open(f))
    d = os.path.dirname(f)
    title = ''
    try:
        for l in open(os.path.join(d, 'notes.md')):
            if l.startswith('#'):
                title = re.sub(r'^#+\s*', '', l.strip())
                title = re.sub(r'^C\d\d[^:—-]*[:—-]\s*', '', title)
                break
    except OSError:
        pass
    viol = re.findall(r'replays/C\d\d/([^| ]+?)\.json', m.get('check_output', ''))
    first = viol[0][:90] if viol else ''
    codes = m.get('check_exit_codes', [])
    if m.get('status'):
        res = m['status']
    elif m.get('detected'):
        res = 'caught (exit 1)'
    elif codes and all(c == 2 for c in codes):
        res = 'undecided (exit 2): function left the subset'
    else:
        res = 'NOT caught (exit %s)' % ','.join(map(str, codes))
    rows.append((m['id'], title[:110], ' '.join(m.get('checks_run', [])), res, first, 'ported' if m.get('ported') else ''))
print('| seed | change | check run | result | first failed obligation |')
print('|------|--------|-----------|--------|-------------------------|')
for r in rows:
    print('| %s%s | %s | %s | %s | `%s` |' % (r[0], ' (ported)' if r[5] else '', r[1], r[2], r[3], r[4]))
n = sum(1 for r in rows if r[3].startswith('caught'))
print('\n%d of %d seeded changes are caught by the check of the property they break.' % (n, len(rows)))
