#!/bin/sh
# tools/mutant.sh <property> <file under src/socketio> <python-regex> <replacement>   -- run a check against a scratch copy
set -e
trap 'rm -rf $D' EXIT
D=$(mktemp -d /tmp/mut.XXXXXX)
mkdir -p $D/src && cp -r /repo/src/socketio $D/src/
python3 - "$D/src/socketio/$2" "$3" "$4" <<'PY'
import re,sys
p,pat,rep=sys.argv[1:4]
s=open(p).read()
n=len(re.findall(pat,s))
if n==0: print('PATTERN NOT FOUND'); sys.exit(1)
s=re.sub(pat,rep,s,count=1)
open(p,'w').write(s)
PY
cd /verif && VERIF_REPO_ROOT=$D python3-vt -m pyvc.run $1 --norecord ${5:-} 2>&1 | tail -${TAILN:-6}
rm -rf $D
