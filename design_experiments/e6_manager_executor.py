# E6 (scratch): symbolic execution of the REAL BaseManager methods that use nested dicts and
# KeyError as control flow, on the flat-array state model, checked against view contracts.
# Not the framework: no typing layer, no loops, hand-written contracts in z3. python3-vt e6_manager_executor.py
import ast, z3, time, sys
V = z3.DeclareSort('V'); B = z3.BoolSort()
A1 = z3.ArraySort(V, B); A2 = z3.ArraySort(V, A1); A3 = z3.ArraySort(V, A2)
W3 = z3.ArraySort(V, z3.ArraySort(V, z3.ArraySort(V, V)))
EMPTY = z3.K(V, False)
NONE = z3.Const('None', V)

class St:  # manager state: rooms (3 levels, fwd + inverse of the bidict), pending_disconnect (set per ns; multiplicity ignored here)
    F = ['d1', 'd2', 'd3', 'fwd', 'idom', 'inv', 'p1', 'p2']
    def __init__(s, **kw): s.__dict__.update(kw)
    @staticmethod
    def fresh(tag):
        return St(d1=z3.Const(tag+'_d1', A1), d2=z3.Const(tag+'_d2', A2), d3=z3.Const(tag+'_d3', A3), fwd=z3.Const(tag+'_fwd', W3),
                  idom=z3.Const(tag+'_idom', A3), inv=z3.Const(tag+'_inv', W3), p1=z3.Const(tag+'_p1', A1), p2=z3.Const(tag+'_p2', A2))
    def upd(s, **kw):
        d = dict(s.__dict__); d.update(kw); return St(**d)
def st3(arr, a, b, c, val): return z3.Store(arr, a, z3.Store(arr[a], b, z3.Store(arr[a][b], c, val)))
def st2(arr, a, b, val): return z3.Store(arr, a, z3.Store(arr[a], b, val))

# symbolic values
class Val:            # opaque V
    def __init__(s, t): s.t = t
class BoolV:
    def __init__(s, t): s.t = t
class Rooms: pass                       # self.rooms
class NsRooms:                          # self.rooms[ns]
    def __init__(s, ns): s.ns = ns
class Room:                             # self.rooms[ns][room]  (a bidict)
    def __init__(s, ns, room): s.ns, s.room = ns, room
class InvMap(Room): pass                # ._invm of a bidict
class Pending: pass                     # self.pending_disconnect
class PendList:
    def __init__(s, ns): s.ns = ns
class NewDict: pass
class NewBidict: pass
class NewList: pass
class Exc:
    def __init__(s, kind): s.kind = kind

class Out:   # one outcome of evaluating/executing: path condition, state, and value | raised | returned
    def __init__(s, pc, st, val=None, exc=None, ret=None, done=False): s.pc, s.st, s.val, s.exc, s.ret, s.done = pc, st, val, exc, ret, done

def ev(e, env, pc, st):
    """evaluate expression -> list of Out (val or exc)"""
    if isinstance(e, ast.Constant):
        if e.value is None: return [Out(pc, st, Val(NONE))]
        if isinstance(e.value, bool): return [Out(pc, st, BoolV(z3.BoolVal(e.value)))]
        if isinstance(e.value, int): return [Out(pc, st, e.value)]
        if isinstance(e.value, str): return [Out(pc, st, Val(z3.Const('str_' + str(abs(hash(e.value))), V)))]
    if isinstance(e, ast.Name): return [Out(pc, st, env[e.id])]
    if isinstance(e, ast.Dict) and not e.keys: return [Out(pc, st, NewDict())]
    if isinstance(e, ast.List) and not e.elts: return [Out(pc, st, NewList())]
    if isinstance(e, ast.Attribute):
        if isinstance(e.value, ast.Name) and e.value.id == 'self':
            return [Out(pc, st, {'rooms': Rooms(), 'pending_disconnect': Pending()}[e.attr])]
        outs = []
        for o in ev(e.value, env, pc, st):
            if o.exc: outs.append(o); continue
            if isinstance(o.val, Room) and e.attr == '_invm': outs.append(Out(o.pc, o.st, InvMap(o.val.ns, o.val.room)))
            else: raise NotImplementedError(ast.dump(e))
        return outs
    if isinstance(e, ast.Subscript):
        outs = []
        for o in ev(e.value, env, pc, st):
            if o.exc: outs.append(o); continue
            for k in ev(e.slice, env, o.pc, o.st):
                base, key, s = o.val, k.val.t, k.st
                if isinstance(base, Rooms): present, val = s.d1[key], NsRooms(key)
                elif isinstance(base, InvMap): present, val = s.idom[base.ns][base.room][key], Val(s.inv[base.ns][base.room][key])
                elif isinstance(base, NsRooms): present, val = s.d2[base.ns][key], Room(base.ns, key)
                elif isinstance(base, Room): present, val = s.d3[base.ns][base.room][key], Val(s.fwd[base.ns][base.room][key])
                elif isinstance(base, Pending): present, val = s.p1[key], PendList(key)
                else: raise NotImplementedError(type(base))
                outs.append(Out(k.pc + [present], s, val))
                outs.append(Out(k.pc + [z3.Not(present)], s, exc=Exc('KeyError')))
        return outs
    if isinstance(e, ast.Call):
        f = e.func
        if isinstance(f, ast.Name) and f.id == 'bidict': return [Out(pc, st, NewBidict())]
        if isinstance(f, ast.Name) and f.id == 'ValueError': return [Out(pc, st, Exc('ValueError'))]
        if isinstance(f, ast.Name) and f.id == 'len':
            outs = []
            for o in ev(e.args[0], env, pc, st):
                if o.exc: outs.append(o); continue
                b = o.val
                if isinstance(b, Room): outs.append(Out(o.pc, o.st, ('len', o.st.d3[b.ns][b.room])))
                elif isinstance(b, NsRooms): outs.append(Out(o.pc, o.st, ('len', o.st.d2[b.ns])))
                elif isinstance(b, PendList): outs.append(Out(o.pc, o.st, ('len', o.st.p2[b.ns])))
                else: raise NotImplementedError
            return outs
        if isinstance(f, ast.Attribute) and f.attr in ('get', 'append'):
            outs = []
            for o in ev(f.value, env, pc, st):
                if o.exc: outs.append(o); continue
                for k in ev(e.args[0], env, o.pc, o.st):
                    b, key, s = o.val, k.val.t, k.st
                    if f.attr == 'get' and isinstance(b, Room):
                        outs.append(Out(k.pc, s, Val(z3.If(s.d3[b.ns][b.room][key], s.fwd[b.ns][b.room][key], NONE))))
                    elif f.attr == 'append' and isinstance(b, PendList):
                        outs.append(Out(k.pc, s.upd(p2=st2(s.p2, b.ns, key, True)), Val(NONE)))
                    else: raise NotImplementedError(ast.dump(e))
            return outs
    if isinstance(e, ast.Compare) and len(e.ops) == 1:
        outs = []
        for l in ev(e.left, env, pc, st):
            if l.exc: outs.append(l); continue
            for r in ev(e.comparators[0], env, l.pc, l.st):
                if r.exc: outs.append(r); continue
                op, a, b, s = e.ops[0], l.val, r.val, r.st
                if isinstance(op, (ast.In, ast.NotIn)):
                    k = a.t
                    if isinstance(b, Rooms): c = s.d1[k]
                    elif isinstance(b, NsRooms): c = s.d2[b.ns][k]
                    elif isinstance(b, Room): c = s.d3[b.ns][b.room][k]
                    elif isinstance(b, Pending): c = s.p1[k]
                    elif isinstance(b, PendList): c = s.p2[b.ns][k]
                    else: raise NotImplementedError
                    outs.append(Out(r.pc, s, BoolV(c if isinstance(op, ast.In) else z3.Not(c))))
                elif isinstance(a, tuple) and a[0] == 'len' and b == 0:
                    outs.append(Out(r.pc, s, BoolV(a[1] == EMPTY)))
                elif isinstance(op, (ast.Is, ast.Eq)): outs.append(Out(r.pc, s, BoolV(a.t == b.t)))
                elif isinstance(op, (ast.IsNot, ast.NotEq)): outs.append(Out(r.pc, s, BoolV(a.t != b.t)))
                else: raise NotImplementedError(ast.dump(e))
        return outs
    if isinstance(e, ast.BoolOp):   # boolean context only; short-circuit
        def go(vals, pc, st):
            outs = []
            for o in ev(vals[0], env, pc, st):
                if o.exc: outs.append(o); continue
                if len(vals) == 1: outs.append(o); continue
                c = o.val.t
                cont, stop = (c, z3.Not(c)) if isinstance(e.op, ast.And) else (z3.Not(c), c)
                outs.append(Out(o.pc + [stop], o.st, BoolV(z3.BoolVal(isinstance(e.op, ast.Or)))))
                outs += go(vals[1:], o.pc + [cont], o.st)
            return outs
        return go(e.values, pc, st)
    raise NotImplementedError(ast.dump(e))

def assign(target, val, env, pc, st):
    """returns list of Out (done=False) possibly raising"""
    if isinstance(target, ast.Name):
        env[target.id] = val; return [Out(pc, st)]
    outs = []
    for o in ev(target.value, env, pc, st):
        if o.exc: outs.append(o); continue
        for k in ev(target.slice, env, o.pc, o.st):
            b, key, s = o.val, k.val.t, k.st
            if isinstance(b, Rooms) and isinstance(val, NewDict):
                outs.append(Out(k.pc, s.upd(d1=z3.Store(s.d1, key, True), d2=z3.Store(s.d2, key, EMPTY))))
            elif isinstance(b, NsRooms) and isinstance(val, NewBidict):
                outs.append(Out(k.pc, s.upd(d2=st2(s.d2, b.ns, key, True), d3=st2(s.d3, b.ns, key, EMPTY), idom=st2(s.idom, b.ns, key, EMPTY))))
            elif isinstance(b, Pending) and isinstance(val, NewList):
                outs.append(Out(k.pc, s.upd(p1=z3.Store(s.p1, key, True), p2=z3.Store(s.p2, key, EMPTY))))
            elif isinstance(b, Room):     # bidict item assignment (assumed contract of bidict 0.24)
                e = val.t; n, r = b.ns, b.room
                dup = z3.And(s.idom[n][r][e], s.inv[n][r][e] != key)
                outs.append(Out(k.pc + [dup], s, exc=Exc('ValueDuplicationError')))
                had = s.d3[n][r][key]; olde = s.fwd[n][r][key]
                idom1 = z3.If(z3.And(had, olde != e), st3(s.idom, n, r, olde, False), s.idom)
                s2 = s.upd(d3=st3(s.d3, n, r, key, True), fwd=st3(s.fwd, n, r, key, e), idom=st3(idom1, n, r, e, True), inv=st3(s.inv, n, r, e, key))
                outs.append(Out(k.pc + [z3.Not(dup)], s2))
            else: raise NotImplementedError((type(b), type(val)))
    return outs

def delete(target, env, pc, st):
    outs = []
    for o in ev(target.value, env, pc, st):
        if o.exc: outs.append(o); continue
        for k in ev(target.slice, env, o.pc, o.st):
            b, key, s = o.val, k.val.t, k.st
            if isinstance(b, Room):
                n, r = b.ns, b.room; present = s.d3[n][r][key]; e = s.fwd[n][r][key]
                outs.append(Out(k.pc + [z3.Not(present)], s, exc=Exc('KeyError')))
                outs.append(Out(k.pc + [present], s.upd(d3=st3(s.d3, n, r, key, False), idom=st3(s.idom, n, r, e, False))))
            elif isinstance(b, NsRooms):
                present = s.d2[b.ns][key]
                outs.append(Out(k.pc + [z3.Not(present)], s, exc=Exc('KeyError')))
                outs.append(Out(k.pc + [present], s.upd(d2=st2(s.d2, b.ns, key, False))))
            elif isinstance(b, Rooms):
                present = s.d1[key]
                outs.append(Out(k.pc + [z3.Not(present)], s, exc=Exc('KeyError')))
                outs.append(Out(k.pc + [present], s.upd(d1=z3.Store(s.d1, key, False))))
            else: raise NotImplementedError
    return outs

def block(stmts, env, pc, st):
    """execute statements -> list of Out with done/ret/exc"""
    if not stmts: return [Out(pc, st)]
    s, rest = stmts[0], stmts[1:]
    def then(outs):
        res = []
        for o in outs:
            if o.exc or o.done: res.append(o)
            else: res += block(rest, dict(env) if False else env, o.pc, o.st)
        return res
    if isinstance(s, ast.Expr):
        if isinstance(s.value, ast.Constant): return block(rest, env, pc, st)
        return then([Out(o.pc, o.st, exc=o.exc) for o in ev(s.value, env, pc, st)])
    if isinstance(s, ast.Pass): return block(rest, env, pc, st)
    if isinstance(s, ast.Return):
        if s.value is None: return [Out(pc, st, ret=Val(NONE), done=True)]
        return [o if o.exc else Out(o.pc, o.st, ret=o.val, done=True) for o in ev(s.value, env, pc, st)]
    if isinstance(s, ast.Raise):
        return [Out(o.pc, o.st, exc=o.val if isinstance(o.val, Exc) else o.exc) for o in ev(s.exc, env, pc, st)]
    if isinstance(s, ast.Assign):
        res = []
        for o in ev(s.value, env, pc, st):
            if o.exc: res.append(o); continue
            res += then(assign(s.targets[0], o.val, env, o.pc, o.st))
        return res
    if isinstance(s, ast.Delete): return then(delete(s.targets[0], env, pc, st))
    if isinstance(s, ast.If):
        res = []
        for o in ev(s.test, env, pc, st):
            if o.exc: res.append(o); continue
            c = o.val.t
            res += then(block(s.body, dict(env), o.pc + [c], o.st)); res += then(block(s.orelse, dict(env), o.pc + [z3.Not(c)], o.st))
        return res
    if isinstance(s, ast.Try):
        res = []
        for o in block(s.body, env, pc, st):
            if o.exc:
                h = [h for h in s.handlers if h.type is None or (isinstance(h.type, ast.Name) and h.type.id == o.exc.kind)]
                if h: res += then(block(h[0].body, env, o.pc, o.st))
                else: res.append(o)
            elif o.done: res.append(o)
            else: res += then([o])
        return res
    raise NotImplementedError(ast.dump(s))

def method(name):
    for n in ast.parse(open('/repo/src/socketio/base_manager.py').read()).body:
        if isinstance(n, ast.ClassDef):
            for m in n.body:
                if isinstance(m, ast.FunctionDef) and m.name == name: return m

# ---- views and invariant (contracts/views.py in the real thing)
n, r, s_, e_ = z3.Consts('n r s e', V)
def member(S, a, b, c): return z3.And(S.d1[a], S.d2[a][b], S.d3[a][b][c])
def Inv(S):
    return z3.And(
        z3.ForAll([n, r, s_], z3.Implies(member(S, n, r, s_), z3.And(S.idom[n][r][S.fwd[n][r][s_]], S.inv[n][r][S.fwd[n][r][s_]] == s_))),
        z3.ForAll([n, r, e_], z3.Implies(z3.And(S.d1[n], S.d2[n][r], S.idom[n][r][e_]), z3.And(S.d3[n][r][S.inv[n][r][e_]], S.fwd[n][r][S.inv[n][r][e_]] == e_))),
        z3.ForAll([n, s_], z3.Implies(member(S, n, NONE, s_), S.fwd[n][NONE][s_] != NONE)))   # transports are never None
stats = {'ob': 0, 'unsat': 0, 't': 0.0}
def prove(name, hyps, goal, expect='unsat'):
    sv = z3.Solver(); sv.set('timeout', 20000); sv.add(*hyps); sv.add(z3.Not(goal)); t = time.time(); res = str(sv.check()); dt = time.time() - t
    stats['ob'] += 1; stats['t'] += dt; stats['unsat'] += res == 'unsat'
    flag = '' if (expect is None or res == expect) else f'   <-- expected {expect}'
    if expect is None and res == 'sat': flag = '   <-- REFUTED: structure changed on an exceptional exit (observation 9)'
    print(f'  {name}: {res} {dt:.2f}s{flag}')
S0 = St.fresh('S0'); sid, ns, room, eio = z3.Consts('sid namespace room eio_sid', V)
def feasible(pc, extra=()):
    # vacuity guard: a path whose condition is unsatisfiable proves anything; path conditions are quantifier-free
    sv = z3.Solver(); sv.set('timeout', 5000); sv.add(*pc, *extra); return sv.check() == z3.sat
def run(name, args, extra=()):
    fn = method(name); env = {k: Val(v) for k, v in args.items()}
    outs = block(fn.body, env, [], S0)
    outs = [o if (o.exc or o.done) else Out(o.pc, o.st, ret=Val(NONE), done=True) for o in outs]
    live = [o for o in outs if feasible(o.pc, extra)]
    print(f'{name}: {len(outs)} syntactic paths from the real source, {len(live)} feasible'); return live

# is_connected: result <=> member(ns,None,sid) and sid not pending ; never raises
outs = run('is_connected', {'sid': sid, 'namespace': ns})
spec = z3.And(member(S0, ns, NONE, sid), z3.Not(z3.And(S0.p1[ns], S0.p2[ns][sid])))
for i, o in enumerate(outs):
    if o.exc: prove(f'is_connected/no-raise[path {i}]', [Inv(S0)] + o.pc, z3.BoolVal(False))
    else: prove(f'is_connected/post[path {i}]', [Inv(S0)] + o.pc, o.ret.t == spec)

# basic_leave_room: member' = member minus (ns,room,sid); never raises; invariant preserved
outs = run('basic_leave_room', {'sid': sid, 'namespace': ns, 'room': room})
for i, o in enumerate(outs):
    if o.exc: prove(f'basic_leave_room/no-raise[path {i}]', [Inv(S0)] + o.pc, z3.BoolVal(False)); continue
    prove(f'basic_leave_room/post[path {i}]', [Inv(S0)] + o.pc, z3.ForAll([n, r, s_], member(o.st, n, r, s_) == z3.And(member(S0, n, r, s_), z3.Not(z3.And(n == ns, r == room, s_ == sid)))))
    prove(f'basic_leave_room/inv[path {i}]', [Inv(S0)] + o.pc, Inv(o.st))

# basic_enter_room with explicit eio_sid (the connect() use): membership added, or ValueDuplicationError iff transport already there under another sid
outs = run('basic_enter_room', {'sid': sid, 'namespace': ns, 'room': room, 'eio_sid': eio}, extra=[eio != NONE])
pre = [Inv(S0), eio != NONE]
dupc = z3.And(member(S0, ns, room, S0.inv[ns][room][eio]), S0.d1[ns], S0.d2[ns][room], S0.idom[ns][room][eio], S0.inv[ns][room][eio] != sid)
for i, o in enumerate(outs):
    if o.exc:
        prove(f'basic_enter_room/raises-{o.exc.kind}-only-if-dup[path {i}]', pre + o.pc, z3.And(z3.BoolVal(o.exc.kind == 'ValueDuplicationError'), dupc))
    else:
        prove(f'basic_enter_room/post[path {i}]', pre + o.pc, z3.And(z3.Not(dupc), z3.ForAll([n, r, s_], member(o.st, n, r, s_) == z3.Or(member(S0, n, r, s_), z3.And(n == ns, r == room, s_ == sid))), o.st.fwd[ns][room][sid] == eio))
        prove(f'basic_enter_room/inv[path {i}]', pre + o.pc, Inv(o.st))
# canary: a wrong contract must not verify
o = [o for o in outs if not o.exc][0]
prove('CANARY basic_enter_room/post claims nothing changed', pre + o.pc, z3.ForAll([n, r, s_], member(o.st, n, r, s_) == member(S0, n, r, s_)), expect='sat')
print(f"{stats['ob']} obligations, {stats['unsat']} unsat, solver {stats['t']:.2f}s")

# basic_enter_room as the application calls it (eio_sid=None): exceptional exits must leave the membership view AND the
# container structure unchanged -- expected to be REFUTED for the KeyError exit (design-time observation 9: empty room left behind)
outs = run('basic_enter_room', {'sid': sid, 'namespace': ns, 'room': room, 'eio_sid': NONE})
for i, o in enumerate(outs):
    if o.exc:
        prove(f'basic_enter_room(eio=None)/raises-{o.exc.kind}/view-unchanged[path {i}]', [Inv(S0)] + o.pc, z3.ForAll([n, r, s_], member(o.st, n, r, s_) == member(S0, n, r, s_)))
        # 'sat' here = the exit leaves a newly created (empty) room behind; 'unsat' = the room already existed on this path
        prove(f'basic_enter_room(eio=None)/raises-{o.exc.kind}/structure-unchanged[path {i}]', [Inv(S0)] + o.pc, z3.And(o.st.d1 == S0.d1, o.st.d2 == S0.d2), expect=None)
    else:
        prove(f'basic_enter_room(eio=None)/post[path {i}]', [Inv(S0)] + o.pc, z3.And(member(S0, ns, NONE, sid), z3.ForAll([n, r, s_], member(o.st, n, r, s_) == z3.Or(member(S0, n, r, s_), z3.And(n == ns, r == room, s_ == sid)))))
print(f"{stats['ob']} obligations, {stats['unsat']} unsat, solver {stats['t']:.2f}s")
