import z3, time
V = z3.DeclareSort('V'); F = z3.DeclareSort('F'); I=z3.IntSort()
AL = z3.ArraySort(V, I); AA = z3.ArraySort(V, z3.ArraySort(I, F))
def prove(name, hyp, goal, to=20000):
    sv = z3.Solver(); sv.set('timeout', to); sv.add(hyp, z3.Not(goal)); t=time.time(); res=sv.check(); print(f'{name}: {res} {time.time()-t:.2f}s'); return res
fr = z3.Array('fr', I, F); FL = z3.Int('FL')
l0,l1,l2 = z3.Consts('l0 l1 l2', AL); a0,a1,a2 = z3.Consts('a0 a1 a2', AA)
e = z3.Const('e', V); ecur = z3.Const('ecur', V); m=z3.Int('m'); k=z3.Int('k')
def inv_in(l,a,mm):
    return z3.And(0<=mm, mm<=FL, l[ecur]==l0[ecur]+mm,
        z3.ForAll([k], z3.Implies(z3.And(0<=k,k<l0[ecur]), a[ecur][k]==a0[ecur][k])),
        z3.ForAll([k], z3.Implies(z3.And(0<=k,k<mm), a[ecur][l0[ecur]+k]==fr[k])),
        z3.ForAll([e], z3.Implies(e!=ecur, z3.And(l[e]==l0[e], a[e]==a0[e]))))
step = z3.And(l2 == z3.Store(l1, ecur, l1[ecur]+1), a2 == z3.Store(a1, ecur, z3.Store(a1[ecur], l1[ecur], fr[m])))
prove('inner.step', z3.And(FL>=0, l0[ecur]>=0, inv_in(l1,a1,m), m<FL, step), inv_in(l2,a2,m+1))
prove('inner.step.canary(expect sat)', z3.And(FL>=0, l0[ecur]>=0, inv_in(l1,a1,m), m<FL, step), inv_in(l2,a2,m+2), 5000)
