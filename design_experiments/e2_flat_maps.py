# E2d: flat nested-array state (no datatypes); unbounded proof + finite-scope refutation
import z3, time, itertools, sys
FINITE = len(sys.argv)>1
if FINITE:
    V, VS = z3.EnumSort('V', ['v0','v1','v2'])
    def FA(vs, body): return z3.And(*[z3.substitute(body, *zip(vs, c)) for c in itertools.product(VS, repeat=len(vs))])
else:
    V = z3.DeclareSort('V'); FA = z3.ForAll
B=z3.BoolSort()
A1=z3.ArraySort(V,B); A2=z3.ArraySort(V,A1); A3=z3.ArraySort(V,A2)
W1=z3.ArraySort(V,V); W2=z3.ArraySort(V,W1); W3=z3.ArraySort(V,W2)
E1=z3.K(V,False)
class St:
    def __init__(s, nsdom, rdom, fdom, fwd): s.nsdom,s.rdom,s.fdom,s.fwd = nsdom,rdom,fdom,fwd
def member(S,n,r,s_): return z3.And(S.nsdom[n], S.rdom[n][r], S.fdom[n][r][s_])
n,r,s = z3.Consts('n r s', V)
def wf(S):
    return z3.And(FA([n], z3.Implies(S.nsdom[n], S.rdom[n] != E1)),
                  FA([n,r], z3.Implies(z3.And(S.nsdom[n], S.rdom[n][r]), S.fdom[n][r] != E1)))
S0 = St(z3.Const('nsdom',A1), z3.Const('rdom',A2), z3.Const('fdom',A3), z3.Const('fwd',W3))
ns, room, sid = z3.Consts('ns room sid', V)
keyerr = z3.Not(member(S0, ns, room, sid))
S1 = St(S0.nsdom, S0.rdom, z3.Store(S0.fdom, ns, z3.Store(S0.fdom[ns], room, z3.Store(S0.fdom[ns][room], sid, False))), S0.fwd)
c1 = S1.fdom[ns][room] == E1
S2 = St(S1.nsdom, z3.Store(S1.rdom, ns, z3.Store(S1.rdom[ns], room, False)), S1.fdom, S1.fwd)
c2 = S2.rdom[ns] == E1
S3 = St(z3.Store(S2.nsdom, ns, False), S2.rdom, S2.fdom, S2.fwd)
paths = [('keyerror', keyerr, S0), ('nonempty', z3.And(z3.Not(keyerr), z3.Not(c1)), S1),
         ('roomgone', z3.And(z3.Not(keyerr), c1, z3.Not(c2)), S2), ('nsgone', z3.And(z3.Not(keyerr), c1, c2), S3)]
def post(Sf):
    return FA([n,r,s], member(Sf,n,r,s) == z3.And(member(S0,n,r,s), z3.Not(z3.And(n==ns, r==room, s==sid))))
def prove(name, hyp, goal, to=20000):
    sv = z3.Solver(); sv.set('timeout', to); sv.add(hyp, z3.Not(goal)); t=time.time(); res=sv.check(); print(f'{name}: {res} {time.time()-t:.2f}s')
    if res==z3.sat:
        m=sv.model(); print('   ns,room,sid =', m.eval(ns), m.eval(room), m.eval(sid))
        if FINITE: print('   members:', [(str(a),str(b),str(c)) for a in VS for b in VS for c in VS if z3.is_true(m.eval(member(S0,a,b,c), model_completion=True))])
    return res
for nm, pc, Sf in paths:
    prove('leave.post.'+nm, z3.And(wf(S0), pc), post(Sf)); prove('leave.wf.'+nm, z3.And(wf(S0), pc), wf(Sf))
prove('canary(expect sat)', z3.And(wf(S0), paths[1][1]), FA([n,r,s], member(S1,n,r,s)==member(S0,n,r,s)))
prove('mutant-noGC(expect sat)', z3.And(wf(S0), paths[3][1]), wf(S2))
