import ast, collections, sys
R='/repo/src/socketio/'
files=['packet.py','msgpack_packet.py','base_manager.py','manager.py','async_manager.py','pubsub_manager.py','async_pubsub_manager.py','base_server.py','server.py','async_server.py','base_client.py','client.py','async_client.py','namespace.py','async_namespace.py','base_namespace.py','simple_client.py','async_simple_client.py','admin.py','async_admin.py','exceptions.py','redis_manager.py','async_redis_manager.py']
cnt=collections.Counter(); where=collections.defaultdict(set)
for f in files:
    t=ast.parse(open(R+f).read())
    for cls in [n for n in t.body if isinstance(n,ast.ClassDef)]:
        for fn in [m for m in cls.body if isinstance(m,(ast.FunctionDef,ast.AsyncFunctionDef))]:
            for n in ast.walk(fn):
                k=type(n).__name__
                if k in ('Load','Store','Del','Name','Constant','Attribute','arguments','arg','Expr','Call','keyword','Assign','Return','If','Compare','Subscript'): continue
                cnt[k]+=1; where[k].add(f'{f[:-3]}.{cls.name}.{fn.name}')
for k,v in sorted(cnt.items(), key=lambda kv:-kv[1]):
    w=sorted(where[k]); print(f'{k:18}{v:4}  {", ".join(w[:5])}{" …(+%d)"%(len(w)-5) if len(w)>5 else ""}')
