import ast, collections
R='/repo/src/socketio/'
files=['packet.py','msgpack_packet.py','base_manager.py','manager.py','pubsub_manager.py','base_server.py','server.py','base_client.py','client.py','namespace.py','simple_client.py','admin.py','redis_manager.py']
ext=collections.defaultdict(set)
def dotted(n):
    if isinstance(n,ast.Name): return n.id
    if isinstance(n,ast.Attribute):
        b=dotted(n.value); return (b+'.'+n.attr) if b else None
    if isinstance(n,ast.Call): 
        b=dotted(n.func); return (b+'()') if b else None
    return None
for f in files:
    t=ast.parse(open(R+f).read())
    for cls in [n for n in t.body if isinstance(n,ast.ClassDef)]:
        for fn in [m for m in cls.body if isinstance(m,(ast.FunctionDef,ast.AsyncFunctionDef))]:
            for n in ast.walk(fn):
                if isinstance(n,ast.Call):
                    d=dotted(n.func)
                    if d and not d.startswith(('self.logger','self._get_logger','logger.')):
                        ext[d].add(f'{cls.name}.{fn.name}')
keys=sorted(ext)
import re
groups=collections.defaultdict(list)
for k in keys:
    g = 'self.eio' if k.startswith('self.eio') or k.startswith('self.sio.eio') or k.startswith('self.server.eio') else 'self.manager' if k.startswith(('self.manager','self.sio.manager')) else 'self.server/client/sio' if k.startswith(('self.server','self.client','self.sio')) else 'self.*' if k.startswith('self.') else 'builtins/modules'
    groups[g].append(k)
for g,ks in groups.items():
    print(f'[{g}] ({len(ks)})'); print('  '+', '.join(ks))
