import socketio, itertools
from unittest import mock
from socketio import packet

def mkserver(**kw):
    s = socketio.Server(async_handlers=False, **kw)
    sent = []
    s.eio.send = lambda eio_sid, data, **k: sent.append((eio_sid, data))
    s.eio.send_packet = lambda eio_sid, pkt: sent.append((eio_sid, pkt.data))
    ids = itertools.count(1)
    s.eio.generate_id = lambda: 'sid%d' % next(ids)
    sessions = {}
    s.eio.get_session = lambda eio_sid: sessions.setdefault(eio_sid, {})
    return s, sent

# C06: ACK with id 0
s, sent = mkserver()
s._handle_eio_connect('e1', {})
s._handle_eio_message('e1', '0')
print('sent', sent)
got=[]
s.emit('hello', to='sid1', callback=lambda *a: got.append(a))
print('sent', sent[-1], 'callbacks', s.manager.callbacks)
try:
    s._handle_eio_message('e1', '30[]')
    print('ack0 ok')
except Exception as e: print('ack id 0 ->', repr(e))
print('callbacks after', s.manager.callbacks)
try:
    s.emit('hello', to='sid1', callback=lambda *a: got.append(a)); print('emit ok', sent[-1])
except Exception as e: print('emit after ack0 ->', repr(e))

# C11: binary header then transport loss
s, sent = mkserver()
s._handle_eio_connect('e1', {}); s._handle_eio_message('e1', '0')
s._handle_eio_message('e1', '51-["x",{"_placeholder":true,"num":0}]')
s._handle_eio_disconnect('e1', 'transport close')
print('C11 residue _binary_packet:', s._binary_packet, 'environ', s.environ, 'rooms', s.manager.rooms)

# C11: disconnect handler raises
s, sent = mkserver()
@s.on('disconnect')
def dis(sid, reason): raise RuntimeError('boom')
s._handle_eio_connect('e1', {}); s._handle_eio_message('e1', '0')
try: s._handle_eio_disconnect('e1', 'transport close')
except Exception as e: print('raised', repr(e))
print('C11 residue after raising handler: rooms', s.manager.rooms, 'pending', s.manager.pending_disconnect, 'environ', s.environ)

# C16: session survives namespace reconnect on same transport
s, sent = mkserver()
s._handle_eio_connect('e1', {}); s._handle_eio_message('e1', '0/chat,')
sid1 = s.manager.sid_from_eio_sid('e1', '/chat')
s.save_session(sid1, {'user': 'alice'}, namespace='/chat')
s._handle_eio_message('e1', '1/chat,')
s._handle_eio_message('e1', '0/chat,')
sid2 = s.manager.sid_from_eio_sid('e1', '/chat')
print('C16', sid1, sid2, s.get_session(sid2, namespace='/chat'))
