import socketio, itertools, threading
import os
exec(open(os.path.join(os.path.dirname(os.path.abspath(__file__)), 'probe_server_defects.py')).read().split('# C06')[0])
s, sent = mkserver()
runs=[]
@s.on('disconnect')
def dis(sid, reason): runs.append((sid, reason))
s._handle_eio_connect('e1', {}); s._handle_eio_message('e1', '0')
# force schedule: both threads pass is_connected before either marks
orig = s.manager.is_connected
bar = threading.Barrier(2, timeout=5)
def is_connected(sid, ns):
    r = orig(sid, ns)
    if threading.current_thread().name.startswith('T'):
        try: bar.wait()
        except threading.BrokenBarrierError: pass
    return r
s.manager.is_connected = is_connected
errs=[]
def t1():
    try: s.disconnect('sid1')
    except Exception as e: errs.append(repr(e))
def t2():
    try: s._handle_eio_message('e1', '1')
    except Exception as e: errs.append(repr(e))
a=threading.Thread(target=t1,name='T1'); b=threading.Thread(target=t2,name='T2'); a.start(); b.start(); a.join(); b.join()
print('C20 handler runs:', runs, 'errors:', errs)
print('residue: rooms', s.manager.rooms, 'pending', s.manager.pending_disconnect)
