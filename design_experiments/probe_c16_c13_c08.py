import socketio, itertools
import os
exec(open(os.path.join(os.path.dirname(os.path.abspath(__file__)), 'probe_server_defects.py')).read().split('# C06')[0])
s, sent = mkserver(namespaces='*')
s._handle_eio_connect('e1', {}); s._handle_eio_message('e1', '0/chat,')
sid1 = s.manager.sid_from_eio_sid('e1', '/chat')
s.save_session(sid1, {'user': 'alice'}, namespace='/chat')
s._handle_eio_message('e1', '1/chat,')
s._handle_eio_message('e1', '0/chat,')
sid2 = s.manager.sid_from_eio_sid('e1', '/chat')
print('C16', sid1, sid2, s.get_session(sid2, namespace='/chat'))
# get_session for unknown sid
try: print(s.get_session('nosuch'))
except Exception as e: print('get_session unknown ->', repr(e))

# C13 client: namespace has other handlers + catch-all namespace handler
c = socketio.Client()
calls=[]
c.on('other', lambda *a: calls.append(('ns other',a)), namespace='/foo')
c.on('ev', lambda *a: calls.append(('*:ev',a)), namespace='*')
c.on('*', lambda *a: calls.append(('*:*',a)), namespace='*')
c._trigger_event('ev', '/foo', 1)
c._trigger_event('zzz', '/foo', 1)
print('C13 client calls:', calls)
sv = socketio.Server()
calls=[]
sv.on('other', lambda *a: calls.append(('ns other',a)), namespace='/foo')
sv.on('ev', lambda *a: calls.append(('*:ev',a)), namespace='*')
sv.on('*', lambda *a: calls.append(('*:*',a)), namespace='*')
sv._trigger_event('ev', '/foo', 'sid', 1); sv._trigger_event('zzz', '/foo', 'sid', 1)
print('C13 server calls:', calls)

# C08: duplicate server DISCONNECT for one namespace
c = socketio.Client()
c.eio.disconnect = lambda abort=False: None
c.eio.send = lambda *a, **k: None
calls=[]
c.on('disconnect', lambda *a: calls.append(('dis /a',a)), namespace='/a')
c.on('disconnect', lambda *a: calls.append(('dis /b',a)), namespace='/b')
c.connected=True; c.namespaces={'/a':'1','/b':'2'}
c._handle_eio_message('1/a,'); c._handle_eio_message('1/a,')
print('C08 dup DISCONNECT:', calls, c.namespaces)
