# E7: await-erasure normal forms: how many mirrored (sync, async) function pairs are identical?
import ast, sys, copy
R='/repo/src/socketio/'
pairs=[('server.py','Server','async_server.py','AsyncServer'),('client.py','Client','async_client.py','AsyncClient'),
 ('manager.py','Manager','async_manager.py','AsyncManager'),('pubsub_manager.py','PubSubManager','async_pubsub_manager.py','AsyncPubSubManager'),
 ('namespace.py','Namespace','async_namespace.py','AsyncNamespace'),('namespace.py','ClientNamespace','async_namespace.py','AsyncClientNamespace'),
 ('simple_client.py','SimpleClient','async_simple_client.py','AsyncSimpleClient'),('admin.py','InstrumentedServer','async_admin.py','InstrumentedAsyncServer')]
class Erase(ast.NodeTransformer):
    def visit_Await(s,n): return s.visit(n.value)
    def visit_AsyncFunctionDef(s,n):
        n=s.generic_visit(n); return ast.FunctionDef(name=n.name,args=n.args,body=n.body,decorator_list=n.decorator_list,returns=n.returns,type_comment=None,lineno=0,col_offset=0)
    def visit_AsyncFor(s,n):
        n=s.generic_visit(n); return ast.For(target=n.target,iter=n.iter,body=n.body,orelse=n.orelse,lineno=0,col_offset=0)
    def visit_AsyncWith(s,n):
        n=s.generic_visit(n); return ast.With(items=n.items,body=n.body,lineno=0,col_offset=0)
def strip_doc(fn):
    b=fn.body
    if b and isinstance(b[0],ast.Expr) and isinstance(getattr(b[0],'value',None),ast.Constant) and isinstance(b[0].value.value,str): fn.body=b[1:] or [ast.Pass()]
    for n in ast.walk(fn):
        if isinstance(n,(ast.FunctionDef,ast.AsyncFunctionDef,ast.ClassDef)) and n is not fn:
            bb=n.body
            if bb and isinstance(bb[0],ast.Expr) and isinstance(getattr(bb[0],'value',None),ast.Constant) and isinstance(bb[0].value.value,str): n.body=bb[1:] or [ast.Pass()]
    return fn
def methods(file,cls):
    t=ast.parse(open(R+file).read())
    for n in t.body:
        if isinstance(n,ast.ClassDef) and n.name==cls:
            return {m.name:m for m in n.body if isinstance(m,(ast.FunctionDef,ast.AsyncFunctionDef))}
tot=ident=0; diff=[]; only=[]
for sf,sc,af,ac in pairs:
    ms,ma=methods(sf,sc),methods(af,ac)
    for name in sorted(set(ms)|set(ma)):
        if name not in ms or name not in ma: only.append((sc if name in ms else ac,name)); continue
        a=ast.dump(strip_doc(Erase().visit(copy.deepcopy(ms[name]))))
        b=ast.dump(strip_doc(Erase().visit(copy.deepcopy(ma[name]))))
        # rename class-specific tokens
        b=b.replace(ac,sc).replace('AsyncSocket','Socket').replace('async_socket','socket')
        tot+=1
        if a==b: ident+=1
        else: diff.append(f'{sc}.{name}')
print('pairs',tot,'identical after erasure',ident, f'({100*ident/tot:.0f}%)')
print('differ:',diff)
print('unpaired:',only)
