# E1c: decode header scan with strings as (array, offset, len) views + quantified char facts
import z3, time, sys, itertools, os
SEED=int(os.environ.get('SEED','0'))
I=z3.IntSort()
D = z3.Function('D', I, z3.BoolSort())  # Python str.isdigit on a code point
def c(ch): return z3.IntVal(ord(ch))
class View:
    def __init__(s, arr, off, ln): s.arr, s.off, s.len = arr, off, ln
    def at(s,k): return z3.Select(s.arr, s.off+k)
cnt=[0]
def fresh(n, sort=I):
    cnt[0]+=1; return z3.Const(f'{n}!{cnt[0]}', sort)
def slice_from(v, a):      # v[a:]  with 0<=a assumed; clamp
    a2 = z3.If(a > v.len, v.len, a)
    return View(v.arr, v.off+a2, v.len-a2)
def slice_to(v, b):        # v[0:b] with b>=0; clamp
    b2 = z3.If(b > v.len, v.len, b)
    return View(v.arr, v.off, b2)
def find(v, ch, facts):
    r = fresh('find'); k=z3.Int('k')
    facts.append(z3.Or(
        z3.And(r == -1, z3.ForAll([k], z3.Implies(z3.And(v.off<=k, k<v.off+v.len), z3.Select(v.arr,k) != c(ch)), patterns=[z3.Select(v.arr,k)])),
        z3.And(0<=r, r<v.len, v.at(r)==c(ch), z3.ForAll([k], z3.Implies(z3.And(v.off<=k, k<v.off+r), z3.Select(v.arr,k) != c(ch)), patterns=[z3.Select(v.arr,k)]))))
    return r
def isdigit(v, facts):
    b = fresh('isd', z3.BoolSort()); k=z3.Int('k')
    facts.append(b == z3.And(v.len>0, z3.ForAll([k], z3.Implies(z3.And(v.off<=k,k<v.off+v.len), D(z3.Select(v.arr,k))), patterns=[z3.Select(v.arr,k)])))
    return b
def veq(v, w):
    k=z3.Int('k')
    return z3.And(v.len==w.len, z3.ForAll([k], z3.Implies(z3.And(0<=k,k<v.len), v.at(k)==w.at(k))))

def run(case):
    has_att, has_ns, has_id, has_j = case
    facts=[]
    k=z3.Int('k')
    x=z3.Int('x'); facts.append(z3.ForAll([x], z3.Implies(z3.And(0<=x,x<128), D(x)==z3.And(48<=x,x<=57)), patterns=[D(x)]))
    for ch in '/,-[{"tfn?': facts.append(z3.Not(D(c(ch))))
    A = z3.Array('frame', I, I)
    pos = z3.IntVal(1)
    tdig = View(A, z3.IntVal(0), z3.IntVal(1))
    facts.append(z3.And(tdig.at(0) >= ord('0'), tdig.at(0) <= ord('6')))
    def piece(name, present, minlen=1):
        nonlocal pos
        ln = z3.Int('len_'+name)
        if present: facts.append(ln >= minlen)
        else: facts.append(ln == 0)
        v = View(A, pos, ln); pos = pos + ln; return v
    natt = piece('natt', has_att)
    if has_att:
        facts += [natt.len <= 10, z3.ForAll([k], z3.Implies(z3.And(natt.off<=k,k<natt.off+natt.len), z3.And(z3.Select(A,k)>=48, z3.Select(A,k)<=57)), patterns=[z3.Select(A,k)])]
        facts.append(z3.Select(A,pos)==c('-')); pos = pos+1
    ns = piece('ns', has_ns, 2)
    if has_ns:
        facts += [ns.at(0)==c('/'), z3.ForAll([k], z3.Implies(z3.And(ns.off<=k,k<ns.off+ns.len), z3.And(z3.Select(A,k)!=c(','), z3.Select(A,k)!=c('?'))), patterns=[z3.Select(A,k)])]
        facts.append(z3.Select(A,pos)==c(',')); pos = pos+1
    idd = piece('idd', has_id)
    if has_id:
        facts += [idd.len <= 100, z3.ForAll([k], z3.Implies(z3.And(idd.off<=k,k<idd.off+idd.len), z3.And(z3.Select(A,k)>=48, z3.Select(A,k)<=57)), patterns=[z3.Select(A,k)])]
    j = piece('j', has_j)
    if has_j:
        facts.append(z3.Or(*[j.at(0)==c(ch) for ch in '[{"tfn']))
    L = pos
    ep0 = View(A, z3.IntVal(0), L)
    # ---- decode
    ptype = slice_to(ep0, z3.IntVal(1))
    ep1 = slice_from(ep0, z3.IntVal(1))
    dash = find(ep1, '-', facts)
    pre = slice_to(ep1, dash)
    cond_att = z3.And(dash > 0, isdigit(pre, facts))
    att = View(A, ep1.off, z3.If(cond_att, dash, 0))
    e2a = slice_from(ep1, dash+1)
    ep2 = View(A, z3.If(cond_att, e2a.off, ep1.off), z3.If(cond_att, e2a.len, ep1.len))
    toomany = z3.And(cond_att, dash > 10)
    cond_ns = z3.And(ep2.len > 0, ep2.at(0) == c('/'))
    sep = find(ep2, ',', facts)
    nsd = View(A, ep2.off, z3.If(cond_ns, z3.If(sep==-1, ep2.len, sep), 0))
    e3a = slice_from(ep2, sep+1)
    ep3 = View(A, z3.If(cond_ns, z3.If(sep==-1, ep2.off+ep2.len, e3a.off), ep2.off), z3.If(cond_ns, z3.If(sep==-1, 0, e3a.len), ep2.len))
    q = find(nsd, '?', facts)
    nsd2 = View(A, nsd.off, z3.If(z3.And(cond_ns, q!=-1), q, nsd.len))
    i = z3.Int('i')
    cond_id = z3.And(ep3.len>0, D(ep3.at(0)))
    loop_post = z3.And(1<=i, i<=ep3.len, i<=100, z3.ForAll([k], z3.Implies(z3.And(ep3.off<=k,k<ep3.off+i), D(z3.Select(A,k))), patterns=[z3.Select(A,k)]),
                       z3.Or(i==ep3.len, z3.Not(D(ep3.at(i))), i>=100))
    facts.append(z3.Implies(cond_id, loop_post))
    idv = View(A, ep3.off, z3.If(cond_id, i, 0))
    ep4 = View(A, z3.If(cond_id, ep3.off+i, ep3.off), z3.If(cond_id, ep3.len-i, ep3.len))
    toolong = z3.And(cond_id, ep4.len>0, D(ep4.at(0)))
    def same(v,w): return z3.And(v.len==w.len, z3.Or(v.len==0, v.off==w.off))   # same view of same base array
    goals=[('dashval', (dash==natt.len) if has_att else z3.Not(cond_att)), ('condatt', cond_att if has_att else z3.Not(cond_att)), ('ptype', same(ptype,tdig)), ('att', same(att,natt)), ('toomany', z3.Not(toomany)), ('ns', same(nsd2, ns)), ('id', same(idv, idd)), ('toolong', z3.Not(toolong)), ('json', same(ep4, j))]
    out=[]
    for nm,g in goals:
        s=z3.Solver(); s.set('timeout',20000); s.set('random_seed', SEED); s.add(*facts); s.add(z3.Not(g))
        t=time.time(); r=str(s.check()); dt=time.time()-t
        out.append(f'{nm}:{r}({dt:.2f}s)')
        if r=='unsat': facts.append(g)
    return case,out
if __name__=='__main__':
    from multiprocessing import Pool
    cases=list(itertools.product([False,True],repeat=4))
    with Pool(16) as p:
        for case,out in p.imap_unordered(run,cases):
            print(''.join(map(str,map(int,case))), ' '.join(out)); sys.stdout.flush()
