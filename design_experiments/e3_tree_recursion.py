# E3: recursive codec functions against spec functions nb/bl/ph with prefix-sum offsets (list branch)
import z3, time
V=z3.DeclareSort('V'); I=z3.IntSort(); B=z3.BoolSort()
def prove(name, hyps, goal, to=20000):
    s=z3.Solver(); s.set('timeout',to); s.add(*hyps); s.add(z3.Not(goal)); t=time.time(); r=s.check(); print(f'{name}: {r} {time.time()-t:.2f}s'); return r
# kinds
isbytes=z3.Function('isbytes',V,B); islist=z3.Function('islist',V,B)
llen=z3.Function('llen',V,I); item=z3.Function('item',V,I,V)
nb=z3.Function('nb',V,I)                 # number of bytes leaves
bl=z3.Function('bl',V,I,V)               # m-th bytes leaf in DFS order
off=z3.Function('off',V,I,I)             # prefix sums of nb over the items of a list
ph=z3.Function('ph',V,I,V)               # placeholder version numbered from k
PH=z3.Function('PH',I,V)                 # the dict {'_placeholder':True,'num':k}
x,y=z3.Consts('x y',V); i,k,m=z3.Ints('i k m')
AX=[
 z3.ForAll([x], nb(x)>=0, patterns=[nb(x)]),
 z3.ForAll([x], z3.Implies(isbytes(x), z3.And(nb(x)==1, bl(x,0)==x, z3.Not(islist(x)))), patterns=[isbytes(x)]),
 z3.ForAll([x,k], z3.Implies(isbytes(x), ph(x,k)==PH(k)), patterns=[ph(x,k)]),
 z3.ForAll([x], z3.Implies(islist(x), z3.And(llen(x)>=0, off(x,0)==0, nb(x)==off(x,llen(x)))), patterns=[islist(x)]),
 z3.ForAll([x,i], z3.Implies(z3.And(islist(x),0<=i,i<llen(x)), off(x,i+1)==off(x,i)+nb(item(x,i))), patterns=[off(x,i+1)]),
 z3.ForAll([x,i], z3.Implies(z3.And(islist(x),0<=i,i<llen(x)), off(x,i+1)==off(x,i)+nb(item(x,i))), patterns=[item(x,i)]),
 z3.ForAll([x,i,m], z3.Implies(z3.And(islist(x),0<=i,i<llen(x),off(x,i)<=m,m<off(x,i+1)), bl(x,m)==bl(item(x,i),m-off(x,i))), patterns=[z3.MultiPattern(bl(x,m),off(x,i+1))]),
 z3.ForAll([x,i], z3.Implies(z3.And(islist(x),0<=i,i<=llen(x)), z3.And(off(x,i)>=0, off(x,i)<=off(x,llen(x)))), patterns=[off(x,i)]),
 z3.ForAll([x,k], z3.Implies(islist(x), z3.And(islist(ph(x,k)), llen(ph(x,k))==llen(x))), patterns=[ph(x,k)]),
 z3.ForAll([x,k,i], z3.Implies(z3.And(islist(x),0<=i,i<llen(x)), item(ph(x,k),i)==ph(item(x,i),k+off(x,i))), patterns=[item(ph(x,k),i)]),
 # list extensionality
 z3.ForAll([x,y], z3.Implies(z3.And(islist(x),islist(y),llen(x)==llen(y), z3.ForAll([i], z3.Implies(z3.And(0<=i,i<llen(x)), item(x,i)==item(y,i)))), x==y)),
]
# --- _deconstruct_binary_internal, list branch: loop over items calling the recursive contract
data=z3.Const('data',V)
A0=z3.Array('A0',I,V); n0=z3.Int('n0')          # attachments at entry (array view, length n0)
A=z3.Array('A',I,V); n=z3.Int('n')              # attachments at loop head
A2=z3.Array('A2',I,V); n2=z3.Int('n2')          # after the recursive call
outl=z3.Array('outl',I,V); outl2=z3.Array('outl2',I,V)
j=z3.Int('j'); p=z3.Int('p')
def inv(Ax,nx,ox,ii):
    return z3.And(0<=ii, ii<=llen(data), nx==n0+off(data,ii),
        z3.ForAll([p], z3.Implies(z3.And(0<=p,p<n0), Ax[p]==A0[p]), patterns=[Ax[p]]),
        z3.ForAll([p], z3.Implies(z3.And(n0<=p,p<nx), Ax[p]==bl(data,p-n0)), patterns=[Ax[p]]),
        z3.ForAll([j], z3.Implies(z3.And(0<=j,j<ii), ox[j]==ph(item(data,j), n0+off(data,j))), patterns=[ox[j]]))
r=z3.Const('r',V)
callee_post=z3.And(r==ph(item(data,i), n), n2==n+nb(item(data,i)),
        z3.ForAll([p], z3.Implies(z3.And(0<=p,p<n), A2[p]==A[p]), patterns=[A2[p]]),
        z3.ForAll([p], z3.Implies(z3.And(n<=p,p<n2), A2[p]==bl(item(data,i),p-n)), patterns=[A2[p]]))
hyps=AX+[islist(data), n0>=0, inv(A,n,outl,i), i<llen(data), callee_post, outl2==z3.Store(outl,i,r)]
prove('deconstruct.list.loop-init', AX+[islist(data), n0>=0, A==A0, n==n0], inv(A,n,outl,z3.IntVal(0)))
# step split into the four conjuncts (cuts)
I2=inv(A2,n2,outl2,i+1)
for idx,cj in enumerate(I2.children()):
    prove(f'deconstruct.list.loop-step[{idx}]', hyps, cj)
# exit: result list res with llen=llen(data), items=outl  ==> res == ph(data,n0), n == n0+nb(data), window
res=z3.Const('res',V)
hy2=AX+[islist(data), n0>=0, inv(A,n,outl,llen(data)), islist(res), llen(res)==llen(data), z3.ForAll([j], z3.Implies(z3.And(0<=j,j<llen(data)), item(res,j)==outl[j]), patterns=[item(res,j)])]
prove('deconstruct.list.exit.result', hy2, res==ph(data,n0))
prove('deconstruct.list.exit.len', hy2, n==n0+nb(data))
prove('deconstruct.bytes', AX+[isbytes(data)], z3.And(ph(data,n0)==PH(n0), nb(data)==1, bl(data,0)==data))
# --- _reconstruct_binary_internal, list branch: d' = ph(d,k), window W(A,k,d) => per item callee pre holds and result == d
d=z3.Const('d',V); dp=z3.Const('dp',V); kk=z3.Int('kk'); AA=z3.Array('AA',I,V)
W=lambda a,base,t: z3.ForAll([p], z3.Implies(z3.And(base<=p,p<base+nb(t)), a[p]==bl(t,p-base)), patterns=[a[p]])
hy3=AX+[islist(d), dp==ph(d,kk), W(AA,kk,d), 0<=i, i<llen(d)]
prove('reconstruct.list.callee-pre.shape', hy3, item(dp,i)==ph(item(d,i), kk+off(d,i)))
mm=z3.Int('mm')
pp=z3.Int('pp'); base=kk+off(d,i)
prove('reconstruct.list.callee-pre.window', hy3+[base<=pp, pp<base+nb(item(d,i)), off(d,i+1)==off(d,i+1)], AA[pp]==bl(item(d,i),pp-base))
# result: list res with items = callee results = item(d,j)  ==> res == d
hy4=AX+[islist(d), dp==ph(d,kk), islist(res), llen(res)==llen(dp), z3.ForAll([j], z3.Implies(z3.And(0<=j,j<llen(dp)), item(res,j)==item(d,j)), patterns=[item(res,j)])]
prove('reconstruct.list.result', hy4, res==d)
# canary: off-by-one numbering (len(attachments) instead of len-1 ... i.e. PH(n0+1)) must be refuted
prove('canary.bytes-offbyone (expect sat/unknown)', AX+[isbytes(data)], ph(data,n0)==PH(n0+1), 5000)
