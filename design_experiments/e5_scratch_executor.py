# E5: scratch symbolic executor for the loop-free resolution functions, read from the real source.
import ast, z3, itertools, sys
V=z3.DeclareSort('V'); B=z3.BoolSort()
A1=z3.ArraySort(V,B); A2=z3.ArraySort(V,A1); W2=z3.ArraySort(V,z3.ArraySort(V,V)); W1=z3.ArraySort(V,V)
consts={}
def K(s):
    if s not in consts: consts[s]=z3.Const('c_'+{'*':'star','/':'slash'}.get(s,str(s)),V)
    return consts[s]
NONE=z3.Const('None',V)
class Map2:   # dict of dict, flat arrays
    def __init__(s,n): s.d1=z3.Const(n+'_d1',A1); s.d2=z3.Const(n+'_d2',A2); s.v=z3.Const(n+'_v',W2)
class Map1:
    def __init__(s,n): s.d1=z3.Const(n+'_d1',A1); s.v=z3.Const(n+'_v',W1)
class Sub1:   # handlers[ns]  (a view on Map2 at key k)
    def __init__(s,m,k): s.m,s.k=m,k
class Tup:
    def __init__(s,items,rest): s.items,s.rest=items,rest   # rest: name of an opaque tail or None
    def key(s): return (tuple(str(i) for i in s.items), s.rest)
def run(fn, env, reserved):
    """returns list of (path_condition, return_value)"""
    out=[]
    def ev(e,env):
        if isinstance(e,ast.Constant): return NONE if e.value is None else K(e.value)
        if isinstance(e,ast.Name): return env[e.id]
        if isinstance(e,ast.Attribute) and isinstance(e.value,ast.Name) and e.value.id=='self': return env['self.'+e.attr]
        if isinstance(e,ast.Subscript):
            base=ev(e.value,env); k=ev(e.slice,env)
            if isinstance(base,Map2): return Sub1(base,k)
            if isinstance(base,Sub1): return base.m.v[base.k][k]
            if isinstance(base,Map1): return base.v[k]
        if isinstance(e,ast.Tuple):
            items=[]; rest=None
            for el in e.elts:
                if isinstance(el,ast.Starred):
                    t=ev(el.value,env); items+=t.items; rest=t.rest
                else: items.append(ev(el,env))
            return Tup(items,rest)
        raise NotImplementedError(ast.dump(e))
    def cond(e,env):
        if isinstance(e,ast.BoolOp):
            cs=[cond(v,env) for v in e.values]; return z3.And(*cs) if isinstance(e.op,ast.And) else z3.Or(*cs)
        if isinstance(e,ast.UnaryOp) and isinstance(e.op,ast.Not): return z3.Not(cond(e.operand,env))
        if isinstance(e,ast.Compare) and len(e.ops)==1:
            l=ev(e.left,env); op=e.ops[0]; r=ev(e.comparators[0],env)
            if isinstance(op,(ast.In,ast.NotIn)):
                if isinstance(r,Map2): c=r.d1[l]
                elif isinstance(r,Sub1): c=r.m.d2[r.k][l]
                elif isinstance(r,Map1): c=r.d1[l]
                elif r=='RESERVED': c=reserved(l)
                else: raise NotImplementedError
                return c if isinstance(op,ast.In) else z3.Not(c)
            if isinstance(op,(ast.Is,ast.Eq)): return l==r
            if isinstance(op,(ast.IsNot,ast.NotEq)): return l!=r
        raise NotImplementedError(ast.dump(e))
    def block(stmts,env,pc):
        for idx,s in enumerate(stmts):
            if isinstance(s,ast.Expr): continue
            if isinstance(s,ast.Assign):
                v=ev(s.value,env); env=dict(env); env[s.targets[0].id]=v; continue
            if isinstance(s,ast.If):
                c=cond(s.test,env); rest=stmts[idx+1:]
                block(s.body+rest,env,pc+[c]); block(s.orelse+rest,env,pc+[z3.Not(c)]); return
            if isinstance(s,ast.Return):
                out.append((pc,ev(s.value,env))); return
            raise NotImplementedError(ast.dump(s))
        out.append((pc,None))
    block(fn.body,env,[]); return out
def get(file,cls,name):
    for n in ast.parse(open('/repo/src/socketio/'+file).read()).body:
        if isinstance(n,ast.ClassDef) and n.name==cls:
            for m in n.body:
                if isinstance(m,ast.FunctionDef) and m.name==name: return m
H=Map2('handlers'); NH=Map1('nsh')
event,ns=z3.Consts('event namespace',V)
isres=z3.Function('reserved',V,B)
env={'self.handlers':H,'self.reserved_events':'RESERVED','event':event,'namespace':ns,'args':Tup([], 'ARGS')}
def spec():
    """C13 precedence, from the property statement: (handler, args) — first present of the four function targets"""
    star=K('*')
    return [ (z3.And(H.d1[ns], H.d2[ns][event]),                         H.v[ns][event],   Tup([], 'ARGS')),
             (z3.And(H.d1[ns], H.d2[ns][star], z3.Not(isres(event))),    H.v[ns][star],    Tup([event], 'ARGS')),
             (z3.And(H.d1[star], H.d2[star][event]),                     H.v[star][event], Tup([ns], 'ARGS')),
             (z3.And(H.d1[star], H.d2[star][star], z3.Not(isres(event))),H.v[star][star],  Tup([event,ns], 'ARGS')) ]
dom=[event!=K('*'), ns!=K('*'), z3.Distinct(NONE,K('*'))]
# registered handlers are not None
hv=z3.Const('hv',V); kv=z3.Const('kv',V)
dom.append(z3.ForAll([hv,kv], z3.Implies(z3.And(H.d1[hv],H.d2[hv][kv]), H.v[hv][kv]!=NONE)))
for file,cls in [('base_server.py','BaseServer'),('base_client.py','BaseClient')]:
    fn=get(file,cls,'_get_event_handler')
    paths=run(fn,env,lambda v:isres(v))
    nob=0; bad=0
    for pc,ret in paths:
        h,args=ret.items[0],ret.items[1]
        # obligation per (path, spec case): pc ∧ earlier cases false ∧ this case true ⇒ result matches
        prev=[]
        for c,sh,sa in spec()+[(z3.BoolVal(True),NONE,Tup([], 'ARGS'))]:
            s=z3.Solver(); s.add(*dom,*pc,*[z3.Not(p) for p in prev],c)
            ok_args = args.key()==sa.key()
            goal = z3.And(h==sh, z3.BoolVal(True) if ok_args else z3.BoolVal(False)) if ok_args or True else None
            # args compare structurally: items pairwise equal
            if len(args.items)==len(sa.items) and args.rest==sa.rest: goal=z3.And(h==sh,*[a==b for a,b in zip(args.items,sa.items)])
            else: goal=z3.And(h==sh, z3.BoolVal(False)) if False else (h==sh) if (h is NONE) else z3.BoolVal(False)
            # when no handler is selected (sh is None) the args are irrelevant
            if sh is NONE: goal=(h==NONE)
            s.add(z3.Not(goal)); r=s.check(); nob+=1
            if r!=z3.unsat:
                bad+=1; m=s.model()
                def show(b): return str(m.eval(b,model_completion=True))
                print(f'  REFUTED {cls}: ns-has-handlers={show(H.d1[ns])} ev-in-ns={show(H.d2[ns][event])} star-in-ns={show(H.d2[ns][K("*")])} star-ns={show(H.d1[K("*")])} ev-in-star={show(H.d2[K("*")][event])} star-in-star={show(H.d2[K("*")][K("*")])} reserved={show(isres(event))} -> code handler={show(h)} spec handler={show(sh)}')
            prev.append(c)
    print(f'{cls}._get_event_handler: {len(paths)} paths, {nob} obligations, {bad} refuted')
