"""C17 -- class-based namespace helpers use their own namespace and forward every argument.

The contract is a schema, instantiated mechanically on every run for every public method of the four namespace
classes that has a same-named method on the class it delegates to.  The call's arguments are bound against the REAL
signature of the target method (read from its AST), so a positional pass that a reordering would misroute fails."""
import ast
import z3
from pyvc import smt, source
from pyvc.smt import V, NONE
from pyvc.model import Schema, Leaf
from pyvc.contract import Contract, Case
from pyvc.vals import S, Fn, Raised, Exc, Unsupported, PySeq
from pyvc.externals import Externals

PAIRS = [
    (('namespace', 'Namespace'), 'server', ('server', 'Server')),
    (('async_namespace', 'AsyncNamespace'), 'server', ('async_server', 'AsyncServer')),
    (('namespace', 'ClientNamespace'), 'client', ('client', 'Client')),
    (('async_namespace', 'AsyncClientNamespace'), 'client', ('async_client', 'AsyncClient')),
]
NOT_HELPERS = {'trigger_event', 'is_asyncio_based'}


def ns_world(nscls, attr, target):
    w = Schema('ns:%s.%s' % nscls)
    w.obj('nsobj', nscls, fields={'namespace': Leaf('V')}, links={attr: 'api'})
    w.obj('api', ('$api', 'api'))
    from . import worlds
    w.obj('g', ('$ext', 'Ghost'), fields=dict(worlds.GHOST))
    w.api_target = target
    return w


def api_dynamic(schema):
    """Calls on self.server / self.client are recorded with their arguments bound to the target's real parameters."""
    tmod, tcls = schema.api_target

    def dyn(eng, ctx, base, attr):
        found = source.find_method(tmod, tcls, attr)
        if not found:
            return None

        def impl(eng, ctx, args, kwargs, _node=found[2]):
            b = eng.bind_params(ctx, source.prepared(_node), args, kwargs, skip_self=True)
            if b[0] in ('arity', 'symbolic-arity'):
                yield ctx, Raised(Exc('TypeError'))
                return
            bound, missing = b
            r = smt.fresh('api_ret', V)
            ctx.notes.append(('api', attr, {k: v for k, v in bound.items()}, sorted(missing), r))
            yield ctx, S(r)
        return Fn('builtin', name='api.' + attr, impl=impl)
    return dyn


def helpers(nscls, target):
    out = []
    seen = set()
    for m, c in source.mro(*nscls):
        cdef = source.classes(m).get(c)
        if cdef is None:
            continue
        for n in cdef.body:
            if isinstance(n, (ast.FunctionDef, ast.AsyncFunctionDef)) and not n.name.startswith('_') \
                    and n.name not in NOT_HELPERS and n.name not in seen:
                seen.add(n.name)
                if source.find_method(target[0], target[1], n.name):
                    out.append((m, c, n))
    return out


def helper_contract(world, nscls, attr, target, m, c, node):
    pos, defaults, vararg, kwonly, kwarg = source.signature(node)
    params = [p for p in pos[1:] + kwonly]
    if vararg or kwarg:
        return None
    tnode = source.find_method(target[0], target[1], node.name)[2]
    tpos, tdef, tvar, tkw, tkwarg = source.signature(tnode)
    tparams = tpos[1:] + tkw

    def post(cx):
        calls = [n for n in cx.ctx.notes if n[0] == 'api']
        d = {'exactly-one-delegation': z3.BoolVal(len(calls) == 1)}
        if len(calls) != 1:
            return d
        _, name, bound, missing, r = calls[0]
        d['same-named-method'] = z3.BoolVal(name == node.name)
        # a helper is called like the method it stands for: the parameters both accept positionally come in the same order
        mine = [p for p in pos[1:] if p in tpos[1:]]
        theirs = [p for p in tpos[1:] if p in pos[1:]]
        d['positional-parameters-in-the-order-of-the-underlying-method'] = z3.BoolVal(mine == theirs)
        ns_self = cx.pre.get('nsobj', 'namespace').leaf()
        for p in params:
            if p not in tparams:
                continue            # the target has no such parameter (ClientNamespace.send's vestigial `room`)
            if p not in bound:
                d['forwards.' + p] = z3.BoolVal(False)
                continue
            actual = cx.eng.to_v(cx.ctx, bound[p])
            given = cx.a[p]
            if p == 'namespace':
                d['forwards.namespace'] = actual == z3.If(smt.truthy(given), given, ns_self)
            else:
                d['forwards.' + p] = actual == given
        if 'namespace' in tparams and 'namespace' not in params:
            pass
        d['result-passed-back'] = cx.res_v() == r
        return d

    return Contract(
        target='%s.%s.%s' % (m, c, node.name), schema=world, self_obj='nsobj',
        params={p: 'V' for p in params},
        requires=lambda cx: {'ns.truthy': smt.truthy(cx.pre.get('nsobj', 'namespace').leaf())},
        cases=[Case('delegates', post=post)], modifies=[], props=['C17'],
        must_fail=lambda cx: {'delegates:claims-default-namespace': z3.BoolVal(False) if not [n for n in cx.ctx.notes if n[0] == 'api' and 'namespace' in n[2]]
                              else cx.eng.to_v(cx.ctx, [n for n in cx.ctx.notes if n[0] == 'api'][0][2]['namespace']) == smt.atom('/')})


def register(reg):
    for nscls, attr, target in PAIRS:
        w = ns_world(nscls, attr, target)
        for m, c, node in helpers(nscls, target):
            # the world's nsobj class is the concrete namespace class even for inherited helpers (rooms)
            k = helper_contract(w, nscls, attr, target, m, c, node)
            if k is not None:
                if (m, c) != nscls:
                    # an inherited helper is verified once per concrete class, under that class's name
                    k.labels[k.target] = '%s.%s.%s[inherited from %s.%s]' % (nscls[0], nscls[1], node.name, m, c)
                reg.add(k, index=False)
