"""C17: a class-based namespace object acts on the server / client it was registered with LAST: _set_server/_set_client
rebind unconditionally (register_namespace calls them on every registration)."""
import z3
from pyvc.smt import V
from pyvc.model import Schema, Leaf
from pyvc.contract import Contract, Case
from . import worlds


def binding_world(cls, attr):
    w = Schema('nsbind:%s.%s' % cls)
    w.obj('nsobj', cls, fields={'namespace': Leaf('V'), attr: Leaf('V')})
    w.obj('g', ('$ext', 'Ghost'), fields=dict(worlds.GHOST))
    return w


def binding_contract(cls, meth, attr):
    w = binding_world(cls, attr)
    return Contract(
        target='%s.%s.%s' % (cls[0], cls[1], meth), schema=w, self_obj='nsobj', params={attr: 'V'},
        cases=[Case('rebinds', post=lambda c: {'helpers-now-act-on-the-object-given': c.post.get('nsobj', attr).leaf() == c.a[attr]})],
        modifies=[('nsobj', attr)], props=['C17'],
        must_fail=lambda c: {'rebinds:claims-unchanged': c.post.get('nsobj', attr).leaf() == c.pre.get('nsobj', attr).leaf()})


def register(reg):
    reg.add(binding_contract(('base_namespace', 'BaseServerNamespace'), '_set_server', 'server'))
    reg.add(binding_contract(('base_namespace', 'BaseClientNamespace'), '_set_client', 'client'))
