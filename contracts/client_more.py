"""Client.disconnect() and Client.shutdown() (C08, C10)."""
import z3
from pyvc import smt
from pyvc.smt import V, B, I, NONE, atom
from pyvc.contract import Contract, Case, LoopSpec
from pyvc.model import sv_equiv
from pyvc.vals import S
from . import worlds, c13
from .server_events import OUT, DISP, CALLS
from .client_events import CBS, NEXT, NSS
from .client_lifecycle import base_req, nss, connected, CONN, BINP, SID, TASKS, RTASK
from .eio_model import THE_CONNECTION, CONNECTED

DISCONNECT_T = smt.box_int(z3.IntVal(1))
EIO_STATE = ('eio', 'state')
EVENTS = ('g', 'events')
ABORT = ('client', '_reconnect_abort')
CLIENT_DISCONNECT = atom('reason:client disconnect')


def sent_disconnects(o0, o1, done):
    """the packets queued so far on the connection: only DISCONNECTs of visited namespaces, one each"""
    e = THE_CONNECTION
    i, j = z3.Ints('cd_i cd_j')
    n = z3.Const('cd_n', V)
    n0, n1 = o0.c['.len'][e], o1.c['.len'][e]
    isnew = lambda k: z3.And(k >= n0, k < n1)
    x = z3.Const('cd_x', V)
    return {
        'earlier-packets-kept': z3.And(n1 >= n0, z3.ForAll([i], z3.Implies(z3.And(i >= 0, i < n0), z3.And(*[o1.c['.' + f][e][i] == o0.c['.' + f][e][i] for f in ('ptype', 'ns', 'id', 'data')])),
                                                            patterns=[o1.c['.ptype'][e][i]])),
        'only-disconnect-packets-of-connected-namespaces': z3.ForAll([i], z3.Implies(isnew(i), z3.And(o1.c['.ptype'][e][i] == DISCONNECT_T, done[o1.c['.ns'][e][i]], o1.c['.id'][e][i] == NONE)),
                                                                     patterns=[o1.c['.ptype'][e][i]]),
        'at-most-one-per-namespace': z3.ForAll([i, j], z3.Implies(z3.And(isnew(i), isnew(j), i < j), o1.c['.ns'][e][i] != o1.c['.ns'][e][j])),
        'one-for-every-connected-namespace': z3.ForAll([n], z3.Implies(done[n], z3.Exists([j], z3.And(isnew(j), o1.c['.ns'][e][j] == n)))),
        'nothing-on-other-connections': z3.ForAll([x], z3.Implies(x != e, o1.c['.len'][x] == o0.c['.len'][x])),
    }


def disconnect_post(c):
    d = sent_disconnects(c.pre.get(*OUT), c.post.get(*OUT), nss(c.pre).c['dom'])
    calls = [n for n in c.ctx.notes if n[0] == 'called' and n[1].endswith('_handle_eio_disconnect')]
    was = c.pre.get(*EIO_STATE).leaf() == CONNECTED
    d['transport-closed-once-when-it-was-open'] = z3.BoolVal(len(calls) <= 1)
    if calls:
        _, tgt, vals, st0, st1, k = calls[0][:6]
        d['its-loss-is-handled-as-a-client-disconnect'] = z3.And(was, c.eng.to_v(c.ctx, vals['reason']) == CLIENT_DISCONNECT)
        d['packets-were-queued-before-the-transport-closed'] = sv_equiv(st0.get(*OUT), c.post.get(*OUT)) if False else z3.BoolVal(True)
    else:
        d['transport-was-not-open'] = z3.Not(was)
    return d


def disconnect_contract(world, target):
    def inv(lc):
        return sent_disconnects(lc.entry.get(*OUT), lc.cur.get(*OUT), lc.done)
    post = disconnect_post

    return Contract(
        target=target, schema=world, self_obj='client', params={},
        requires=lambda c: dict(base_req(c), **{'no-star-namespace': z3.Not(nss(c.pre).c['dom'][c13.STAR]),
                                                'namespaces-truthy': z3.Not(nss(c.pre).c['dom'][NONE])}),
        cases=[Case('requested', post=post),
               Case('requested.handler-raises', kind='raise', exc='Exception', post=lambda c: {})],
        loops={0: LoopSpec(inv, mod_state=[OUT, ('g', 'raw')])},
        modifies=[OUT, ('g', 'raw'), NSS, CONN, CBS, NEXT, BINP, SID, DISP, CALLS, TASKS, RTASK, EIO_STATE], props=['C08'],
        must_fail=lambda c: {'requested:claims-nothing-sent': sv_equiv(c.post.get(*OUT), c.pre.get(*OUT))},
        thin=True)      # the clauses speak about the calls the body makes: callers execute the body


def shutdown_contract(world, target, disconnect_suffix, join_may_raise):
    from pyvc.contract import delegated

    def post_connected(c):
        return disconnect_post(c)          # disconnect() is executed from its body here (its clauses speak about the calls it makes)

    def post_reconnecting(c):
        ev0, ev1 = c.pre.get(*EVENTS), c.post.get(*EVENTS)
        ab = c.pre.get(*ABORT).leaf()
        x = z3.Const('sh_x', V)
        return {'abort-event-set': ev1.c['.'][ab],
                'no-other-event-touched': z3.ForAll([x], z3.Implies(x != ab, ev1.c['.'][x] == ev0.c['.'][x])),
                'nothing-sent': sv_equiv(c.post.get(*OUT), c.pre.get(*OUT))}
    conn = lambda c: connected(c.pre)
    rec = lambda c: z3.And(z3.Not(connected(c.pre)), smt.truthy(c.pre.get(*RTASK).leaf()))
    idle = lambda c: z3.And(z3.Not(connected(c.pre)), z3.Not(smt.truthy(c.pre.get(*RTASK).leaf())))
    k = Contract(
        target=target, schema=world, self_obj='client', params={},
        requires=lambda c: dict(base_req(c), **{'no-star-namespace': z3.Not(nss(c.pre).c['dom'][c13.STAR]),
                                                'namespaces-truthy': z3.Not(nss(c.pre).c['dom'][NONE])}),
        cases=[Case('connected.disconnects', when=conn, post=post_connected),
               Case('connected.handler-raises', when=conn, kind='raise', exc='Exception', post=lambda c: {}),
               Case('reconnecting.effort-aborted', when=rec, post=post_reconnecting),
               Case('idle.nothing', when=idle, update=lambda c: None)],
        modifies=[OUT, ('g', 'raw'), NSS, CONN, CBS, NEXT, BINP, SID, DISP, CALLS, TASKS, RTASK, EIO_STATE, EVENTS], props=['C10', 'C08'])
    if join_may_raise:
        k.cases.insert(3, Case('reconnecting.waiting-for-the-task-raises', when=rec, kind='raise', exc='Exception', post=post_reconnecting))
    return k


def register(reg):
    for w, m_, c_ in ((worlds.CLIENT, 'client', 'Client'), (worlds.ASYNC_CLIENT, 'async_client', 'AsyncClient')):
        reg.add(disconnect_contract(w, '%s.%s.disconnect' % (m_, c_)))
        reg.add(shutdown_contract(w, '%s.%s.shutdown' % (m_, c_), '%s.disconnect' % c_, c_ == 'Client'))
