"""Assumed contracts of engine.io (server and client side).  Each model notes the assumption it embodies."""
import z3
from pyvc import smt
from pyvc.smt import V, B, I, NONE
from pyvc.model import SV, Leaf
from pyvc.vals import S, PySeq, Fixed, Raised, Exc, Unsupported, Fn
from pyvc.dsl import log_append


def install(ext, schema):
    from . import views
    if ('manager', 'callbacks') in schema.fields:
        ext.counter_fields[('manager', 'callbacks')] = ('manager', 'ack_next')
        ext.counter_atom = views.COUNTER
    if ('client', 'callbacks') in schema.fields:
        ext.counter_fields[('client', 'callbacks')] = ('client', 'ack_next')
        ext.counter_atom = views.COUNTER
    ext.class_ctors['engineio.packet.Packet'] = eio_packet_ctor
    cfg_uses_binary = z3.Const('cfg_uses_binary_events', B)
    ext.module_attrs[('classattr', 'socketio.packet.Packet', 'uses_binary_events')] = lambda eng, ctx: S(cfg_uses_binary)
    ext.rec_classes['Packet'] = ('packet', 'Packet')
    ext.module_attrs[('socketio.base_client', 'reconnecting_clients')] = lambda eng, ctx: ctx.alloc('rec', {}, cls='Sink')
    m = ext.obj_methods
    m[('Sink', 'append')] = lambda eng, ctx, args, kwargs, me: iter([(ctx, S(NONE))])
    m[('Sink', 'remove')] = lambda eng, ctx, args, kwargs, me: iter([(ctx, S(NONE))])
    m[('EioServer', 'generate_id')] = eio_generate_id
    m[('EioServer', 'send')] = eio_server_send
    m[('EioServer', 'send_packet')] = eio_server_send_packet
    m[('EioServer', 'start_background_task')] = eio_start_background_task
    m[('EioClient', 'start_background_task')] = eio_client_start_task
    m[('EioClient', 'disconnect')] = eio_client_disconnect
    m[('EioClient', 'create_event')] = eio_create_event
    m[('EioServer', 'create_event')] = eio_create_event
    m[('EioServer', 'get_session')] = eio_get_session
    m[('EioClient', 'send')] = eio_client_send
    m[('Task', 'add_done_callback')] = lambda eng, ctx, args, kwargs, me: iter([(ctx, S(NONE))])
    m[('Task', 'join')] = lambda eng, ctx, args, kwargs, me: iter([(ctx, S(NONE))])


def eio_packet_ctor(eng, ctx, args, kwargs):
    """engineio.packet.Packet(MESSAGE, data): identified with its data frame"""
    eng.ext.note('engine.io: send_packet(sid, Packet(MESSAGE, f)) queues the same frame as send(sid, f)')
    items = args.items()
    yield ctx, items[1]


class _C:
    def __init__(self, eng, ctx):
        self.eng, self.ctx = eng, ctx


def eio_generate_id(eng, ctx, args, kwargs):
    eng.ext.note('engine.io generate_id() returns a non-empty string never returned before (12 random bytes + sequence number)')
    r = smt.fresh('new_sid', V)
    iss = ctx.st.get('g', 'issued')
    ctx.assume(z3.Not(iss.c['.'][r]), r != NONE, smt.truthy(r), smt.kind(r) == smt.K_STR)
    if eng.schema.fields.get(('manager', 'rooms')) is not None:
        from . import views
        eng.ext.note('a newly generated id is not in use as a session id or room name (ids are 96 random bits + a sequence number)')
    ctx.st = ctx.st.set('g', 'issued', iss.with_child(('k', r), SV(Leaf('B'), {'': z3.BoolVal(True)})))
    yield ctx, S(r)


def eio_server_send(eng, ctx, args, kwargs):
    eng.ext.note('engine.io server send(sid, data) queues exactly one frame on that connection, in call order, and does not raise')
    eio_sid, data = args.items()
    log_append(_C(eng, ctx), 'g', 'raw', key=eng.to_v(ctx, eio_sid), frame=data)
    yield ctx, S(NONE)


def eio_server_send_packet(eng, ctx, args, kwargs):
    eng.ext.note('engine.io server send_packet(sid, Packet(MESSAGE, data)) queues exactly one frame on that connection and does not raise')
    eio_sid, pkt = args.items()
    log_append(_C(eng, ctx), 'g', 'raw', key=eng.to_v(ctx, eio_sid), frame=pkt)
    yield ctx, S(NONE)


def eio_start_background_task(eng, ctx, args, kwargs):
    """start_background_task(f, *args): f(*args) runs exactly once; its exceptions do not reach the caller."""
    eng.ext.note('engine.io start_background_task(f, *args) runs f(*args) exactly once (modelled inline: scheduling and the '
                 'time at which it runs are not modelled); an exception in the task does not propagate to the starter')
    from pyvc.vals import PySeq, Fixed
    f = args.segs[0].items[0]
    rest = PySeq(eng._drop_front(args, 1), 'tuple')
    for c, r in eng.call(ctx, f, rest, dict(kwargs)):
        yield c, c.alloc('rec', {}, cls='Task')


def eio_get_session(eng, ctx, args, kwargs):
    """engine.io get_session(sid): the session dict of that live connection (one dict per connection); KeyError for an
    unknown connection.  Which connections are live is not modelled: the dict is looked up/created per transport id."""
    from pyvc.vals import Ref
    eng.ext.note('engine.io get_session(eio_sid) returns the one session dict of that connection (a new empty one for a new connection) and raises KeyError for an unknown one')
    (e,) = args.items()
    ev = eng.to_v(ctx, e)
    for c, none in eng.branch(ctx, ev == NONE):
        if none:
            yield c, Raised(Exc('KeyError'))
            continue
        sv = c.st.get('eio', 'sessions')
        from pyvc.model import SV, MapT, Leaf
        for c2, pres in eng.branch(c, sv.present(ev)):
            if not pres:
                sv2 = c2.st.get('eio', 'sessions')
                c2.st = c2.st.set('eio', 'sessions', sv2.with_child(('k', ev), SV.empty(MapT(Leaf('V')))))
            yield c2, Ref('eio', 'sessions', (('k', ev),))


THE_CONNECTION = smt.atom('the-connection')


def eio_client_send(eng, ctx, args, kwargs):
    eng.ext.note('engine.io client send(data) queues exactly one frame on the connection, in call order, and does not raise')
    (data,) = args.items()
    log_append(_C(eng, ctx), 'g', 'raw', key=THE_CONNECTION, frame=data)
    yield ctx, S(NONE)


def eio_client_start_task(eng, ctx, args, kwargs):
    """client side: the task is recorded (g.tasks), not run inline: it runs in the background after the caller returns"""
    eng.ext.note('engine.io client start_background_task(f, *args) starts f(*args) exactly once in the background (recorded in g.tasks)')
    from pyvc.vals import PySeq, Fixed, Fn
    f = args.segs[0].items[0]
    rest = PySeq(eng._drop_front(args, 1), 'tuple')
    name = smt.atom('task:' + (getattr(f, 'name', None) or 'callable')) if isinstance(f, Fn) else eng.to_v(ctx, f)
    log_append(_C(eng, ctx), 'g', 'tasks', fn=name, args=rest)
    t = smt.fresh('task', V)
    ctx.assume(t != NONE, smt.truthy(t), smt.kind(t) == smt.K_OTHER)
    yield ctx, S(t)


def eio_create_event(eng, ctx, args, kwargs):
    e = smt.fresh('event', V)
    evs = ctx.st.get('g', 'events')
    ctx.assume(e != NONE, smt.truthy(e), smt.kind(e) == smt.K_OTHER, z3.Not(evs.c['.'][e]))
    for f_ in ('_reconnect_abort', '_connect_event'):
        try:
            ctx.assume(e != ctx.st.get('client', f_).leaf())      # a new object: none of the events the client already holds
        except Exception:
            pass
    yield ctx, S(e)


CONNECTED, DISCONNECTING, DISCONNECTED = smt.atom('connected'), smt.atom('disconnecting'), smt.atom('disconnected')


def eio_client_disconnect(eng, ctx, args, kwargs):
    """engine.io 4.14 Client.disconnect(abort=False, reason=None): when the state is 'connected', the state becomes
    'disconnecting', the 'disconnect' handler is invoked synchronously exactly once with reason or CLIENT_DISCONNECT, then the
    state is 'disconnected'; otherwise nothing is invoked."""
    from pyvc.vals import PySeq, Fixed, Fn
    from pyvc.model import SV, Leaf
    eng.ext.note('engine.io client disconnect(): if connected -> state disconnecting, the disconnect handler runs synchronously exactly once, state disconnected; else nothing (read from engine.io 4.14.0 client.py)')
    st = ctx.st.get('eio', 'state').leaf()
    reason = kwargs.get('reason')
    for c, isconn in eng.branch(ctx, st == CONNECTED):
        if not isconn:
            yield c, S(NONE)
            continue
        c.st = c.st.set('eio', 'state', SV(Leaf('V'), {'': DISCONNECTING}))
        r = reason if reason is not None and not (isinstance(reason, S) and z3.eq(reason.t, NONE)) else S(smt.atom('reason:client disconnect'))
        f = Fn('method', obj='client', name='_handle_eio_disconnect', start_after=None)
        for c2, res in eng.call(c, f, PySeq([Fixed([r])], 'tuple'), {}):
            c2.st = c2.st.set('eio', 'state', SV(Leaf('V'), {'': DISCONNECTED}))
            yield c2, (res if isinstance(res, Raised) else S(NONE))
