"""Assumed contracts of engine.io (server and client side) and of the asyncio primitives."""


def install(ext, schema):
    pass
