"""Externals wiring: models of engine.io and other dependencies per world (the assumed contracts of DESIGN.md 6)."""
from pyvc.externals import Externals


def make_externals(schema):
    ext = Externals()
    from . import eio_model
    eio_model.install(ext, schema)
    from . import pubsub
    pubsub.install(ext, schema)
    if getattr(schema, 'api_target', None):
        from . import c17
        ext.obj_dynamic['api'] = c17.api_dynamic(schema)
    return ext
