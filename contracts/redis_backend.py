"""RedisManager._publish (C15/C07 back end): a Redis failure never escapes; one reconnect and one retry, then give up."""
import z3
from pyvc import smt
from pyvc.smt import V, NONE
from pyvc.model import Schema, Leaf
from pyvc.contract import Contract, Case, LoopSpec, Unwind
from pyvc.vals import S
from pyvc.externals import Recorder
from . import worlds


def redis_world(name, cls):
    w = Schema(name)
    w.obj('rm', cls, fields={'channel': Leaf('V')}, consts={'redis': lambda eng, ctx: Recorder('redis'), 'pubsub': lambda eng, ctx: Recorder('pubsub')})
    w.obj('g', ('$ext', 'Ghost'), fields=dict(worlds.GHOST))
    return w


RW = redis_world('redis', ('redis_manager', 'RedisManager'))
ARW = redis_world('async_redis', ('async_redis_manager', 'AsyncRedisManager'))


def hook(eng, ctx):
    eng.ext.recorder_raises = {'redis.publish'}

    def reconnect(eng2, c, args, kwargs):
        """_redis_connect(): replaces self.redis / self.pubsub by fresh connections (the backend's business); recorded"""
        c.notes.append(('api', 'rm._redis_connect', args, dict(kwargs), None, None))
        yield c, S(NONE)
    eng.ext.overrides['redis_manager.RedisManager._redis_connect'] = reconnect
    eng.ext.overrides['async_redis_manager.AsyncRedisManager._redis_connect'] = reconnect


def publish_contract(world, target):
    def apis(c):
        return [n for n in c.ctx.notes if n[0] == 'api']

    def post(c):
        a = apis(c)
        pubs = [n for n in a if n[1] == 'redis.publish']
        d = {'at-most-two-attempts': z3.BoolVal(1 <= len(pubs) <= 2)}
        seq = [n[1] for n in a if n[1] in ('redis.publish', 'rm._redis_connect')]
        d['a-second-attempt-only-after-reconnecting'] = z3.BoolVal(seq in (['redis.publish'], ['redis.publish', 'rm._redis_connect', 'redis.publish'], ['redis.publish', 'rm._redis_connect']))
        failed = [n for n in pubs if n[5] is not None]
        d['retried-only-after-a-redis-failure'] = z3.BoolVal(len(pubs) == 1 or pubs[0][5] is not None)
        ok = True
        for n in pubs:
            items = n[2].items() if n[2].fixed_len() == 2 else None
            ok = ok and items is not None and not n[3]
            if items is not None:
                d['attempt%d.on-the-configured-channel' % pubs.index(n)] = c.v(items[0]) == c.pre.get('rm', 'channel').leaf()
        d['attempts-well-formed'] = z3.BoolVal(ok)
        # what is published is the pickled message
        dumps = [n for n in a if n[1] == 'pickle.dumps']
        d['message-pickled-as-given'] = z3.And(z3.BoolVal(len(dumps) == len(pubs)), *[c.v(n[2].items()[0]) == c.a.data for n in dumps if n[2].fixed_len() == 1])
        return d
    return Contract(target=target, schema=world, self_obj='rm', params={'data': 'V'},
                    cases=[Case('published-or-given-up', post=post)],
                    loops={0: Unwind(2)},
                    modifies=[], props=['C15', 'C07'], app_raises=['redis.RedisError'],
                    env_hook=hook)


def listen_contract(world, target):
    """the receive loop never ends on a Redis failure: it sleeps min(2**k, 60) seconds, reconnects, subscribes again and goes on"""
    def inv(lc):
        rs = lc.t('retry_sleep')
        d = {'back-off-between-1-and-60-seconds': z3.And(rs >= 1, rs <= 60)}
        sleeps = [n for n in lc.ctx.notes if n[0] == 'api' and n[1] in ('time.sleep', 'asyncio.sleep')]
        for i, n in enumerate(sleeps):
            it = n[2].items()[0]
            d['sleep%d-at-most-60-seconds' % i] = z3.And(it.t >= 1, it.t <= 60) if isinstance(it, S) and it.sort == 'I' else z3.BoolVal(False)
        return d
    return Contract(target=target, schema=world, self_obj='rm', params={},
                    cases=[Case('only-a-non-redis-failure-ends-it', kind='raise', exc='Exception',
                                post=lambda c: {'not-a-redis-error': z3.BoolVal(c.exc.cls != 'redis.RedisError')})],
                    loops={0: LoopSpec(inv, mod_vars=['retry_sleep', 'connect'], kinds={'retry_sleep': 'I', 'connect': 'B'}),
                           1: LoopSpec(lambda lc: {})},     # asyncio: `async for message in listen(): yield message`
                    modifies=[], props=['C15'], app_raises=['redis.RedisError', 'AppException'],
                    env_hook=hook2)


def hook2(eng, ctx):
    hook(eng, ctx)
    eng.ext.yield_skip = True
    eng.ext.recorder_raises = {'pubsub.listen', 'pubsub.subscribe', 'rm._redis_connect'}


def register(reg):
    reg.add(listen_contract(RW, 'redis_manager.RedisManager._redis_listen_with_retries'))
    reg.add(listen_contract(ARW, 'async_redis_manager.AsyncRedisManager._redis_listen_with_retries'))
    reg.add(publish_contract(RW, 'redis_manager.RedisManager._publish'))
    reg.add(publish_contract(ARW, 'async_redis_manager.AsyncRedisManager._publish'))
