"""Server side of events and acknowledgements: _handle_event_internal, _handle_event, _handle_ack (C05, C06, C02)."""
import z3
from pyvc import smt
from pyvc.smt import V, B, I, NONE, atom
from pyvc.contract import Contract, Case
from pyvc.dsl import A, prepend, log_grew, entry_is
from pyvc.vals import S, PySeq, Fixed, View
from . import worlds, c13
from .views import (member, connected, owns, struct, inv_m, cb_ok, outstanding, cb_present, cb_val, rooms, wire_value)
from .emit import owner, is_owner, CFG_BIN
from .packet_summary import has_binary
from .sending import OUT

ACK, BINARY_ACK = smt.box_int(z3.IntVal(3)), smt.box_int(z3.IntVal(6))
DISP = ('g', 'disp')
CALLS = ('g', 'calls')
SLASH = A('/')


def eff_ns(ns):
    return z3.If(smt.truthy(ns), ns, SLASH)


def wellformed_event(data):
    """an EVENT payload: a non-empty list whose first element is the event name"""
    return z3.And(smt.kind(data) == smt.K_LIST, smt.vlen(data) >= 1)


def ack_payload(r, D):
    """D is the ACK payload for the handler's return value r: None -> no arguments, a tuple -> several, else one"""
    p = z3.Int('ap_p')
    return z3.And(smt.kind(D) == smt.K_LIST,
                  z3.If(r == NONE, smt.vlen(D) == 0,
                        z3.If(smt.kind(r) == smt.K_TUPLE,
                              z3.And(smt.vlen(D) == smt.vlen(r), z3.ForAll([p], z3.Implies(z3.And(p >= 0, p < smt.vlen(r)), smt.vseq(D)[p] == smt.vseq(r)[p]))),
                              z3.And(smt.vlen(D) == 1, smt.vseq(D)[0] == r))))


def out_same_at(o0, o1, x, tag='sa'):
    """the packets queued on connection x are the same (observationally: same count, same records)"""
    i = z3.Int(tag + '_i')
    names = ('ptype', 'ns', 'id', 'data')
    return z3.And(o1.c['.len'][x] == o0.c['.len'][x],
                  z3.ForAll([i], z3.Implies(z3.And(i >= 0, i < o0.c['.len'][x]), z3.And(*[o1.c['.' + f][x][i] == o0.c['.' + f][x][i] for f in names]))))


def out_one(pre, post, e, fields_ok):
    """exactly one more packet queued on e (with fields_ok(record index) holding), nothing on any other connection"""
    o0, o1 = pre.get(*OUT), post.get(*OUT)
    x = z3.Const('oo_e', V)
    j = z3.Int('oo_j')
    n = o0.c['.len'][e]
    names = ('ptype', 'ns', 'id', 'data')
    return {
        'one-packet-to-the-sender': o1.c['.len'][e] == n + 1,
        'packet-fields': fields_ok(lambda f: o1.c['.' + f][e][n]),
        'earlier-packets-kept': z3.ForAll([j], z3.Implies(z3.And(j >= 0, j < n), z3.And(*[o1.c['.' + f][e][j] == o0.c['.' + f][e][j] for f in names]))),
        'nothing-to-anyone-else': z3.ForAll([x], z3.Implies(x != e, out_same_at(o0, o1, x))),
    }


def out_same(pre, post):
    from pyvc.model import sv_equiv
    return {'nothing-sent': sv_equiv(post.get(*OUT), pre.get(*OUT))}


def dispatched_once(c, pre, post, ev, ns, sid, data):
    """exactly one dispatch of the event: (event, namespace, (sid, *arguments))"""
    d0, d1 = pre.get(*DISP), post.get(*DISP)
    args = PySeq([Fixed([S(sid)]), View(smt.vseq(data), z3.IntVal(1), smt.vlen(data))], 'tuple')
    return {'one-dispatch': log_grew(d0, d1, 1),
            'event-namespace-sid-arguments': entry_is(c, d1, d0.c['len'], event=ev, ns=ns, args=args)}


def event_effect(c, pre, post, sid, eio_sid, data, ns, id_, names, raised=False):
    """the clauses of C05 for one event of a connected client"""
    ev = smt.vseq(data)[0]
    has = c13.target_exists(pre, 'server', ns, ev, names)
    d0, d1 = pre.get(*DISP), post.get(*DISP)
    ret = d1.c['ret'][d0.c['len']]
    disp = dispatched_once(c, pre, post, ev, ns, sid, data)

    def fields(get):
        D = get('data')
        return z3.And(get('ptype') == z3.If(z3.And(CFG_BIN, has_binary(D)), BINARY_ACK, ACK), get('ns') == ns, get('id') == id_, ack_payload(ret, D))
    acked = out_one(pre, post, eio_sid, fields)
    from pyvc.model import sv_equiv
    quiet = sv_equiv(post.get(*OUT), pre.get(*OUT))
    nodisp = sv_equiv(d1, d0)
    d = {}
    for k, v in disp.items():
        d['responsible-handler-invoked.' + k] = z3.Implies(has, v)
    d['nobody-responsible.nothing-invoked'] = z3.Implies(z3.Not(has), nodisp)
    if raised:
        d['handler-raised.no-ack'] = quiet
        return d
    for k, v in acked.items():
        d['ack.' + k] = z3.Implies(z3.And(has, id_ != NONE), v)
    d['no-id-or-nobody-responsible.no-ack'] = z3.Implies(z3.Or(z3.Not(has), id_ == NONE), quiet)
    return d


def confined(c, pre, post, sid, eio_sid):
    """C12: whatever the payload, at most handlers on behalf of THIS client run, only THIS transport is answered"""
    from pyvc.model import sv_equiv
    d0, d1 = pre.get(*DISP), post.get(*DISP)
    o0, o1 = pre.get(*OUT), post.get(*OUT)
    i = z3.Int('cf_i')
    x = z3.Const('cf_x', V)
    names = ('ptype', 'ns', 'id', 'data')
    same = []
    for n in d0.c:
        if n != 'len':
            same.append(d1.c[n][i] == d0.c[n][i])
    return {
        'handlers-run-only-on-behalf-of-the-sender': z3.And(
            d1.c['len'] >= d0.c['len'],
            z3.ForAll([i], z3.Implies(z3.And(i >= 0, i < d0.c['len']), z3.And(*same))),
            z3.ForAll([i], z3.Implies(z3.And(i >= d0.c['len'], i < d1.c['len']), z3.And(d1.c['args#len'][i] >= 1, d1.c['args#arr'][i][0] == sid)))),
        'nothing-sent-to-other-transports': z3.ForAll([x], z3.Implies(x != eio_sid, out_same_at(o0, o1, x))),
    }


def handle_event_internal_contract(world, target):
    names = c13.SERVER_RESERVED

    def req(c):
        d = dict(c13.handlers_ok(c.pre, 'server'))
        d['dom.event-name-not-star'] = z3.Implies(wellformed_event(c.a.data), smt.vseq(c.a.data)[0] != c13.STAR)
        d['dom.ns-not-star'] = c.a.namespace != c13.STAR
        return d
    wf = lambda c: wellformed_event(c.a.data)
    bad = lambda c: z3.Not(wellformed_event(c.a.data))
    conf = lambda c: confined(c, c.pre, c.post, c.a.sid, c.a.eio_sid)
    return Contract(
        target=target, schema=world, self_obj='server',
        params={'server': ('obj', 'server'), 'sid': 'V', 'eio_sid': 'V', 'data': 'V', 'namespace': 'V', 'id': 'V'},
        requires=req,
        cases=[Case('handled', when=wf, post=lambda c: event_effect(c, c.pre, c.post, c.a.sid, c.a.eio_sid, c.a.data, c.a.namespace, c.a.id, names)),
               Case('handler-raises', when=wf, kind='raise', exc='Exception',
                    post=lambda c: event_effect(c, c.pre, c.post, c.a.sid, c.a.eio_sid, c.a.data, c.a.namespace, c.a.id, names, raised=True)),
               Case('malformed-payload', when=bad, post=conf),
               Case('malformed-payload.raises', when=bad, kind='raise', exc='Exception', post=conf, implicit_ok=True)],
        modifies=[DISP, OUT, ('g', 'raw'), CALLS], props=['C05', 'C02'],
        must_fail=lambda c: {'handled:claims-no-ack-ever': c.post.get(*OUT).c['.len'][c.a.eio_sid] == c.pre.get(*OUT).c['.len'][c.a.eio_sid]})


def client_of(st, eio, ns):
    """the session id that (transport eio, namespace ns) maps to, when a client is connected there"""
    return owner(st, ns, eio)


def handle_event_contract(world, target):
    names = c13.SERVER_RESERVED

    def req(c):
        d = dict(c13.handlers_ok(c.pre, 'server'))
        d.update(inv_m(c.pre))
        d['dom.event-name-not-star'] = z3.Implies(wellformed_event(c.a.data), smt.vseq(c.a.data)[0] != c13.STAR)
        d['dom.ns-not-star'] = eff_ns(c.a.namespace) != c13.STAR
        return d

    def is_conn0(c):
        ns = eff_ns(c.a.namespace)
        s = client_of(c.pre, c.a.eio_sid, ns)
        return z3.And(is_owner(c.pre, ns, c.a.eio_sid), connected(c.pre, ns, s))

    def is_conn(c):
        return z3.And(is_conn0(c), wellformed_event(c.a.data))

    def conf(c):
        ns = eff_ns(c.a.namespace)
        return confined(c, c.pre, c.post, client_of(c.pre, c.a.eio_sid, ns), c.a.eio_sid)
    bad = lambda c: z3.Not(wellformed_event(c.a.data))

    def eff(raised):
        def post(c):
            ns = eff_ns(c.a.namespace)
            return event_effect(c, c.pre, c.post, client_of(c.pre, c.a.eio_sid, ns), c.a.eio_sid, c.a.data, ns, c.a.id, names, raised=raised)
        return post

    def handled_or_contained(c):
        # with async_handlers the handler runs in a background task: an exception it raises stays there
        from pyvc.model import sv_equiv
        ns = eff_ns(c.a.namespace)
        a = event_effect(c, c.pre, c.post, client_of(c.pre, c.a.eio_sid, ns), c.a.eio_sid, c.a.data, ns, c.a.id, names)
        b = event_effect(c, c.pre, c.post, client_of(c.pre, c.a.eio_sid, ns), c.a.eio_sid, c.a.data, ns, c.a.id, names, raised=True)
        return {'one-invocation-one-ack': z3.Or(z3.And(*a.values()), z3.And(c.pre.get('server', 'async_handlers').leaf(), *b.values()))}
    from pyvc.model import sv_equiv
    return Contract(
        target=target, schema=world, self_obj='server',
        params={'eio_sid': 'V', 'namespace': 'V', 'id': 'V', 'data': 'V'},
        requires=req,
        cases=[Case('connected', when=is_conn, post=handled_or_contained),
               Case('connected.handler-raises', when=lambda c: z3.And(is_conn(c), z3.Not(c.pre.get('server', 'async_handlers').leaf())),
                    kind='raise', exc='Exception', post=eff(True)),
               Case('not-connected', when=lambda c: z3.And(z3.Not(is_conn0(c)), wellformed_event(c.a.data)),
                    post=lambda c: {'nothing-invoked': sv_equiv(c.post.get(*DISP), c.pre.get(*DISP)),
                                    'not-answered': sv_equiv(c.post.get(*OUT), c.pre.get(*OUT))}),
               Case('malformed-payload', when=bad, post=conf),
               Case('malformed-payload.raises', when=bad, kind='raise', exc='Exception', post=conf, implicit_ok=True)],
        modifies=[DISP, OUT, ('g', 'raw'), CALLS], props=['C05', 'C12'],
        must_fail=lambda c: {'not-connected:claims-a-dispatch': c.post.get(*DISP).c['len'] == c.pre.get(*DISP).c['len'] + 1})


def handle_ack_contract(world, target):
    def req(c):
        d = dict(inv_m(c.pre))
        d.update(cb_ok(c.pre))
        d['id-came-off-the-wire'] = wire_value(c.a.id)
        return d

    def sid_of(c):
        return client_of(c.pre, c.a.eio_sid, eff_ns(c.a.namespace))

    def known(c):
        ns = eff_ns(c.a.namespace)
        return z3.And(is_owner(c.pre, ns, c.a.eio_sid), outstanding(c.pre, sid_of(c), c.a.id))

    def invoked(c):
        sid, id_ = sid_of(c), c.a.id
        pre, post_ = c.pre.get(*CALLS), c.post.get(*CALLS)
        s, k = z3.Consts('q_s q_k', V)
        args = PySeq([View(smt.vseq(c.a.data), z3.IntVal(0), smt.vlen(c.a.data))], 'tuple')
        return {'callback-invoked-once': log_grew(pre, post_, 1),
                'the-acknowledging-clients-own-callback-with-the-acknowledged-arguments': entry_is(c, post_, pre.c['len'], fn=cb_val(c.pre, sid, id_), args=args),
                'used-up': z3.Not(cb_present(c.post, sid, id_)),
                'others-kept': z3.ForAll([s, k], z3.Implies(z3.Not(z3.And(s == sid, k == id_)),
                                                            z3.And(cb_present(c.post, s, k) == cb_present(c.pre, s, k), cb_val(c.post, s, k) == cb_val(c.pre, s, k))))}
    return Contract(
        target=target, schema=world, self_obj='server',
        params={'eio_sid': 'V', 'namespace': 'V', 'id': 'V', 'data': 'V'},
        requires=req,
        cases=[Case('outstanding-for-this-client', when=known, post=invoked),
               Case('outstanding-for-this-client.callback-raises', when=known, kind='raise', exc='Exception', post=invoked),
               Case('unknown-used-or-foreign-id', when=lambda c: z3.Not(known(c)), update=lambda c: None)],
        modifies=[('manager', 'callbacks'), CALLS], props=['C06', 'C12'],
        must_fail=lambda c: {'outstanding-for-this-client:claims-kept': cb_present(c.post, sid_of(c), c.a.id)})


def register(reg):
    reg.add(handle_event_contract(worlds.SERVER, 'server.Server._handle_event'))
    reg.add(handle_event_contract(worlds.ASYNC_SERVER, 'async_server.AsyncServer._handle_event'))
    reg.add(handle_ack_contract(worlds.SERVER, 'server.Server._handle_ack'))
    reg.add(handle_ack_contract(worlds.ASYNC_SERVER, 'async_server.AsyncServer._handle_ack'))
    reg.add(handle_event_internal_contract(worlds.SERVER, 'server.Server._handle_event_internal'))
    reg.add(handle_event_internal_contract(worlds.ASYNC_SERVER, 'async_server.AsyncServer._handle_event_internal'))
