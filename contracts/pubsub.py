"""Pub/sub managers (C07, C15): every operation either applies locally through the single-host manager or publishes one
message with the documented fields; the listener applies messages of other hosts, never its own, and survives anything."""
import z3
from pyvc import smt
from pyvc.smt import V, B, I, NONE, atom
from pyvc.contract import Contract, Case, LoopSpec, delegated
from pyvc.dsl import A, log_grew, log_append
from pyvc.model import sv_equiv, Leaf, LogT
from pyvc.vals import S, PySeq, Fixed, View, Raised, Exc
from . import worlds
from .views import connected, inv_m, cb_ok, issued_ok, COUNTER
from .server_events import SLASH
from .manager import empty_kwargs

PUB = ('g', 'pub')
HOST = ('manager', 'host_id')


def pubsub_world(name, server_cls, manager_cls):
    w = worlds.server_world(name, server_cls, manager_cls)
    w.fields[('manager', 'host_id')] = Leaf('V')
    w.fields[('manager', 'write_only')] = Leaf('V')
    w.fields[('g', 'pub')] = LogT({'msg': 'V'})
    w.pubsub = True
    return w


PS = pubsub_world('pubsub', ('server', 'Server'), ('pubsub_manager', 'PubSubManager'))
APS = pubsub_world('async_pubsub', ('async_server', 'AsyncServer'), ('async_pubsub_manager', 'AsyncPubSubManager'))


def publish_model(eng, ctx, args, kwargs):
    """_publish(message): the message is put on the channel (ghost log g.pub); the channel is an ordered reliable broadcast"""
    eng.ext.note('pub/sub backend: _publish(m) appends m to the ordered, reliable broadcast channel')
    (m,) = args.items()

    class C:
        pass
    C.eng, C.ctx = eng, ctx
    log_append(C, 'g', 'pub', msg=S(eng.to_v(ctx, m)))
    yield ctx, S(NONE)


def listen_model(eng, ctx, args, kwargs):
    """_listen(): an arbitrary finite sequence of arbitrary values, or the backend raises"""
    eng.ext.note('pub/sub backend: _listen() yields arbitrary values (bytes, str, dict, anything) and may raise at any point')
    c2 = ctx.fork()
    v = smt.fresh('channel', V)
    ctx.assume(smt.kind(v) == smt.K_LIST)
    yield ctx, S(v)
    ex = Exc('AppException', [])
    yield c2, Raised(ex)


def install(ext, schema):
    if getattr(schema, 'pubsub', False):
        for m_, c_ in (('pubsub_manager', 'PubSubManager'), ('async_pubsub_manager', 'AsyncPubSubManager')):
            ext.overrides['%s.%s._publish' % (m_, c_)] = publish_model
            ext.overrides['%s.%s._listen' % (m_, c_)] = listen_model


def msg_is(m, **fields):
    """m is a dict message with exactly these fields"""
    parts = [smt.kind(m) == smt.K_DICT, smt.vlen(m) == len(fields)]
    for k, v in fields.items():
        parts.append(z3.And(smt.vhas(m, A(k)), smt.vget(m, A(k)) == v))
    return z3.And(*parts)


def published_one(c, **fields):
    p0, p1 = c.pre.get(*PUB), c.post.get(*PUB)
    return z3.And(log_grew(p0, p1, 1), msg_is(p1.c['msg'][p0.c['len']], **fields))


def nothing_published(c):
    return sv_equiv(c.post.get(*PUB), c.pre.get(*PUB))


def own(c):
    return c.pre.get(*HOST).leaf()


def base_req(c):
    d = dict(inv_m(c.pre))
    d.update(cb_ok(c.pre))
    d.update(issued_ok(c.pre))
    d['host-id-set'] = z3.And(own(c) != NONE, smt.truthy(own(c)))
    from . import c13
    d.update(c13.handlers_ok(c.pre, 'server'))
    return d


def eff(ns):
    return z3.If(smt.truthy(ns), ns, SLASH)


def room_op_contract(world, target, op, base_suffix):
    """enter_room / leave_room: applied here if the client is connected here, otherwise published for the host that owns it"""
    here = lambda c: connected(c.pre, c.a.namespace, c.a.sid)
    params = {'sid': 'V', 'namespace': 'V', 'room': 'V'}
    if op == 'enter_room':
        params['eio_sid'] = 'V'

    def applied(c):
        exp = dict(sid=c.a.sid, namespace=c.a.namespace, room=c.a.room)
        d = delegated(c, base_suffix, exp, 'return', allow_before=('.is_connected',))
        d['nothing-published'] = nothing_published(c)
        return d

    def relayed(c):
        return {'one-message-for-the-owning-host': published_one(c, method=A(op), sid=c.a.sid, room=c.a.room, namespace=eff(c.a.namespace), host_id=own(c)),
                'nothing-applied-here': sv_equiv(c.post.get('manager', 'rooms'), c.pre.get('manager', 'rooms'))}
    return Contract(
        target=target, schema=world, self_obj='manager', params=params,
        requires=lambda c: dict(base_req(c), **({'application-call': c.a.eio_sid == NONE} if op == 'enter_room' else {})),
        cases=[Case('client-is-here', when=here, post=applied),
               Case('client-is-here.rejected', when=here, kind='raise', exc='Exception', post=lambda c: {'nothing-published': nothing_published(c)}),
               Case('client-is-elsewhere', when=lambda c: z3.Not(here(c)), post=relayed)],
        modifies=[('manager', 'rooms'), PUB], props=['C07'],
        must_fail=lambda c: {'client-is-elsewhere:claims-nothing-published': nothing_published(c)})


def handle_room_op_contract(world, target, op, base_suffix):
    """_handle_enter_room / _handle_leave_room: a message from another host is applied only where the client lives"""
    sid = lambda c: z3.If(smt.vhas(c.a.message, A('sid')), smt.vget(c.a.message, A('sid')), NONE)
    ns = lambda c: z3.If(smt.vhas(c.a.message, A('namespace')), smt.vget(c.a.message, A('namespace')), NONE)
    room = lambda c: z3.If(smt.vhas(c.a.message, A('room')), smt.vget(c.a.message, A('room')), NONE)
    here = lambda c: connected(c.pre, ns(c), sid(c))
    return Contract(
        target=target, schema=world, self_obj='manager', params={'message': 'V'},
        requires=lambda c: dict(base_req(c), **{'message-is-a-dict': smt.kind(c.a.message) == smt.K_DICT}),
        cases=[Case('client-is-here', when=here, post=lambda c: dict(delegated(c, base_suffix, dict(sid=sid(c), namespace=ns(c), room=room(c)), 'return', allow_before=('.is_connected',)),
                                                                      **{'nothing-published': nothing_published(c)})),
               Case('client-is-here.rejected', when=here, kind='raise', exc='Exception', post=lambda c: {}),
               Case('client-is-elsewhere', when=lambda c: z3.Not(here(c)), update=lambda c: None)],
        modifies=[('manager', 'rooms'), PUB], props=['C07', 'C15'], thin=True)


def close_room_contract(world, target, handle_suffix):
    def post(c):
        d = delegated(c, 'basic_close_room', dict(room=c.a.room, namespace=eff(c.a.namespace)), 'return', changed_after=[PUB])
        d['then-published-for-the-other-hosts'] = published_one(c, method=A('close_room'), room=c.a.room, namespace=eff(c.a.namespace), host_id=own(c))
        return d
    return Contract(
        target=target, schema=world, self_obj='manager', params={'room': 'V', 'namespace': 'V'},
        requires=base_req, cases=[Case('closes-everywhere', post=post), Case('rejected', kind='raise', exc='Exception', post=lambda c: {})],
        modifies=[('manager', 'rooms'), PUB], props=['C07'])


def handle_close_room_contract(world, target, base_suffix):
    room = lambda c: z3.If(smt.vhas(c.a.message, A('room')), smt.vget(c.a.message, A('room')), NONE)
    ns = lambda c: z3.If(smt.vhas(c.a.message, A('namespace')), smt.vget(c.a.message, A('namespace')), NONE)
    return Contract(
        target=target, schema=world, self_obj='manager', params={'message': 'V'},
        requires=lambda c: dict(base_req(c), **{'message-is-a-dict': smt.kind(c.a.message) == smt.K_DICT}),
        cases=[Case('applied', post=lambda c: delegated(c, base_suffix, dict(room=room(c), namespace=ns(c)), 'return')),
               Case('rejected', kind='raise', exc='Exception', post=lambda c: {})],
        modifies=[('manager', 'rooms')], props=['C07', 'C15'], thin=True)


def handle_callback_contract(world, target, base_suffix):
    m = lambda c: c.a.message
    mine = lambda c: z3.And(smt.vhas(m(c), A('host_id')), smt.vget(m(c), A('host_id')) == own(c))
    complete = lambda c: z3.And(mine(c), smt.vhas(m(c), A('sid')), smt.vhas(m(c), A('id')), smt.vhas(m(c), A('args')))
    return Contract(
        target=target, schema=world, self_obj='manager', params={'message': 'V'},
        requires=lambda c: dict(base_req(c), **{'message-is-a-dict': smt.kind(c.a.message) == smt.K_DICT,
                                                'ids-on-the-channel-are-plain-values': smt.kind(smt.vget(c.a.message, A('id'))) != smt.K_OTHER}),
        cases=[Case('addressed-to-this-host', when=complete,
                    post=lambda c: delegated(c, base_suffix, dict(sid=smt.vget(m(c), A('sid')), id=smt.vget(m(c), A('id'))), 'return')),
               Case('addressed-to-this-host.callback-raises', when=complete, kind='raise', exc='Exception', post=lambda c: {}),
               Case('for-another-host-or-incomplete', when=lambda c: z3.Not(complete(c)), update=lambda c: None)],
        modifies=[('manager', 'callbacks'), ('g', 'calls')], props=['C07', 'C15'], thin=True,
        must_fail=lambda c: {'addressed-to-this-host:claims-no-call': z3.BoolVal(len([n for n in c.ctx.notes if n[0] == 'called']) == 0)})


def return_callback_contract(world, target, base_suffix):
    args_box = lambda c: c.eng.to_v(c.ctx, c.vals['args'])
    local = lambda c: c.a.host_id == own(c)
    return Contract(
        target=target, schema=world, self_obj='manager',
        params={'host_id': 'V', 'sid': 'V', 'namespace': 'V', 'callback_id': 'V', 'args': ('seq', 'tuple')},
        requires=lambda c: dict(base_req(c), **{'callback-id-is-a-plain-value': smt.kind(c.a.callback_id) != smt.K_OTHER}),
        cases=[Case('issued-here', when=local, post=lambda c: dict(delegated(c, base_suffix, dict(sid=c.a.sid, id=c.a.callback_id), 'return'),
                                                                     **{'nothing-published': nothing_published(c)})),
               Case('issued-here.callback-raises', when=local, kind='raise', exc='Exception', post=lambda c: {}),
               Case('issued-elsewhere', when=lambda c: z3.Not(local(c)),
                    post=lambda c: {'acknowledgement-relayed-to-the-issuer': published_one(c, method=A('callback'), host_id=c.a.host_id, sid=c.a.sid,
                                                                                        namespace=c.a.namespace, id=c.a.callback_id, args=args_box(c)),
                                    'no-local-callback-completed': sv_equiv(c.post.get('manager', 'callbacks'), c.pre.get('manager', 'callbacks'))})],
        modifies=[('manager', 'callbacks'), ('g', 'calls'), PUB], props=['C07'], thin=True)


def register(reg):
    for w, m_, c_, base in ((PS, 'pubsub_manager', 'PubSubManager', 'Manager'), (APS, 'async_pubsub_manager', 'AsyncPubSubManager', 'AsyncManager')):
        t = '%s.%s.' % (m_, c_)
        reg.add(room_op_contract(w, t + 'enter_room', 'enter_room', 'basic_enter_room'))
        reg.add(room_op_contract(w, t + 'leave_room', 'leave_room', 'basic_leave_room'))
        reg.add(handle_room_op_contract(w, t + '_handle_enter_room', 'enter_room', 'basic_enter_room'))
        reg.add(handle_room_op_contract(w, t + '_handle_leave_room', 'leave_room', 'basic_leave_room'))
        reg.add(handle_close_room_contract(w, t + '_handle_close_room', 'basic_close_room'))
        reg.add(close_room_contract(w, t + 'close_room', '_handle_close_room'))
        reg.add(handle_callback_contract(w, t + '_handle_callback', 'trigger_callback'))
        reg.add(return_callback_contract(w, t + '_return_callback', 'trigger_callback'))


# ============================================================================ emit / disconnect / listener
def kw_ignore_queue(eng, ctx, name):
    """**kwargs carrying an arbitrary ignore_queue value"""
    return ctx.alloc('map', {atom('ignore_queue'): S(z3.Const('p_ignore_queue', V))})


IQ = z3.Const('p_ignore_queue', V)


def emit_contract(world, target, base_suffix):
    from .views import outstanding, cb_val
    room_of = lambda c: z3.If(smt.truthy(c.a.to), c.a.to, c.a.room)
    direct = lambda c: smt.truthy(IQ)
    queued = lambda c: z3.Not(smt.truthy(IQ))

    def direct_post(c):
        return dict(delegated(c, base_suffix, dict(event=c.a.event, data=c.a.data, namespace=c.a.namespace, room=room_of(c), skip_sid=c.a.skip_sid, callback=c.a.callback), 'return'),
                    **{'nothing-published': nothing_published(c)})

    def queued_post(with_cb):
        def post(c):
            ns = eff(c.a.namespace)
            p0, p1 = c.pre.get(*PUB), c.post.get(*PUB)
            m = p1.c['msg'][p0.c['len']]
            d = delegated(c, base_suffix, dict(event=c.a.event, data=c.a.data, namespace=ns, room=room_of(c), skip_sid=c.a.skip_sid), 'return',
                          allow_before=('._generate_ack_id',), changed_before=[('manager', 'callbacks'), ('manager', 'ack_next')], changed_after=[PUB])
            d['applied-locally-exactly-once-then-published'] = log_grew(p0, p1, 1)
            tok = smt.vget(m, A('callback'))
            fields = z3.And(smt.kind(m) == smt.K_DICT, smt.vlen(m) == 8,
                            *[z3.And(smt.vhas(m, A(k)), smt.vget(m, A(k)) == v) for k, v in dict(method=A('emit'), event=c.a.event, data=c.a.data, namespace=ns,
                                                                                                room=room_of(c), skip_sid=c.a.skip_sid, host_id=own(c)).items()],
                            smt.vhas(m, A('callback')))
            d['message-fields'] = fields
            if with_cb:
                rid = smt.vseq(tok)[2]
                d['callback-token-names-room-namespace-and-a-fresh-id'] = z3.And(smt.kind(tok) == smt.K_TUPLE, smt.vlen(tok) == 3, smt.vseq(tok)[0] == room_of(c), smt.vseq(tok)[1] == ns,
                                                                              outstanding(c.post, room_of(c), rid), cb_val(c.post, room_of(c), rid) == c.a.callback,
                                                                              z3.Not(outstanding(c.pre, room_of(c), rid)))
            else:
                d['no-callback-token'] = tok == NONE
            return d
        return post
    has_cb = lambda c: c.a.callback != NONE
    return Contract(
        target=target, schema=world, self_obj='manager',
        params={'event': 'V', 'data': 'V', 'namespace': 'V', 'room': 'V', 'skip_sid': 'V', 'callback': 'V', 'to': 'V', 'kwargs': kw_ignore_queue},
        requires=lambda c: dict(base_req(c), **{'callback-is-a-callable-or-none': z3.Implies(c.a.callback != NONE, z3.And(smt.truthy(c.a.callback), c.a.callback != COUNTER))}),
        cases=[Case('ignore-queue', when=direct, post=direct_post),
               Case('queued.no-callback', when=lambda c: z3.And(queued(c), z3.Not(has_cb(c))), post=queued_post(False)),
               Case('queued.callback-without-room', when=lambda c: z3.And(queued(c), has_cb(c), room_of(c) == NONE), kind='raise', exc='ValueError', update=lambda c: None),
               Case('queued.callback', when=lambda c: z3.And(queued(c), has_cb(c), room_of(c) != NONE), post=queued_post(True))],
        modifies=[('g', 'out'), ('g', 'raw'), ('manager', 'callbacks'), ('manager', 'ack_next'), PUB], props=['C07'],
        must_fail=lambda c: {'queued.no-callback:claims-nothing-published': nothing_published(c)})


def listener_contract(world, target):
    """C15: whatever arrives, the listener goes on; its own messages are not re-applied; callback messages for other hosts
    complete nothing.  The body of the for loop is executed for an ARBITRARY message value."""
    HANDLERS = ('._handle_emit', '._handle_disconnect', '._handle_enter_room', '._handle_leave_room', '._handle_close_room', 'basic_enter_room',
                'basic_leave_room', 'basic_close_room', 'Manager.emit', 'Server.disconnect', 'AsyncServer.disconnect')

    def inv_messages(lc):
        # evaluated at the end of the body for one arbitrary message: what was called in this iteration
        calls = [n for n in lc.ctx.notes if n[0] == 'called' and n[1].endswith(HANDLERS)]
        cbs = []
        data = lc.ctx.lookup('data')
        d = {}
        if lc.label == 'step' and data is not None and isinstance(data, S) and data.sort == 'V':
            m = data.t
            mine = z3.And(smt.kind(m) == smt.K_DICT, smt.vhas(m, A('host_id')), smt.vget(m, A('host_id')) == lc.entry.get(*HOST).leaf())
            if calls:
                d['own-messages-are-never-re-applied'] = z3.Not(mine)
            if cbs:
                d['acknowledgements-for-other-hosts-complete-nothing'] = mine
        return d
    return Contract(
        target=target, schema=world, self_obj='manager', params={},
        requires=lambda c: dict(base_req(c), **{'dom.own-host-id-is-a-string': smt.kind(own(c)) == smt.K_STR}),
        cases=[Case('listen-ended', post=lambda c: {}),
               Case('an-exception-stops-the-listener', kind='raise', exc='Exception', forbid=True)],
        abstract_calls=('._handle_emit', '._handle_disconnect', '._handle_enter_room', '._handle_leave_room', '._handle_close_room', '._handle_callback'),
        loops={0: LoopSpec(lambda lc: {}, mod_state=[('manager', 'rooms'), ('manager', 'callbacks'), ('manager', 'ack_next'), ('manager', 'pending_disconnect'),
                                                    ('g', 'out'), ('g', 'raw'), ('g', 'calls'), ('g', 'disp'), PUB]),
               1: LoopSpec(inv_messages, mod_vars=['data'], mod_state=[('manager', 'rooms'), ('manager', 'callbacks'), ('manager', 'ack_next'),
                                                                         ('manager', 'pending_disconnect'), ('g', 'out'), ('g', 'raw'), ('g', 'calls'), ('g', 'disp'), PUB],
                           kinds={'data': 'V'})},
        modifies=[('manager', 'rooms'), ('manager', 'callbacks'), ('manager', 'ack_next'), ('manager', 'pending_disconnect'), ('g', 'out'), ('g', 'raw'),
                  ('g', 'calls'), ('g', 'disp'), PUB], props=['C15'])


_reg_a = register


def register(reg):
    _reg_a(reg)
    for w, m_, c_, base in ((PS, 'pubsub_manager', 'PubSubManager', 'Manager.emit'), (APS, 'async_pubsub_manager', 'AsyncPubSubManager', 'AsyncManager.emit')):
        t = '%s.%s.' % (m_, c_)
        reg.add(emit_contract(w, t + 'emit', base))
        reg.add(listener_contract(w, t + '_thread'))


# ============================================================================ disconnect family and _handle_emit
def handle_disconnect_contract(world, target, server_suffix):
    m = lambda c: c.a.message
    g = lambda c, k: z3.If(smt.vhas(m(c), A(k)), smt.vget(m(c), A(k)), NONE)
    return Contract(
        target=target, schema=world, self_obj='manager', params={'message': 'V'},
        requires=lambda c: dict(base_req(c), **{'message-is-a-dict': smt.kind(c.a.message) == smt.K_DICT}),
        cases=[Case('asks-the-server', post=lambda c: delegated(c, server_suffix, dict(sid=g(c, 'sid'), namespace=g(c, 'namespace')), 'return')),
               Case('handler-raises', kind='raise', exc='Exception', post=lambda c: {})],
        modifies=[('manager', 'rooms'), ('manager', 'callbacks'), ('manager', 'pending_disconnect'), ('g', 'disp'), ('g', 'calls'), ('g', 'out'), ('g', 'raw')],
        props=['C07', 'C15'], thin=True)


def handle_emit_contract(world, target, base_suffix):
    m = lambda c: c.a.message
    g = lambda c, k: z3.If(smt.vhas(m(c), A(k)), smt.vget(m(c), A(k)), NONE)

    def applied_emit(c):
        d = delegated(c, base_suffix, dict(event=smt.vget(m(c), A('event')), data=smt.vget(m(c), A('data')), namespace=g(c, 'namespace'),
                                           room=g(c, 'room'), skip_sid=g(c, 'skip_sid')), 'return')
        # the acknowledgement goes back to the host named in the message (and to nobody when it names none): the local callback is
        # _return_callback bound to exactly that host id and to the callback triple of the message
        calls = [n for n in c.ctx.notes if n[0] == 'called' and n[1].endswith(base_suffix)]
        if len(calls) == 1:
            cb = c.ctx.lookup('callback')          # the local the body passes as callback= (the call-site value is boxed)
            from pyvc.vals import Fn
            if isinstance(cb, Fn) and cb.kind == 'partial':
                items = cb.args.items() if cb.args.fixed_len() is not None else None
                first = c.eng.seq_at(c.ctx, cb.args, z3.IntVal(0))
                d['acknowledgement-relayed-to-the-host-the-message-names'] = z3.And(
                    z3.BoolVal(isinstance(cb.func, Fn) and getattr(cb.func, 'name', '') == '_return_callback'), first == g(c, 'host_id'))
            elif isinstance(cb, S):
                d['no-callback-unless-the-message-carries-one'] = cb.t == NONE
            else:
                d['callback-is-the-relay-or-none'] = z3.BoolVal(False)
        return d
    wf = lambda c: z3.And(smt.vhas(m(c), A('event')), smt.vhas(m(c), A('data')))
    return Contract(
        target=target, schema=world, self_obj='manager', params={'message': 'V'},
        requires=lambda c: dict(base_req(c), **{'message-is-a-dict': smt.kind(c.a.message) == smt.K_DICT}),
        cases=[Case('applies-the-emit-to-the-local-clients', when=wf, post=lambda c: applied_emit(c)),
               Case('incomplete-message', when=lambda c: z3.Not(wf(c)), kind='raise', exc='Exception', update=lambda c: None, implicit_ok=True),
               Case('callback-field-of-the-wrong-type', when=lambda c: z3.And(smt.vhas(m(c), A('callback')), smt.vget(m(c), A('callback')) != NONE),
                    kind='raise', exc='TypeError', update=lambda c: None),
               Case('rejected', when=wf, kind='raise', exc='Exception', post=lambda c: {})],
        modifies=[('g', 'out'), ('g', 'raw'), ('manager', 'callbacks'), ('manager', 'ack_next')], props=['C07', 'C15'], thin=True)


def disconnect_contract(world, target, server_suffix, base_suffix):
    direct = lambda c: smt.truthy(IQ)

    def queued_post(c):
        d = delegated(c, server_suffix, dict(sid=c.a.sid, namespace=eff(c.a.namespace)), 'return', changed_after=[PUB])
        d['then-published'] = published_one(c, method=A('disconnect'), sid=c.a.sid, namespace=eff(c.a.namespace), host_id=own(c))
        return d
    return Contract(
        target=target, schema=world, self_obj='manager', params={'sid': 'V', 'namespace': 'V', 'kwargs': kw_ignore_queue},
        requires=base_req,
        cases=[Case('ignore-queue', when=direct, post=lambda c: dict(delegated(c, base_suffix, dict(sid=c.a.sid, namespace=c.a.namespace), 'return'),
                                                                     **{'nothing-published': nothing_published(c)})),
               Case('queued', when=lambda c: z3.Not(direct(c)), post=queued_post),
               Case('queued.handler-raises', when=lambda c: z3.Not(direct(c)), kind='raise', exc='Exception', post=lambda c: {})],
        modifies=[('manager', 'rooms'), ('manager', 'callbacks'), ('manager', 'pending_disconnect'), ('g', 'disp'), ('g', 'calls'), ('g', 'out'), ('g', 'raw'), PUB],
        props=['C07'])


_reg_b = register


def register(reg):
    _reg_b(reg)
    for w, m_, c_, base, srv in ((PS, 'pubsub_manager', 'PubSubManager', 'Manager.emit', 'Server.disconnect'),
                                 (APS, 'async_pubsub_manager', 'AsyncPubSubManager', 'AsyncManager.emit', 'AsyncServer.disconnect')):
        t = '%s.%s.' % (m_, c_)
        reg.add(handle_disconnect_contract(w, t + '_handle_disconnect', srv))
        reg.add(handle_emit_contract(w, t + '_handle_emit', base))
        reg.add(disconnect_contract(w, t + 'disconnect', srv, 'basic_disconnect'))
