"""The packet codec world (C01, C12): the Packet methods verified against the summaries that the rest of the code uses.

Spec functions over payload trees (uninterpreted, with their defining equations as hypotheses):
  nb(v)      number of bytes leaves of v     -- has_binary(v) := nb(v) > 0
  off(v, i)  prefix sum of nb over the first i items of a list; doff likewise over the values of a dict
The two facts about prefix sums that the solver cannot derive (they need induction) are proved in lemmas/Lemmas.lean
(off_pos_iff) and assumed here."""
import z3
from pyvc import smt
from pyvc.smt import V, B, I, NONE
from pyvc.contract import Contract, Case
from pyvc.dsl import fget, fset, fv
from pyvc.model import Schema
from pyvc.vals import S, PySeq, Fixed, View
from .packet_summary import has_binary, nb_facts, packet_param, add_attachment_summary, reconstructed, dec_count

CODEC = Schema('packet-codec')
nb = z3.Function('nb', V, I)
off = z3.Function('off', V, I, I)
doff = z3.Function('doff', V, I, I)
EVENT, ACK, BINARY_EVENT, BINARY_ACK = 2, 3, 5, 6


def tree_axioms(v):
    """defining equations of nb/off/doff instantiated for the value v, plus off_pos_iff (Lean) for v"""
    j, n = z3.Ints('tx_j tx_n')
    x = z3.Const('tx_x', V)
    ax = {
        'assume:has_binary(v) := nb(v) > 0': z3.ForAll([x], has_binary(x) == (nb(x) > 0)),
        'assume:nb-definition': z3.And(
            nb(v) >= 0,
            z3.Implies(smt.kind(v) == smt.K_BYTES, nb(v) == 1),
            z3.Implies(smt.kind(v) == smt.K_LIST, nb(v) == off(v, smt.vlen(v))),
            z3.Implies(smt.kind(v) == smt.K_DICT, nb(v) == doff(v, smt.dlen(v))),
            z3.Implies(z3.Not(z3.Or(smt.kind(v) == smt.K_BYTES, smt.kind(v) == smt.K_LIST, smt.kind(v) == smt.K_DICT)), nb(v) == 0)),
        'assume:off_pos_iff(list) [lemmas/Lemmas.lean]': z3.And(
            z3.Implies(off(v, smt.vlen(v)) > 0, z3.Exists([j], z3.And(j >= 0, j < smt.vlen(v), nb(smt.vseq(v)[j]) > 0))),
            z3.ForAll([j], z3.Implies(z3.And(j >= 0, j < smt.vlen(v), nb(smt.vseq(v)[j]) > 0), off(v, smt.vlen(v)) > 0))),
        'assume:off_pos_iff(dict values) [lemmas/Lemmas.lean]': z3.And(
            z3.Implies(doff(v, smt.dlen(v)) > 0, z3.Exists([j], z3.And(j >= 0, j < smt.dlen(v), nb(smt.dval(v)[j]) > 0))),
            z3.ForAll([j], z3.Implies(z3.And(j >= 0, j < smt.dlen(v), nb(smt.dval(v)[j]) > 0), doff(v, smt.dlen(v)) > 0))),
    }
    return ax


def data_is_binary_contract():
    return Contract(
        target='packet.Packet._data_is_binary', schema=CODEC, self_obj=None, self_rec=lambda eng, ctx: packet_param(eng, ctx, 'self'),
        params={'data': 'V'},
        requires=lambda c: tree_axioms(c.a.data),
        cases=[Case('binary-iff-a-bytes-leaf-exists', result='B',
                    post=lambda c: {'result-is-nb>0': c.eng.truth(c.ctx, c.result) == (nb(c.a.data) > 0)})],
        modifies=[], props=['C01'],
        must_fail=lambda c: {'binary-iff-a-bytes-leaf-exists:claims-never-binary': z3.Not(c.eng.truth(c.ctx, c.result))})


def init_contract():
    def promoted(c):
        t, d_, b_ = c.a.packet_type, c.a.data, c.a.binary
        return z3.And(CFG, z3.Or(smt.truthy(b_), z3.And(b_ == NONE, has_binary(d_))))
    CFG = z3.Const('cfg_uses_binary_events', B)
    is_ev = lambda c: c.a.packet_type == smt.box_int(z3.IntVal(EVENT))
    is_ack = lambda c: c.a.packet_type == smt.box_int(z3.IntVal(ACK))
    plain = lambda c: z3.Not(smt.truthy(c.a.encoded_packet))

    def built(c):
        me = c.vals['self']
        t = c.a.packet_type
        exp_t = z3.If(promoted(c), z3.If(is_ev(c), smt.box_int(z3.IntVal(BINARY_EVENT)), smt.box_int(z3.IntVal(BINARY_ACK))), t)
        return {'type-promoted-exactly-when-binary': fv(c, me, 'packet_type') == exp_t,
                'fields-as-given': z3.And(fv(c, me, 'data') == c.a.data, fv(c, me, 'namespace') == c.a.namespace, fv(c, me, 'id') == c.a.id),
                'no-attachments-yet': z3.And(c.eng.to_i(c.ctx, fget(c, me, 'attachment_count')) == 0,
                                             c.eng.as_seq(c.ctx, fget(c, me, 'attachments')).length() == 0)}
    return Contract(
        target='packet.Packet.__init__', schema=CODEC, self_obj=None, self_rec=lambda eng, ctx: ctx.alloc('rec', {}, cls='socketio.packet.Packet'),
        params={'packet_type': 'V', 'data': 'V', 'namespace': 'V', 'id': 'V', 'binary': 'V', 'encoded_packet': 'V'},
        requires=lambda c: {'binary-flag-is-a-bool-or-none': z3.Or(c.a.binary == NONE, smt.kind(c.a.binary) == smt.K_BOOL)},
        cases=[Case('built', when=lambda c: z3.And(plain(c), z3.Or(z3.Not(promoted(c)), is_ev(c), is_ack(c))), post=built),
               Case('bytes-only-in-events-and-acks', when=lambda c: z3.And(plain(c), promoted(c), z3.Not(is_ev(c)), z3.Not(is_ack(c))),
                    kind='raise', exc='ValueError', post=lambda c: {}),
               Case('decoded', when=lambda c: z3.Not(plain(c)), post=lambda c: {}, group='dec'),
               Case('decoded.rejected', when=lambda c: z3.Not(plain(c)), kind='raise', exc='Exception', post=lambda c: {}, group='decx')],
        modifies=[], props=['C01'],
        must_fail=lambda c: {'built:claims-never-promoted': fv(c, c.vals['self'], 'packet_type') == c.a.packet_type})


def add_attachment_contract():
    k = add_attachment_summary()
    k.trusted = False
    k.schema = CODEC
    k.self_rec = lambda eng, ctx: packet_param(eng, ctx, 'self')
    k.props = ['C01', 'C12']
    k.note = ''
    # domain of the property: the placeholders of a well-formed binary packet are numbered 0 .. attachment_count-1
    k.requires = lambda c: {'dom.placeholders-in-range': wf_ph(fv(c, c.vals['self'], 'data'),
                                                                 c.eng.to_i(c.ctx, fget(c, c.vals['self'], 'attachment_count')))}
    return k


is_recon = z3.Function('is_recon', V, V, V, B)     # is_recon(r, d, A): r is the tree d with every placeholder replaced by A[num]
wf_ph = z3.Function('wf_ph', V, I, B)              # every placeholder of the tree carries an integer num with 0 <= num < n
_PH, _NUM = smt.atom('_placeholder'), smt.atom('num')


def is_ph(d):
    """the test the wire format prescribes for a placeholder object: {"_placeholder": true, "num": k}"""
    return z3.And(smt.vhas(d, _PH), smt.truthy(smt.vget(d, _PH)), smt.vhas(d, _NUM))


def recon_axioms(d, a):
    """defining equations of the spec relation is_recon and of wf_ph, instantiated for the tree d (and every result r)"""
    r = z3.Const('rx_r', V)
    j = z3.Int('rx_j')
    n = smt.vlen(a)
    islist, isdict = smt.kind(d) == smt.K_LIST, smt.kind(d) == smt.K_DICT
    return {
        'assume:is_recon-definition': z3.ForAll([r], is_recon(r, d, a) == z3.And(
            z3.Implies(islist, z3.And(smt.kind(r) == smt.K_LIST, smt.vlen(r) == smt.vlen(d),
                                      z3.ForAll([j], z3.Implies(z3.And(j >= 0, j < smt.vlen(d)), is_recon(smt.vseq(r)[j], smt.vseq(d)[j], a)),
                                                patterns=[smt.vseq(r)[j]]))),
            z3.Implies(z3.And(isdict, is_ph(d)), r == smt.vseq(a)[smt.int_of(smt.vget(d, _NUM))]),
            z3.Implies(z3.And(isdict, z3.Not(is_ph(d))), z3.And(
                smt.kind(r) == smt.K_DICT, smt.dlen(r) == smt.dlen(d),
                z3.ForAll([j], z3.Implies(z3.And(j >= 0, j < smt.dlen(d)),
                                          z3.And(smt.dkey(r)[j] == smt.dkey(d)[j], is_recon(smt.dval(r)[j], smt.dval(d)[j], a))),
                          patterns=[smt.dval(r)[j]]))),
            z3.Implies(z3.Not(z3.Or(islist, isdict)), r == d)), patterns=[is_recon(r, d, a)]),
        # the quantifier-free consequence of the definition below, stated on its own so that path feasibility sees it
        'assume:wf_ph-definition(placeholder case)': z3.Implies(z3.And(wf_ph(d, n), isdict, is_ph(d)), z3.And(
            smt.kind(smt.vget(d, _NUM)) == smt.K_INT, smt.int_of(smt.vget(d, _NUM)) >= 0, smt.int_of(smt.vget(d, _NUM)) < n)),
        'assume:wf_ph-definition': wf_ph(d, n) == z3.And(
            z3.Implies(islist, z3.ForAll([j], z3.Implies(z3.And(j >= 0, j < smt.vlen(d)), wf_ph(smt.vseq(d)[j], n)), patterns=[smt.vseq(d)[j]])),
            z3.Implies(z3.And(isdict, is_ph(d)), z3.And(smt.kind(smt.vget(d, _NUM)) == smt.K_INT, smt.int_of(smt.vget(d, _NUM)) >= 0,
                                                          smt.int_of(smt.vget(d, _NUM)) < n)),
            z3.Implies(z3.And(isdict, z3.Not(is_ph(d))),
                       z3.ForAll([j], z3.Implies(z3.And(j >= 0, j < smt.dlen(d)), wf_ph(smt.dval(d)[j], n)), patterns=[smt.dval(d)[j]]))),
    }


def reconstruct_contract():
    """_reconstruct_binary_internal against the spec relation is_recon (structural induction: the recursive calls are
    replaced by this very contract, on the items of the tree).  Requires that the placeholders are in range (wf_ph): that is
    the well-formed packets of the property; a placeholder out of range raises IndexError in the real code."""
    def req(c):
        d = dict(recon_axioms(c.a.data, c.a.attachments))
        d['attachments-is-a-list'] = smt.kind(c.a.attachments) == smt.K_LIST
        d['placeholders-in-range'] = wf_ph(c.a.data, smt.vlen(c.a.attachments))
        return d
    return Contract(target='packet.Packet._reconstruct_binary_internal', schema=CODEC, self_obj=None,
                    self_rec=lambda eng, ctx: packet_param(eng, ctx, 'self'),
                    params={'data': 'V', 'attachments': 'V'}, requires=req,
                    cases=[Case('rebuilt', result='V',
                                post=lambda c: {'placeholders-replaced-by-the-attachments': is_recon(c.eng.to_v(c.ctx, c.result), c.a.data, c.a.attachments)})],
                    modifies=[], props=['C01', 'C12'],
                    must_fail=lambda c: {'rebuilt:claims-identity': c.eng.to_v(c.ctx, c.result) == c.a.data})


def reconstruct_summary():
    """_reconstruct_binary_internal as its callers (add_attachment, and its own recursive calls) see it: reconstructed(d, A)
    names the value the function returns; what is known about it is the postcondition proved by reconstruct_contract()."""
    def res(c):
        r = reconstructed(c.a.data, c.a.attachments)
        c.ctx.assume(is_recon(r, c.a.data, c.a.attachments))
        return S(r)
    return Contract(target='packet.Packet._reconstruct_binary_internal', schema=CODEC, self_obj=None, params={'data': 'V', 'attachments': 'V'},
                    requires=lambda c: {'attachments-is-a-list': smt.kind(c.a.attachments) == smt.K_LIST,
                                        'placeholders-in-range': wf_ph(c.a.data, smt.vlen(c.a.attachments))},
                    cases=[Case('rebuilt', result=res)], trusted=True,
                    note='proved against the real body in the codec world (C01): reconstruct_contract()')


def register(reg):
    reg.add(data_is_binary_contract(), index=False)
    reg.add(init_contract(), index=False)
    reg.add(add_attachment_contract(), index=False)
    reg.add(reconstruct_contract(), index=False)
    reg.add(reconstruct_summary())
