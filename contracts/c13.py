"""C13 -- handler resolution follows the documented precedence on server and client.

The specification below is written from the property statement (the six targets in order, the prefixes, the
reserved events), not from the code."""
import z3
from pyvc import smt
from pyvc.smt import V, B, NONE, atom
from pyvc.contract import Contract, Case
from pyvc.dsl import A, tup, prepend, first_match, m2, v2, m1, v1, log_append
from pyvc.vals import S, PySeq, Fixed
from . import worlds

STAR = A('*')
SERVER_RESERVED = ['connect', 'disconnect']
CLIENT_RESERVED = ['connect', 'connect_error', 'disconnect']
CLIENT_INTERNAL = ['__disconnect_final']      # internal pseudo-event of the client, outside the property's domain


def reserved(ev, names):
    return z3.Or(*[ev == A(n) for n in names])


def handlers_ok(st, obj):
    """A4: registered handlers are truthy callables (never None)."""
    h = st.get(obj, 'handlers')
    nh = st.get(obj, 'namespace_handlers')
    a, b = z3.Consts('q_ns q_ev', V)
    return {
        'A4.handlers': z3.ForAll([a, b], z3.Implies(m2(h, a, b), z3.And(smt.truthy(v2(h, a, b)), v2(h, a, b) != NONE)),
                                 patterns=[v2(h, a, b)]),
        'A4.namespace_handlers': z3.ForAll([a], z3.Implies(m1(nh, a), z3.And(smt.truthy(v1(nh, a)), v1(nh, a) != NONE)),
                                           patterns=[v1(nh, a)]),
    }


def event_targets(h, ns, ev, is_reserved):
    """The four function targets in the order of the statement: (condition, handler, prefix)."""
    return [
        (m2(h, ns, ev), (v2(h, ns, ev), [])),
        (z3.And(m2(h, ns, STAR), z3.Not(is_reserved)), (v2(h, ns, STAR), [ev])),
        (m2(h, STAR, ev), (v2(h, STAR, ev), [ns])),
        (z3.And(m2(h, STAR, STAR), z3.Not(is_reserved)), (v2(h, STAR, STAR), [ev, ns])),
    ]


def ns_targets(nh, ns):
    return [
        (m1(nh, ns), (v1(nh, ns), [])),
        (m1(nh, STAR), (v1(nh, STAR), [ns])),
    ]


def domain(c, obj, names, internal=()):
    d = {'dom.event-not-star': c.a.event != STAR, 'dom.ns-not-star': c.a.namespace != STAR}
    for n in internal:
        d['dom.event-not-' + n] = c.a.event != A(n)
    d.update(handlers_ok(c.pre, obj))
    return d


def get_event_handler_contract(world, obj, target, names, internal=(), also=()):
    def cases():
        out = []
        labels = ['ns-event', 'ns-catchall', 'catchall-ns-event', 'catchall-ns-catchall']
        for idx, label in enumerate(labels):
            def when(c, idx=idx):
                h = c.pre.get(obj, 'handlers')
                g, _ = first_match(event_targets(h, c.a.namespace, c.a.event, reserved(c.a.event, names)))
                return g[idx][0]

            def result(c, idx=idx):
                h = c.pre.get(obj, 'handlers')
                g, _ = first_match(event_targets(h, c.a.namespace, c.a.event, reserved(c.a.event, names)))
                hv, prefix = g[idx][1]
                return tup(hv, prepend(prefix, c.vals['args'], 'tuple'))
            out.append(Case(label, when=when, result=result))

        def when_none(c):
            h = c.pre.get(obj, 'handlers')
            _, none = first_match(event_targets(h, c.a.namespace, c.a.event, reserved(c.a.event, names)))
            return none
        out.append(Case('none', when=when_none, result=lambda c: tup(NONE, c.vals['args'])))
        return out

    return Contract(
        target=target, schema=world, self_obj=obj, also=also,
        params={'event': 'V', 'namespace': 'V', 'args': ('seq', 'tuple')},
        requires=lambda c: domain(c, obj, names, internal),
        cases=cases(), modifies=[], props=['C13'],
        must_fail=lambda c: {
            'ns-catchall:claims-no-prefix': c.eng.equal(c.ctx, c.result, tup(v2(c.pre.get(obj, 'handlers'), c.a.namespace, STAR), c.vals['args'])),
            'none:claims-a-handler': c.eng.equal(c.ctx, c.result, tup(A('x'), c.vals['args'])),
        })


def get_namespace_handler_contract(world, obj, target, also=()):
    def mk(idx):
        def when(c):
            g, _ = first_match(ns_targets(c.pre.get(obj, 'namespace_handlers'), c.a.namespace))
            return g[idx][0]

        def result(c):
            g, _ = first_match(ns_targets(c.pre.get(obj, 'namespace_handlers'), c.a.namespace))
            hv, prefix = g[idx][1]
            return tup(hv, prepend(prefix, c.vals['args'], 'tuple'))
        return when, result
    cases = []
    for idx, label in enumerate(['ns-class', 'catchall-class']):
        w, r = mk(idx)
        cases.append(Case(label, when=w, result=r))
    cases.append(Case('none', when=lambda c: first_match(ns_targets(c.pre.get(obj, 'namespace_handlers'), c.a.namespace))[1],
                      result=lambda c: tup(NONE, c.vals['args'])))
    return Contract(
        target=target, schema=world, self_obj=obj, also=also,
        params={'namespace': 'V', 'args': ('seq', 'tuple')},
        requires=lambda c: dict({'dom.ns-not-star': c.a.namespace != STAR}, **handlers_ok(c.pre, obj)),
        cases=cases, modifies=[], props=['C13'],
        must_fail=lambda c: {'catchall-class:claims-no-prefix': c.eng.equal(c.ctx, c.result, tup(v1(c.pre.get(obj, 'namespace_handlers'), STAR), c.vals['args']))})


def register(reg):
    reg.add(get_event_handler_contract(worlds.SERVER, 'server', 'base_server.BaseServer._get_event_handler', SERVER_RESERVED))
    reg.add(get_namespace_handler_contract(worlds.SERVER, 'server', 'base_server.BaseServer._get_namespace_handler'))
    reg.add(get_event_handler_contract(worlds.CLIENT, 'client', 'base_client.BaseClient._get_event_handler',
                                       CLIENT_RESERVED + CLIENT_INTERNAL))
    reg.add(get_namespace_handler_contract(worlds.CLIENT, 'client', 'base_client.BaseClient._get_namespace_handler'))
