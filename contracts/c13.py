"""C13 -- handler resolution follows the documented precedence on server and client.

The specification below is written from the property statement (the six targets in order, the prefixes, the
reserved events), not from the code."""
import z3
from pyvc import smt
from pyvc.smt import V, B, NONE, atom
from pyvc.contract import Contract, Case
from pyvc.dsl import A, tup, prepend, first_match, m2, v2, m1, v1, log_append
from pyvc.vals import S, PySeq, Fixed
from . import worlds

STAR = A('*')
SERVER_RESERVED = ['connect', 'disconnect']
CLIENT_RESERVED = ['connect', 'connect_error', 'disconnect']
CLIENT_INTERNAL = ['__disconnect_final']      # internal pseudo-event of the client, outside the property's domain


def reserved(ev, names):
    return z3.Or(*[ev == A(n) for n in names])


def handlers_ok(st, obj):
    """A4: registered handlers are truthy callables (never None)."""
    h = st.get(obj, 'handlers')
    nh = st.get(obj, 'namespace_handlers')
    a, b = z3.Consts('q_ns q_ev', V)
    return {
        'A4.handlers': z3.ForAll([a, b], z3.Implies(m2(h, a, b), z3.And(smt.truthy(v2(h, a, b)), v2(h, a, b) != NONE)),
                                 patterns=[v2(h, a, b)]),
        'A4.namespace_handlers': z3.ForAll([a], z3.Implies(m1(nh, a), z3.And(smt.truthy(v1(nh, a)), v1(nh, a) != NONE)),
                                           patterns=[v1(nh, a)]),
    }


def event_targets(h, ns, ev, is_reserved):
    """The four function targets in the order of the statement: (condition, handler, prefix)."""
    return [
        (m2(h, ns, ev), (v2(h, ns, ev), [])),
        (z3.And(m2(h, ns, STAR), z3.Not(is_reserved)), (v2(h, ns, STAR), [ev])),
        (m2(h, STAR, ev), (v2(h, STAR, ev), [ns])),
        (z3.And(m2(h, STAR, STAR), z3.Not(is_reserved)), (v2(h, STAR, STAR), [ev, ns])),
    ]


def ns_targets(nh, ns):
    return [
        (m1(nh, ns), (v1(nh, ns), [])),
        (m1(nh, STAR), (v1(nh, STAR), [ns])),
    ]


def domain(c, obj, names, internal=()):
    d = {'dom.event-not-star': c.a.event != STAR, 'dom.ns-not-star': c.a.namespace != STAR}
    for n in internal:
        d['dom.event-not-' + n] = c.a.event != A(n)
    d.update(handlers_ok(c.pre, obj))
    return d


def get_event_handler_contract(world, obj, target, names, internal=(), also=()):
    def cases():
        out = []
        labels = ['ns-event', 'ns-catchall', 'catchall-ns-event', 'catchall-ns-catchall']
        for idx, label in enumerate(labels):
            def when(c, idx=idx):
                h = c.pre.get(obj, 'handlers')
                g, _ = first_match(event_targets(h, c.a.namespace, c.a.event, reserved(c.a.event, names)))
                return g[idx][0]

            def result(c, idx=idx):
                h = c.pre.get(obj, 'handlers')
                g, _ = first_match(event_targets(h, c.a.namespace, c.a.event, reserved(c.a.event, names)))
                hv, prefix = g[idx][1]
                return tup(hv, prepend(prefix, c.vals['args'], 'tuple'))
            out.append(Case(label, when=when, result=result))

        def when_none(c):
            h = c.pre.get(obj, 'handlers')
            _, none = first_match(event_targets(h, c.a.namespace, c.a.event, reserved(c.a.event, names)))
            return none
        out.append(Case('none', when=when_none, result=lambda c: tup(NONE, c.vals['args'])))
        return out

    return Contract(
        target=target, schema=world, self_obj=obj, also=also,
        params={'event': 'V', 'namespace': 'V', 'args': ('seq', 'tuple')},
        requires=lambda c: domain(c, obj, names, internal),
        cases=cases(), modifies=[], props=['C13'],
        must_fail=lambda c: {
            'ns-catchall:claims-no-prefix': c.eng.equal(c.ctx, c.result, tup(v2(c.pre.get(obj, 'handlers'), c.a.namespace, STAR), c.vals['args'])),
            'none:claims-a-handler': c.eng.equal(c.ctx, c.result, tup(A('x'), c.vals['args'])),
        })


def get_namespace_handler_contract(world, obj, target, also=()):
    def mk(idx):
        def when(c):
            g, _ = first_match(ns_targets(c.pre.get(obj, 'namespace_handlers'), c.a.namespace))
            return g[idx][0]

        def result(c):
            g, _ = first_match(ns_targets(c.pre.get(obj, 'namespace_handlers'), c.a.namespace))
            hv, prefix = g[idx][1]
            return tup(hv, prepend(prefix, c.vals['args'], 'tuple'))
        return when, result
    cases = []
    for idx, label in enumerate(['ns-class', 'catchall-class']):
        w, r = mk(idx)
        cases.append(Case(label, when=w, result=r))
    cases.append(Case('none', when=lambda c: first_match(ns_targets(c.pre.get(obj, 'namespace_handlers'), c.a.namespace))[1],
                      result=lambda c: tup(NONE, c.vals['args'])))
    return Contract(
        target=target, schema=world, self_obj=obj, also=also,
        params={'namespace': 'V', 'args': ('seq', 'tuple')},
        requires=lambda c: dict({'dom.ns-not-star': c.a.namespace != STAR}, **handlers_ok(c.pre, obj)),
        cases=cases, modifies=[], props=['C13'],
        must_fail=lambda c: {'catchall-class:claims-no-prefix': c.eng.equal(c.ctx, c.result, tup(v1(c.pre.get(obj, 'namespace_handlers'), STAR), c.vals['args']))})


# =========================================================================== _trigger_event
from pyvc.dsl import entry_is, log_grew, drop_last_matches, seq_matches
from pyvc.externals import meth

TRIG = A('trigger_event')


def all_targets(c, obj, names):
    """The six targets of the statement, in order: (condition, callable, argument tuple it must receive)."""
    h = c.pre.get(obj, 'handlers')
    nh = c.pre.get(obj, 'namespace_handlers')
    ev, ns, args = c.a.event, c.a.namespace, c.vals['args']
    out = []
    for cond, (hv, prefix) in event_targets(h, ns, ev, reserved(ev, names)):
        out.append((cond, hv, prepend(prefix, args, 'tuple'), 'fn'))
    for cond, (hv, prefix) in ns_targets(nh, ns):
        out.append((cond, meth(hv, TRIG), prepend([ev] + prefix, args, 'tuple'), 'cls'))
    return out


def has_target(c, obj, names):
    return z3.Or(*[t[0] for t in all_targets(c, obj, names)])


def target_exists(st, obj, ns, ev, names):
    """some handler or class-based namespace is responsible for (ns, ev)"""
    h = st.get(obj, 'handlers')
    nh = st.get(obj, 'namespace_handlers')
    return z3.Or(*([t[0] for t in event_targets(h, ns, ev, reserved(ev, names))] + [t[0] for t in ns_targets(nh, ns)]))


TARGET_LABELS = ['ns-event', 'ns-catchall', 'catchall-ns-event', 'catchall-ns-catchall', 'ns-class', 'catchall-class']


def trigger_event_contract(world, obj, target, names, internal, unhandled_result, also=()):
    def guard(idx):
        def when(c):
            g, _ = first_match([(t[0], t) for t in all_targets(c, obj, names)])
            return g[idx][0]
        return when

    def tgt(c, idx):
        return all_targets(c, obj, names)[idx]

    def one_call(idx, with_result):
        def post(c):
            _, fn, A_, _ = tgt(c, idx)
            pre, post_ = c.pre.get('g', 'calls'), c.post.get('g', 'calls')
            n = pre.c['len']
            d = {'one-call': log_grew(pre, post_, 1), 'callee-and-args': entry_is(c, post_, n, fn=fn, args=A_)}
            if with_result:
                d['result-is-return-value'] = c.res_v() == post_.c['ret'][n]
            return d
        return post

    def two_calls(idx, with_result):
        def post(c):
            _, fn, A_, _ = tgt(c, idx)
            pre, post_ = c.pre.get('g', 'calls'), c.post.get('g', 'calls')
            n = pre.c['len']
            d = {'two-calls': log_grew(pre, post_, 2), 'first': entry_is(c, post_, n, fn=fn, args=A_),
                 'second-callee': post_.c['fn'][n + 1] == fn,
                 'second-args': drop_last_matches(c, post_.c['args#len'][n + 1], post_.c['args#arr'][n + 1], A_)}
            if with_result:
                d['result-is-return-value'] = c.res_v() == post_.c['ret'][n + 1]
            return d
        return post

    cases = []
    for idx, label in enumerate(TARGET_LABELS):
        g = guard(idx)
        cases.append(Case(label + '.returns', when=g, post=one_call(idx, True), group=label))
        cases.append(Case(label + '.raises', when=g, kind='raise', exc='Exception', post=one_call(idx, False), group=label + '!'))
        if idx in (0, 2):     # catch-all event handlers never receive the reserved 'disconnect' event
            gd = (lambda g: (lambda c: z3.And(g(c), c.a.event == A('disconnect'))))(g)
            cases.append(Case(label + '.legacy-disconnect.returns', when=gd, post=two_calls(idx, True), group=label))
            cases.append(Case(label + '.legacy-disconnect.raises', when=gd, kind='raise', exc='Exception', post=two_calls(idx, False), group=label + '!'))

    def none_when(c):
        return z3.Not(has_target(c, obj, names))
    cases.append(Case('no-target', when=none_when, result=lambda c: S(unhandled_result), update=lambda c: None))

    # ---- what callers see: one abstract dispatch (g.disp), defined by the cases above
    def disp_update(c):
        r = smt.fresh('handler_ret', V)
        c.ctx.assume(r != atom(worlds.NOT_HANDLED))
        c._ret = r
        log_append(c, 'g', 'disp', event=c.a.event, ns=c.a.namespace, args=c.vals['args'], ret=r, raised=NONE, err=NONE)

    def disp_raise(cls):
        def upd(c):
            err = smt.fresh('error_args', V)
            c._err = err
            log_append(c, 'g', 'disp', event=c.a.event, ns=c.a.namespace, args=c.vals['args'], ret=NONE, raised=atom('exc:' + cls), err=err)
        return upd

    summary = [
        Case('dispatched', when=lambda c: has_target(c, obj, names), update=disp_update, result=lambda c: S(c._ret)),
        Case('no-target', when=none_when, result=lambda c: S(unhandled_result), update=lambda c: None),
    ]
    for cls in ['TypeError', 'sio.ConnectionRefusedError', 'AppException']:
        summary.append(Case('dispatched-raises-' + cls, when=lambda c: has_target(c, obj, names), kind='raise', exc=cls,
                            update=disp_raise(cls),
                            exc_fields=(lambda c: {'error_args': S(c._err)}) if cls.endswith('RefusedError') else None))

    return Contract(
        target=target, schema=world, self_obj=obj, also=also,
        params={'event': 'V', 'namespace': 'V', 'args': ('seq', 'tuple')},
        requires=lambda c: domain(c, obj, names, internal),
        cases=cases, summary=summary, modifies=[('g', 'calls'), ('g', 'disp')], props=['C13'],
        abstraction='g.disp record (event, ns, args, ret) := the target responsible for (ns, event) by the C13 order was '
                    'invoked once with prefix+args (a second time without the last argument for a legacy disconnect handler '
                    'that raised TypeError) and returned ret, or raised',
        must_fail=lambda c: {
            'ns-catchall.returns:claims-unprefixed-args': entry_is(c, c.post.get('g', 'calls'), c.pre.get('g', 'calls').c['len'], args=c.vals['args']),
            'no-target:claims-a-call': c.post.get('g', 'calls').c['len'] == c.pre.get('g', 'calls').c['len'] + 1,
        })


def ns_trigger_event_contract(world, target):
    from pyvc.externals import hasattr_f
    SELF = z3.Const('obj:nsobj', V)

    def name_of(c):
        ev = c.a.event
        return smt.str_concat(A('on_'), z3.If(smt.truthy(ev), ev, A('')))

    def has(c):
        return hasattr_f(SELF, name_of(c))

    def one(with_result):
        def post(c):
            pre, post_ = c.pre.get('g', 'calls'), c.post.get('g', 'calls')
            n = pre.c['len']
            d = {'one-call': log_grew(pre, post_, 1),
                 'method-on_event-with-args': entry_is(c, post_, n, fn=meth(SELF, name_of(c)), args=c.vals['args'])}
            if with_result:
                d['result-is-return-value'] = c.res_v() == post_.c['ret'][n]
            return d
        return post

    def two(with_result):
        def post(c):
            pre, post_ = c.pre.get('g', 'calls'), c.post.get('g', 'calls')
            n = pre.c['len']
            fn = meth(SELF, name_of(c))
            d = {'two-calls': log_grew(pre, post_, 2), 'first': entry_is(c, post_, n, fn=fn, args=c.vals['args']),
                 'second-callee': post_.c['fn'][n + 1] == fn,
                 'second-args': drop_last_matches(c, post_.c['args#len'][n + 1], post_.c['args#arr'][n + 1], c.vals['args'])}
            if with_result:
                d['result-is-return-value'] = c.res_v() == post_.c['ret'][n + 1]
            return d
        return post
    legacy = lambda c: z3.And(has(c), c.a.event == A('disconnect'))
    cases = [
        Case('on_event.returns', when=has, post=one(True), group='r'),
        Case('on_event.raises', when=has, kind='raise', exc='Exception', post=one(False), group='x'),
        Case('legacy-disconnect.returns', when=legacy, post=two(True), group='r'),
        Case('legacy-disconnect.raises', when=legacy, kind='raise', exc='Exception', post=two(False), group='x'),
        Case('no-method', when=lambda c: z3.Not(has(c)), result=lambda c: S(NONE), update=lambda c: None),
    ]
    return Contract(target=target, schema=world, self_obj='nsobj', params={'event': 'V', 'args': ('seq', 'tuple')},
                    cases=cases, modifies=[('g', 'calls')], props=['C13'],
                    must_fail=lambda c: {'no-method:claims-a-call': c.post.get('g', 'calls').c['len'] == c.pre.get('g', 'calls').c['len'] + 1})


def register(reg):
    from . import c17
    for nscls, attr, tgt in c17.PAIRS:
        reg.add(ns_trigger_event_contract(c17.ns_world(nscls, attr, tgt), '%s.%s.trigger_event' % nscls))
    reg.add(get_event_handler_contract(worlds.SERVER, 'server', 'base_server.BaseServer._get_event_handler', SERVER_RESERVED))
    reg.add(get_namespace_handler_contract(worlds.SERVER, 'server', 'base_server.BaseServer._get_namespace_handler'))
    reg.add(get_event_handler_contract(worlds.CLIENT, 'client', 'base_client.BaseClient._get_event_handler',
                                       CLIENT_RESERVED + CLIENT_INTERNAL))
    reg.add(get_namespace_handler_contract(worlds.CLIENT, 'client', 'base_client.BaseClient._get_namespace_handler'))
    reg.add(trigger_event_contract(worlds.SERVER, 'server', 'server.Server._trigger_event', SERVER_RESERVED, [],
                                   atom(worlds.NOT_HANDLED)))
    reg.add(trigger_event_contract(worlds.ASYNC_SERVER, 'server', 'async_server.AsyncServer._trigger_event', SERVER_RESERVED, [],
                                   atom(worlds.NOT_HANDLED)))
    reg.add(trigger_event_contract(worlds.CLIENT, 'client', 'client.Client._trigger_event', CLIENT_RESERVED + CLIENT_INTERNAL,
                                   [], NONE))
    reg.add(trigger_event_contract(worlds.ASYNC_CLIENT, 'client', 'async_client.AsyncClient._trigger_event',
                                   CLIENT_RESERVED + CLIENT_INTERNAL, [], NONE))
