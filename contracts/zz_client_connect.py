"""Client.connect() body (C08): recorded arguments, transport failure, the wait for the namespaces, the failure path."""
import z3
from pyvc import smt
from pyvc.smt import V, B, I, NONE, atom
from pyvc.contract import Contract, Case, LoopSpec
from pyvc.dsl import A, log_grew
from pyvc.model import sv_equiv, SV, Leaf
from pyvc.vals import S, PySeq, Fixed, Raised, Exc, Fn
from . import worlds, c13
from .server_events import OUT, DISP, CALLS
from .client_events import CBS, NEXT, NSS
from .client_lifecycle import base_req, nss, connected, CONN, BINP, SID, TASKS, RTASK
from .eio_model import THE_CONNECTION, CONNECTED

EIO_STATE = ('eio', 'state')
EVENTS = ('g', 'events')
CEV = ('client', '_connect_event')
CFIELDS = {'url': 'connection_url', 'headers': 'connection_headers', 'auth': 'connection_auth', 'transports': 'connection_transports',
           'socketio_path': 'socketio_path'}
CNS = ('client', 'connection_namespaces')
CONNECT_ERROR = A('connect_error')
ENV = [NSS, DISP, CALLS, OUT, ('g', 'raw'), EVENTS, CBS, NEXT, BINP]


def eio_connect_model(eng, ctx, args, kwargs):
    """engine.io Client.connect(): raises engineio ConnectionError(message[, extra]) or establishes the transport and runs the
    'connect' handler (Client._handle_eio_connect) before returning; packets from the server are handled later, on the
    transport's own thread/task (the wait hook)."""
    eng.ext.note('engine.io client connect(): raises ConnectionError(msg[, info]) or, state connected, invokes the connect handler once before returning (engine.io 4.14 client.py)')
    for nargs in (1, 2):
        c = ctx.fork()
        ex = Exc('eio.ConnectionError', [S(smt.fresh('eio_err', V)) for _ in range(nargs)])
        c.notes.append(('eio-connect-failed', ex))
        yield c, Raised(ex)
    ctx.st = ctx.st.set('eio', 'state', SV(Leaf('V'), {'': CONNECTED}))
    ctx.notes.append(('eio-connect', args, dict(kwargs)))
    f = Fn('method', obj='client', name='_handle_eio_connect', start_after=None)
    for c2, res in eng.call(ctx, f, PySeq([], 'tuple'), {}):
        yield c2, (res if isinstance(res, Raised) else S(NONE))


def install(eng, ctx):
    eng.ext.obj_methods[('EioClient', 'connect')] = lambda e, c, a, k, me=None: eio_connect_model(e, c, a, k)

    def wait_hook(eng2, c, obj, args, kwargs):
        """while connect() waits, the transport's thread handles CONNECT / CONNECT_ERROR / DISCONNECT packets: the namespace table,
        the handler logs and the queues may change in any way; connect()'s own variables do not"""
        eng2.ext.note('C08 rely: while connect() waits for the namespaces, packet handlers run on the transport thread (any change of namespaces, logs, queues)')
        ab_ = c.st.get('client', '_reconnect_abort').leaf()
        ab_was = c.st.get(*EVENTS).c['.'][ab_]
        c.st = c.st.havoc(ENV, smt.fresh('env_connect_wait', I).decl().name())
        eng2.ext.note('C10 rely: packet handlers never touch the reconnect-abort event (only shutdown() sets it, only _handle_reconnect clears it)')
        c.assume(c.st.get(*EVENTS).c['.'][ab_] == ab_was)
        from .client_events import ccb_ok
        for t_ in ccb_ok(c.st).values():
            c.assume(t_)                       # the other thread keeps the callback table well-formed (its own contracts)
        c.assume(z3.Not(nss(c.st).c['dom'][c13.STAR]), z3.Not(nss(c.st).c['dom'][NONE]))
        r = smt.fresh('woke', B)
        yield c, S(r)
    eng.ext.wait_hook = wait_hook


def eff_list(c):
    """the namespaces requested: the list given, or the one string given"""
    ns = c.a.namespaces
    return ns


def in_list(L, x):
    p = z3.Int('cl_p')
    return z3.Exists([p], z3.And(p >= 0, p < smt.vlen(L), smt.vseq(L)[p] == x))


def connect_body(k, world):
    is_str = lambda c: smt.kind(c.a.namespaces) == smt.K_STR

    def requested(c, x):
        return z3.If(is_str(c), x == c.a.namespaces, in_list(c.a.namespaces, x))

    def reported(st0, st1, L1, upto):
        """connect_error notifications made so far: only for requested namespaces, and one for each that has a handler for it"""
        from .client_events import NAMES
        d0, d1 = st0.get(*DISP), st1.get(*DISP)
        j, p = z3.Ints('cl_j cl_p')
        n0 = d0.c['len']
        isnew = lambda q: z3.And(q >= n0, q < d1.c['len'])
        same = [d1.c[nm][j] == d0.c[nm][j] for nm in d0.c if nm != 'len']
        return {
            'earlier-dispatches-kept': z3.And(d1.c['len'] >= n0, z3.ForAll([j], z3.Implies(z3.And(j >= 0, j < n0), z3.And(*same)))),
            'only-connect_error-notifications-for-requested-namespaces': z3.ForAll([j], z3.Implies(isnew(j), z3.And(
                d1.c['event'][j] == CONNECT_ERROR, d1.c['args#len'][j] == 1,
                z3.Exists([p], z3.And(p >= 0, p < upto, smt.vseq(L1)[p] == d1.c['ns'][j])))), patterns=[d1.c['event'][j]]),
            'one-for-every-requested-namespace-that-has-a-handler-for-it': z3.ForAll([p], z3.Implies(
                z3.And(p >= 0, p < upto, c13.target_exists(st0, 'client', smt.vseq(L1)[p], CONNECT_ERROR, NAMES)),
                z3.Exists([j], z3.And(isnew(j), d1.c['event'][j] == CONNECT_ERROR, d1.c['ns'][j] == smt.vseq(L1)[p]))))}

    def recorded(c):
        d = {}
        for p_, f_ in CFIELDS.items():
            d['recorded.' + p_] = c.post.get('client', f_).leaf() == c.a[p_]
        L1 = c.post.get(*CNS).leaf()
        x = z3.Const('cl_x', V)
        ab_ = c.pre.get('client', '_reconnect_abort').leaf()
        # C10: an attempt to connect, whatever its outcome, does not signal the reconnection effort to stop
        d['reconnect-abort-event-left-alone'] = c.post.get(*EVENTS).c['.'][ab_] == c.pre.get(*EVENTS).c['.'][ab_]
        d['reconnection-effort-left-alone'] = z3.And(c.post.get(*RTASK).leaf() == c.pre.get(*RTASK).leaf(), sv_equiv(c.post.get(*TASKS), c.pre.get(*TASKS)))
        d['recorded.namespaces-as-a-list'] = z3.And(smt.kind(L1) == smt.K_LIST, z3.If(is_str(c), z3.And(smt.vlen(L1) == 1, smt.vseq(L1)[0] == c.a.namespaces), L1 == c.a.namespaces))
        return d

    def all_accepted(c, st):
        x = z3.Const('cl_y', V)
        return z3.ForAll([x], nss(st).c['dom'][x] == requested(c, x))

    def transport_fails(c):
        d = recorded(c)
        L1 = c.post.get(*CNS).leaf()
        for k_, v_ in reported(c.pre, c.post, L1, smt.vlen(L1)).items():
            d['refusal-reported.' + k_] = v_
        d['fully-disconnected'] = z3.And(z3.Not(connected(c.post)), nss(c.post).c['dom'] == z3.K(V, z3.BoolVal(False)))
        d['nothing-sent'] = sv_equiv(c.post.get(*OUT), c.pre.get(*OUT))
        return d

    def accepted(c):
        d = recorded(c)
        d['connected-flag-set'] = connected(c.post)
        d['waited.every-requested-namespace-is-connected-and-no-other'] = z3.Implies(smt.truthy(c.a.wait), all_accepted(c, c.post))
        calls = [n for n in c.ctx.notes if n[0] == 'called' and n[1].endswith('_handle_eio_connect')]
        d['connect-packets-sent-once-when-the-transport-came-up'] = z3.BoolVal(len(calls) == 1)
        ec = [n for n in c.ctx.notes if n[0] == 'eio-connect']
        if len(ec) == 1:
            _, args, kw = ec[0]
            ok = args.fixed_len() == 1 and set(kw) == {'headers', 'transports', 'engineio_path'}
            d['transport-connects-with-the-callers-values'] = z3.And(z3.BoolVal(ok), *([c.v(kw['transports']) == c.a.transports, c.v(kw['engineio_path']) == c.a.socketio_path] if ok else []))
        else:
            d['transport-connects-once'] = z3.BoolVal(False)
        return d

    def gave_up(c):
        d = recorded(c)
        calls = [n for n in c.ctx.notes if n[0] == 'called' and n[1].endswith('._handle_eio_disconnect')]
        d['transport-closed-once'] = z3.BoolVal(len(calls) == 1)
        if True:
            d['fully-disconnected'] = z3.And(z3.Not(connected(c.post)), nss(c.post).c['dom'] == z3.K(V, z3.BoolVal(False)))
        d['only-after-waiting'] = smt.truthy(c.a.wait)
        return d

    def inv_report(lc):
        L1 = lc.cur.get(*CNS).leaf()
        return {**{'reported.' + k_: v_ for k_, v_ in reported(lc.entry, lc.cur, L1, lc.i).items()},
                'namespace-table-still-empty': nss(lc.cur).c['dom'] == z3.K(V, z3.BoolVal(False)),
                'nothing-sent': sv_equiv(lc.cur.get(*OUT), lc.entry.get(*OUT))}

    def inv_wait(lc):
        ab_ = lc.entry.get('client', '_reconnect_abort').leaf()
        return {'not-marked-connected-yet': z3.Not(connected(lc.cur)),
                'abort-event-untouched': lc.cur.get(*EVENTS).c['.'][ab_] == lc.entry.get(*EVENTS).c['.'][ab_]}
    notc = lambda c: z3.Not(connected(c.pre))
    k.summary = list(k.cases)
    k.abstraction = 'g.attempts record := one call of connect() with these arguments; ok := it returned'
    k.trusted = False
    k.note = ''
    k.requires = lambda c: dict(base_req(c), **{
        'dom.namespaces-given-as-a-string-or-a-list': z3.Or(smt.kind(c.a.namespaces) == smt.K_STR, smt.kind(c.a.namespaces) == smt.K_LIST),
        'dom.no-retry': z3.Not(smt.truthy(c.a.retry)),
        # between connection attempts a client that is not connected has no namespace left (every exit of connect() and every
        # packet handler re-establishes it; assumed here, it is what makes the reset at the top of connect() redundant)
        'assume:not-connected-means-no-namespace-left': z3.Implies(z3.Not(connected(c.pre)), nss(c.pre).c['dom'] == z3.K(V, z3.BoolVal(False))),
        'assume:the-connect-event-is-not-the-abort-event': c.pre.get(*CEV).leaf() != c.pre.get('client', '_reconnect_abort').leaf(),
        'dom.no-star-namespace': z3.Not(requested(c, c13.STAR)),
        'dom.no-star-namespace-connected': z3.Not(nss(c.pre).c['dom'][c13.STAR]), 'dom.namespaces-truthy': z3.Not(nss(c.pre).c['dom'][NONE])})
    k.cases = [
        Case('already-connected', when=lambda c: connected(c.pre), kind='raise', exc='sio.ConnectionError', update=lambda c: None),
        Case('accepted', when=notc, post=accepted),
        Case('transport-fails', when=notc, kind='raise', exc='sio.ConnectionError', post=transport_fails, group='x'),
        Case('namespaces-refused-or-timed-out', when=notc, kind='raise', exc='sio.ConnectionError', post=gave_up, group='x'),
        Case('handler-or-callable-raises', when=notc, kind='raise', exc='Exception', group='x',
             post=lambda c: {'raised-by-application-code-not-by-connect-itself': z3.BoolVal(bool(getattr(c.exc, 'from_app', False)) or c.exc.cls != 'sio.ConnectionError')}),
    ]
    k.loops = {0: LoopSpec(inv_report, mod_state=[DISP, CALLS]), 1: LoopSpec(inv_wait, mod_state=ENV)}
    k.modifies = [('g', 'attempts')] if False else [('client', f_) for f_ in CFIELDS.values()] + [CNS, NSS, CONN, CEV, EIO_STATE, SID, TASKS, RTASK] + ENV
    k.env_hook = install
    k.props = ['C08', 'C10']
    return k


def register(reg):
    for w, t in ((worlds.CLIENT, 'client.Client.connect'), (worlds.ASYNC_CLIENT, 'async_client.AsyncClient.connect')):
        connect_body(reg.by_target[t], w)
