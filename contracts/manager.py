"""Contracts of the client manager (BaseManager / Manager / AsyncManager): C03, C04, C06, C11, C20 rest on them.

Postconditions speak about the abstract view member(ns, room, sid); `spec_*` come from the property statements."""
import z3
from pyvc import smt
from pyvc.smt import V, B, I, NONE, atom
from pyvc.contract import Contract, Case, LoopSpec
from pyvc.dsl import A, tup
from pyvc.vals import S, PySeq, Fixed
from . import worlds
from .views import (cb_present, cb_val, issued_ok, member, val, transport, pending, connected, owns, struct, i1, pend_ok, cb_ok, inv_m, nonempty,
                    member_rel, vals_kept, rooms, COUNTER, outstanding, wire_value)

W = worlds.SERVER
ROOMS = ('manager', 'rooms')
PEND = ('manager', 'pending_disconnect')
CBS = ('manager', 'callbacks')
NEXT = ('manager', 'ack_next')
BM = 'base_manager.BaseManager.'


def q3():
    return z3.Consts('q_n q_r q_s', V)


def is_connected_contract():
    return Contract(
        target=BM + 'is_connected', schema=W, self_obj='manager', params={'sid': 'V', 'namespace': 'V'},
        requires=lambda c: dict(struct(c.pre)),
        cases=[Case('view', result=lambda c: S(connected(c.pre, c.a.namespace, c.a.sid)))],
        modifies=[], props=['C03', 'C04', 'C05', 'C20'],
        must_fail=lambda c: {'view:ignores-pending': c.eng.truth(c.ctx, c.result) == member(c.pre, c.a.namespace, NONE, c.a.sid)})


def sid_from_eio_sid_contract():
    def res(c):
        r = rooms(c.pre)
        ns, e = c.a.namespace, c.a.eio_sid
        has = z3.And(r.c['dom'][ns], r.c['.dom'][ns][NONE], r.c['..idom'][ns][NONE][e])
        return S(z3.If(has, r.c['..inv'][ns][NONE][e], NONE))
    return Contract(
        target=BM + 'sid_from_eio_sid', schema=W, self_obj='manager', params={'eio_sid': 'V', 'namespace': 'V'},
        requires=lambda c: dict(struct(c.pre)),
        cases=[Case('lookup', result=res, post=lambda c: {
            'owns-or-none': z3.Or(c.res_v() == NONE, owns(c.pre, c.a.eio_sid, c.a.namespace, c.res_v())),
            'none-only-if-no-owner': z3.Implies(c.res_v() == NONE,
                                                z3.ForAll([z3.Const('q_s', V)], z3.Not(owns(c.pre, c.a.eio_sid, c.a.namespace, z3.Const('q_s', V))))),
        })],
        modifies=[], props=['C04', 'C05', 'C06', 'C12'])


def eio_sid_from_sid_contract():
    return Contract(
        target=BM + 'eio_sid_from_sid', schema=W, self_obj='manager', params={'sid': 'V', 'namespace': 'V'},
        requires=lambda c: dict(struct(c.pre)),
        cases=[Case('lookup', result=lambda c: S(z3.If(member(c.pre, c.a.namespace, NONE, c.a.sid), transport(c.pre, c.a.namespace, c.a.sid), NONE)),
                    when=lambda c: z3.Or(z3.Not(rooms(c.pre).c['dom'][c.a.namespace]), rooms(c.pre).c['.dom'][c.a.namespace][NONE])),
               Case('namespace-without-clients', kind='raise', exc='KeyError',
                    when=lambda c: z3.And(rooms(c.pre).c['dom'][c.a.namespace], z3.Not(rooms(c.pre).c['.dom'][c.a.namespace][NONE])))],
        modifies=[], props=['C16'])


def pre_disconnect_contract():
    def post(c):
        ns, sid = c.a.namespace, c.a.sid
        p0, p1 = c.pre.get(*PEND), c.post.get(*PEND)
        n, s = z3.Consts('q_n q_s', V)
        d = {'marks': pending(c.post, ns, sid),
             'only-this': z3.ForAll([n, s], z3.Implies(z3.Not(z3.And(n == ns, s == sid)), pending(c.post, n, s) == pending(c.pre, n, s))),
             'returns-transport': c.res_v() == transport(c.pre, ns, sid),
             'falsifies-is_connected': z3.Not(connected(c.post, ns, sid))}
        d.update(pend_ok(c.post))
        return d
    return Contract(
        target=BM + 'pre_disconnect', schema=W, self_obj='manager', params={'sid': 'V', 'namespace': 'V'},
        requires=lambda c: dict(inv_m(c.pre), **{'gate.connected': connected(c.pre, c.a.namespace, c.a.sid)}),
        cases=[Case('marks', result='V', post=post)],
        modifies=[PEND], props=['C04', 'C11', 'C20'])


def leave_room_contract(target=BM + 'basic_leave_room', also=()):
    def post(c):
        ns, room, sid = c.a.namespace, c.a.room, c.a.sid
        d = {'member': member_rel(c.pre, c.post, removed=lambda n, r, s: z3.And(n == ns, r == room, s == sid)),
             'transports-kept': vals_kept(c.pre, c.post)}
        d.update(struct(c.post))
        n, r, s = q3()
        d['I1-kept-unless-connection-room'] = z3.Implies(z3.And(room != NONE, *i1(c.pre).values()), z3.And(*i1(c.post).values()))
        d['nonempty-kept'] = z3.Implies(z3.And(*nonempty(c.pre).values()), z3.And(*nonempty(c.post).values()))
        return d
    return Contract(
        target=target, schema=W, self_obj='manager', also=also, params={'sid': 'V', 'namespace': 'V', 'room': 'V'},
        requires=lambda c: dict(struct(c.pre)),
        cases=[Case('leaves', post=post)],
        modifies=[ROOMS], props=['C03', 'C11'],
        must_fail=lambda c: {'leaves:claims-nothing-changed': member_rel(c.pre, c.post)})


def enter_room_contract(target=BM + 'basic_enter_room', also=()):
    def dup(c):
        r = rooms(c.pre)
        ns, room, e = c.a.namespace, c.a.room, c.a.eio_sid
        return z3.And(r.c['dom'][ns], r.c['.dom'][ns][room], r.c['..idom'][ns][room][e], r.c['..inv'][ns][room][e] != c.a.sid)

    def entered(c, eio):
        ns, room, sid = c.a.namespace, c.a.room, c.a.sid
        d = {'member': member_rel(c.pre, c.post, added=lambda n, r, s: z3.And(n == ns, r == room, s == sid)),
             'transports-kept': vals_kept(c.pre, c.post, except_=(ns, room, sid)),
             'records-transport': val(c.post, ns, room, sid) == eio}
        d.update(struct(c.post))
        d['nonempty-kept'] = z3.Implies(z3.And(*nonempty(c.pre).values()), z3.And(*nonempty(c.post).values()))
        return d
    given = lambda c: c.a.eio_sid != NONE
    ns_present = lambda c: rooms(c.pre).c['dom'][c.a.namespace]
    is_member = lambda c: member(c.pre, c.a.namespace, NONE, c.a.sid)
    return Contract(
        target=target, schema=W, self_obj='manager', also=also, params={'sid': 'V', 'namespace': 'V', 'room': 'V', 'eio_sid': 'V'},
        requires=lambda c: dict(struct(c.pre), **dict(i1(c.pre), **{
            'connect.sid-not-none': z3.Implies(c.a.eio_sid != NONE, c.a.sid != NONE),
            'namespace-truthy': smt.truthy(c.a.namespace)})),
        cases=[
            Case('application.enters', when=lambda c: z3.And(z3.Not(given(c)), is_member(c)),
                 post=lambda c: dict(entered(c, transport(c.pre, c.a.namespace, c.a.sid)),
                                     **{'I1-kept': z3.And(*i1(c.post).values())})),
            Case('application.unknown-namespace', when=lambda c: z3.And(z3.Not(given(c)), z3.Not(ns_present(c))), kind='raise', exc='ValueError',
                 post=lambda c: {'unchanged': member_rel(c.pre, c.post)}),
            Case('application.not-connected', when=lambda c: z3.And(z3.Not(given(c)), ns_present(c), z3.Not(is_member(c))), kind='raise', exc='KeyError',
                 post=lambda c: {'membership-unchanged': member_rel(c.pre, c.post), 'transports-kept': vals_kept(c.pre, c.post)}),
            Case('connect.enters', when=lambda c: z3.And(given(c), z3.Not(dup(c))),
                 post=lambda c: entered(c, c.a.eio_sid)),
            Case('connect.duplicate-transport', when=lambda c: z3.And(given(c), dup(c)), kind='raise', exc='ValueDuplicationError',
                 post=lambda c: {'membership-unchanged': member_rel(c.pre, c.post), 'transports-kept': vals_kept(c.pre, c.post)}),
        ],
        modifies=[ROOMS], props=['C03', 'C04'],
        must_fail=lambda c: {'application.enters:claims-nothing-changed': member_rel(c.pre, c.post)})


def in_list(seq_len, seq_at, x, upto=None):
    p = z3.Int('il_p')
    hi = seq_len if upto is None else upto
    return z3.Exists([p], z3.And(p >= 0, p < hi, seq_at(p) == x))


def get_rooms_contract():
    def lst(lc):
        seq = lc.eng.as_seq(lc.ctx, lc.var('r'))
        return seq.length(), (lambda p: lc.eng.seq_at(lc.ctx, seq, p))

    def inv(lc):
        ns, sid = lc.t('namespace'), lc.t('sid')
        n, at = lst(lc)
        p, q = z3.Ints('gr_p gr_q')
        x = z3.Const('gr_x', V)
        return {
            'sound': z3.ForAll([p], z3.Implies(z3.And(p >= 0, p < n), z3.And(lc.done[at(p)], at(p) != NONE, member(lc.entry, ns, at(p), sid)))),
            'complete': z3.ForAll([x], z3.Implies(z3.And(lc.done[x], x != NONE, member(lc.entry, ns, x, sid)), in_list(n, at, x))),
            'nodup': z3.ForAll([p, q], z3.Implies(z3.And(p >= 0, p < q, q < n), at(p) != at(q))),
        }

    def post(c):
        seq = c.eng.as_seq(c.ctx, c.result)
        n, at = seq.length(), (lambda p: c.eng.seq_at(c.ctx, seq, p))
        ns, sid = c.a.namespace, c.a.sid
        p, q = z3.Ints('gr_p gr_q')
        x = z3.Const('gr_x', V)
        return {
            'only-entered-rooms': z3.ForAll([p], z3.Implies(z3.And(p >= 0, p < n), z3.And(at(p) != NONE, member(c.pre, ns, at(p), sid)))),
            'every-entered-room': z3.ForAll([x], z3.Implies(z3.And(x != NONE, member(c.pre, ns, x, sid)), in_list(n, at, x))),
            'no-duplicates': z3.ForAll([p, q], z3.Implies(z3.And(p >= 0, p < q, q < n), at(p) != at(q))),
        }
    return Contract(
        target=BM + 'get_rooms', schema=W, self_obj='manager', params={'sid': 'V', 'namespace': 'V'},
        requires=lambda c: dict(struct(c.pre)),
        cases=[Case('rooms', result=lambda c: None, post=post)],
        loops={0: LoopSpec(inv, mod_vars=['r'])},
        modifies=[], props=['C03'],
        must_fail=lambda c: {'rooms:claims-empty': c.eng.as_seq(c.ctx, c.result).length() == 0})


def empty_kwargs(eng, ctx, name):
    return ctx.alloc('map', {})


def basic_disconnect_contract():
    def lst(lc, name='rooms'):
        seq = lc.eng.as_seq(lc.ctx, lc.var(name))
        return seq.length(), (lambda p: lc.eng.seq_at(lc.ctx, seq, p))

    def inv0(lc):
        ns, sid = lc.t('namespace'), lc.t('sid')
        n, at = lst(lc)
        p = z3.Int('bd_p')
        x = z3.Const('bd_x', V)
        return {
            'sound': z3.ForAll([p], z3.Implies(z3.And(p >= 0, p < n), member(lc.entry, ns, at(p), sid))),
            'complete': z3.ForAll([x], z3.Implies(z3.And(lc.done[x], member(lc.entry, ns, x, sid)), in_list(n, at, x))),
        }

    def inv1(lc):
        ns, sid = lc.t('namespace'), lc.t('sid')
        n, at = lst(lc)
        p = z3.Int('bd_p')
        a, r, s = q3()
        d = {
            'only-removes': z3.ForAll([a, r, s], z3.Implies(member(lc.cur, a, r, s), member(lc.entry, a, r, s))),
            'processed-left': z3.ForAll([p], z3.Implies(z3.And(p >= 0, p < lc.i), z3.Not(member(lc.cur, ns, at(p), sid)))),
            'only-this-client': z3.ForAll([a, r, s], z3.Implies(z3.And(member(lc.entry, a, r, s), z3.Not(member(lc.cur, a, r, s))),
                                                                 z3.And(a == ns, s == sid))),
            'transports-kept': vals_kept(lc.entry, lc.cur),
            'nonempty-kept': z3.Implies(z3.And(*nonempty(lc.entry).values()), z3.And(*nonempty(lc.cur).values())),
        }
        d.update(struct(lc.cur))
        return d

    def post(c):
        ns, sid = c.a.namespace, c.a.sid
        n, s, k = z3.Consts('q_n q_s q_k', V)
        d = {'member': member_rel(c.pre, c.post, removed=lambda a, r, x: z3.And(a == ns, x == sid)),
             'transports-kept': vals_kept(c.pre, c.post),
             'callbacks-dropped': z3.Not(c.post.get(*CBS).c['dom'][sid]),
             'other-callbacks-kept': z3.ForAll([s, k], z3.Implies(s != sid, z3.And(cb_present(c.post, s, k) == cb_present(c.pre, s, k),
                                                                                   cb_val(c.post, s, k) == cb_val(c.pre, s, k),
                                                                                   c.post.get(*CBS).c['dom'][s] == c.pre.get(*CBS).c['dom'][s]))),
             'pending-cleared': z3.ForAll([n, s], pending(c.post, n, s) == z3.And(pending(c.pre, n, s), z3.Not(z3.And(n == ns, s == sid)))),
             'I1': z3.And(*i1(c.post).values()),
             'nonempty-kept': z3.Implies(z3.And(*nonempty(c.pre).values()), z3.And(*nonempty(c.post).values())),
             }
        d.update(struct(c.post))
        d.update(pend_ok(c.post))
        d['callbacks-invariant-kept'] = z3.Implies(z3.And(*cb_ok(c.pre).values()), z3.And(*cb_ok(c.post).values()))
        d['issued-kept'] = z3.Implies(z3.And(*issued_ok(c.pre).values()), z3.And(*issued_ok(c.post).values()))
        return d
    present = lambda c: rooms(c.pre).c['dom'][c.a.namespace]
    return Contract(
        target=BM + 'basic_disconnect', schema=W, self_obj='manager', params={'sid': 'V', 'namespace': 'V', 'kwargs': empty_kwargs},
        requires=lambda c: dict(inv_m(c.pre)),
        cases=[Case('forgets-client', when=present, post=post),
               Case('unknown-namespace', when=lambda c: z3.Not(present(c)), update=lambda c: None)],
        loops={0: LoopSpec(inv0, mod_vars=['rooms']), 1: LoopSpec(inv1, mod_state=[ROOMS])},
        modifies=[ROOMS, CBS, PEND], props=['C03', 'C04', 'C06', 'C11'],
        must_fail=lambda c: {'forgets-client:claims-still-member': member(c.post, c.a.namespace, NONE, c.a.sid)})


def generate_ack_id_contract():
    def post(c):
        sid, cb = c.a.sid, c.a.callback
        rid = c.res_v()
        s, k = z3.Consts('q_s q_k', V)
        d = {
            'fresh-among-outstanding': z3.Not(cb_present(c.pre, sid, rid)),
            'is-a-positive-integer': z3.And(smt.kind(rid) == smt.K_INT, smt.int_of(rid) >= 1),
            'registered': z3.And(cb_present(c.post, sid, rid), cb_val(c.post, sid, rid) == cb),
            'others-kept': z3.ForAll([s, k], z3.Implies(z3.And(cb_present(c.pre, s, k)),
                                                        z3.And(cb_present(c.post, s, k), cb_val(c.post, s, k) == cb_val(c.pre, s, k)))),
            'nothing-else-added': z3.ForAll([s, k], z3.Implies(z3.And(outstanding(c.post, s, k), z3.Not(outstanding(c.pre, s, k))),
                                                               z3.And(s == sid, k == rid))),
        }
        d.update(cb_ok(c.post))
        d['callback-keys-issued-kept'] = z3.Implies(z3.And(issued_ok(c.pre)['issued.callback-keys'], c.pre.get('g', 'issued').c['.'][c.a.sid]),
                                                    issued_ok(c.post)['issued.callback-keys'])
        return d
    return Contract(
        target=BM + '_generate_ack_id', schema=W, self_obj='manager', params={'sid': 'V', 'callback': 'V'},
        requires=lambda c: dict(cb_ok(c.pre), **{'sid-not-none': c.a.sid != NONE, 'callback-is-not-the-counter': c.a.callback != COUNTER, 'callback-is-truthy': z3.And(smt.truthy(c.a.callback), c.a.callback != NONE)}),
        cases=[Case('issues', result='I', post=post)],
        modifies=[CBS, NEXT], props=['C06'],
        must_fail=lambda c: {'issues:claims-id-1': c.res_v() == smt.box_int(z3.IntVal(1))})


def connect_contract():
    def dupc(c):
        r = rooms(c.pre)
        ns, e = c.a.namespace, c.a.eio_sid
        return z3.And(r.c['dom'][ns], r.c['.dom'][ns][NONE], r.c['..idom'][ns][NONE][e])

    def post_new(c):
        ns, e = c.a.namespace, c.a.eio_sid
        r = c.res_v()
        iss0, iss1 = c.pre.get('g', 'issued'), c.post.get('g', 'issued')
        x = z3.Const('q_x', V)
        d = {
            'sid-never-used-before': z3.Not(iss0.c['.'][r]),
            'sid-not-none': r != NONE,
            'sid-is-a-string': smt.kind(r) == smt.K_STR,
            'member': member_rel(c.pre, c.post, added=lambda n, ro, s: z3.And(n == ns, s == r, z3.Or(ro == NONE, ro == r))),
            'transports-kept': vals_kept(c.pre, c.post),
            'owns': owns(c.post, e, ns, r),
            'connected': connected(c.post, ns, r),
            'issued': z3.ForAll([x], iss1.c['.'][x] == z3.Or(iss0.c['.'][x], x == r)),
            'nonempty-kept': z3.Implies(z3.And(*nonempty(c.pre).values()), z3.And(*nonempty(c.post).values())),
        }
        d.update(inv_m(c.post))
        d.update(issued_ok(c.post))
        return d
    return Contract(
        target=BM + 'connect', schema=W, self_obj='manager', params={'eio_sid': 'V', 'namespace': 'V'},
        requires=lambda c: dict(inv_m(c.pre), **dict(issued_ok(c.pre), **{'transport-not-none': c.a.eio_sid != NONE, 'namespace-truthy': smt.truthy(c.a.namespace)})),
        cases=[Case('already-connected', when=dupc, result=lambda c: S(NONE),
                    post=lambda c: dict({'some-sid-owns-the-transport': owns(c.pre, c.a.eio_sid, c.a.namespace,
                                                                             rooms(c.pre).c['..inv'][c.a.namespace][NONE][c.a.eio_sid]),
                                         'membership-unchanged': member_rel(c.pre, c.post), 'transports-kept': vals_kept(c.pre, c.post),
                                         'nonempty-kept': z3.Implies(z3.And(*nonempty(c.pre).values()), z3.And(*nonempty(c.post).values()))},
                                        **dict(inv_m(c.post), **issued_ok(c.post)))),
               Case('new-session', when=lambda c: z3.Not(dupc(c)), result='V', post=post_new)],
        modifies=[ROOMS, ('g', 'issued')], props=['C03', 'C04', 'C16'], inline=[BM + 'basic_enter_room'],
        must_fail=lambda c: {'new-session:claims-no-personal-room': z3.Not(member(c.post, c.a.namespace, c.res_v(), c.res_v()))})


def trigger_callback_contract(target='manager.Manager.trigger_callback', also=('async_manager.AsyncManager.trigger_callback',)):
    from pyvc.dsl import log_grew, entry_is

    def known(c):
        return outstanding(c.pre, c.a.sid, c.a.id)

    def popped(c):
        sid, id_ = c.a.sid, c.a.id
        s, k = z3.Consts('q_s q_k', V)
        cb0, cb1 = c.pre.get(*CBS), c.post.get(*CBS)
        return {
            'entry-removed': z3.Not(cb_present(c.post, sid, id_)),
            'others-kept': z3.ForAll([s, k], z3.Implies(z3.Not(z3.And(s == sid, k == id_)),
                                                        z3.And(cb_present(c.post, s, k) == cb_present(c.pre, s, k),
                                                               cb_val(c.post, s, k) == cb_val(c.pre, s, k)))),
            'sids-kept': z3.ForAll([s], cb1.c['dom'][s] == cb0.c['dom'][s]),
        }

    def invoked(c, with_result=False):
        pre, post_ = c.pre.get('g', 'calls'), c.post.get('g', 'calls')
        d = {'callback-invoked-once': log_grew(pre, post_, 1),
             'with-the-acknowledged-arguments': entry_is(c, post_, pre.c['len'], fn=cb_val(c.pre, c.a.sid, c.a.id), args=c.vals['data'])}
        d.update(popped(c))
        return d
    return Contract(
        target=target, also=also, schema=W, self_obj='manager', params={'sid': 'V', 'id': 'V', 'data': ('seq', 'list')},
        requires=lambda c: dict(cb_ok(c.pre), **{'id-came-off-the-wire': wire_value(c.a.id)}),
        cases=[
            Case('outstanding', when=known, post=invoked, group='k'),
            Case('outstanding.callback-raises', when=known, kind='raise', exc='Exception', post=invoked, group='kx'),
            Case('unknown-or-used-id', when=lambda c: z3.Not(known(c)), update=lambda c: None),
        ],
        modifies=[CBS, ('g', 'calls')], props=['C06'],
        must_fail=lambda c: {'outstanding:claims-entry-kept': cb_present(c.post, c.a.sid, c.a.id)})


def is_room_list(room):
    return z3.Or(smt.kind(room) == smt.K_LIST, smt.kind(room) == smt.K_TUPLE)


def room_domain(room):
    """rooms are hashable non-sequence names, or non-empty lists/tuples of them (C03's domain)"""
    return z3.And(smt.kind(room) != smt.K_DICT, smt.kind(room) != smt.K_BYTES,
                  z3.Implies(is_room_list(room), smt.vlen(room) >= 1))


def addressed(st, ns, room, s):
    """s is a member of at least one addressed room (room None holds the whole namespace)"""
    p = z3.Int('ad_p')
    return z3.If(is_room_list(room),
                 z3.Exists([p], z3.And(p >= 0, p < smt.vlen(room), member(st, ns, smt.vseq(room)[p], s))),
                 member(st, ns, room, s))


def get_participants_contract():
    from pyvc.loops import GenSeq
    from pyvc.model import SV, MapT, Leaf

    def inv(lc):
        ns, room = lc.t('namespace'), lc.t('room')
        P = lc.map('participants')
        R = smt.vseq(room)
        s = z3.Const('gp_s', V)
        p = z3.Int('gp_p')
        st = lc.entry
        return {
            'sound': z3.ForAll([s], z3.Implies(P.c['dom'][s], z3.Exists([p], z3.And(p >= 0, p <= lc.i, member(st, ns, R[p], s))))),
            'complete': z3.ForAll([s, p], z3.Implies(z3.And(p >= 0, p <= lc.i, member(st, ns, R[p], s)), P.c['dom'][s])),
            'transports': z3.ForAll([s], z3.Implies(P.c['dom'][s], P.c['.'][s] == transport(st, ns, s))),
        }

    def post(c):
        ns, room = c.a.namespace, c.a.room
        P = c.result.sv
        s = z3.Const('gp_s', V)
        return {
            'only-members-of-addressed-rooms': z3.ForAll([s], z3.Implies(P.c['dom'][s], addressed(c.pre, ns, room, s))),
            'every-member-of-an-addressed-room': z3.ForAll([s], z3.Implies(addressed(c.pre, ns, room, s), P.c['dom'][s])),
            'with-their-transport': z3.ForAll([s], z3.Implies(P.c['dom'][s], P.c['.'][s] == transport(c.pre, ns, s))),
            'yields-pairs': z3.BoolVal(c.result.what == 'items'),
        }
    return Contract(
        target=BM + 'get_participants', schema=W, self_obj='manager', params={'namespace': 'V', 'room': 'V'},
        requires=lambda c: dict(struct(c.pre), **dict(i1(c.pre), **{'dom.room': room_domain(c.a.room)})),
        cases=[Case('participants', post=post, result_fresh=lambda c: GenSeq('items', SV.fresh(MapT(Leaf('V')), 'participants')))],
        loops={0: LoopSpec(inv, mod_vars=['participants'])},
        modifies=[], props=['C03'],
        must_fail=lambda c: {'participants:claims-nobody': c.result.sv.c['dom'] == z3.K(V, z3.BoolVal(False))})


def close_room_contract():
    def inv(lc):
        ns, room = lc.t('namespace'), lc.t('room')
        a, r, s = q3()
        d = {'member': z3.ForAll([a, r, s], member(lc.cur, a, r, s) == z3.And(member(lc.entry, a, r, s), z3.Not(z3.And(a == ns, r == room, lc.done[s])))),
             'transports-kept': vals_kept(lc.entry, lc.cur),
             'nonempty-kept': z3.Implies(z3.And(*nonempty(lc.entry).values()), z3.And(*nonempty(lc.cur).values())),
             'I1-kept': z3.Implies(room != NONE, z3.And(*i1(lc.cur).values()))}
        d.update(struct(lc.cur))
        return d

    def post(c):
        ns, room = c.a.namespace, c.a.room
        d = {'member': member_rel(c.pre, c.post, removed=lambda a, r, s: z3.And(a == ns, r == room)),
             'transports-kept': vals_kept(c.pre, c.post),
             'nonempty-kept': z3.Implies(z3.And(*nonempty(c.pre).values()), z3.And(*nonempty(c.post).values())),
             'I1-kept': z3.Implies(room != NONE, z3.And(*i1(c.post).values()))}
        d.update(struct(c.post))
        return d
    return Contract(
        target=BM + 'basic_close_room', schema=W, self_obj='manager', params={'room': 'V', 'namespace': 'V'},
        requires=lambda c: dict(struct(c.pre), **dict(i1(c.pre), **{'dom.single-room': z3.And(room_domain(c.a.room), z3.Not(is_room_list(c.a.room)))})),
        cases=[Case('closes', post=post)],
        loops={0: LoopSpec(inv, mod_state=[ROOMS])},
        modifies=[ROOMS], props=['C03'],
        must_fail=lambda c: {'closes:claims-nothing-changed': member_rel(c.pre, c.post)})


def register(reg):
    reg.add(is_connected_contract())
    reg.add(sid_from_eio_sid_contract())
    reg.add(eio_sid_from_sid_contract())
    reg.add(pre_disconnect_contract())
    reg.add(leave_room_contract())
    reg.add(enter_room_contract())
    reg.add(get_rooms_contract())
    reg.add(basic_disconnect_contract())
    reg.add(generate_ack_id_contract())
    reg.add(connect_contract())
    reg.add(trigger_callback_contract())
    reg.add(get_participants_contract())
    reg.add(close_room_contract())
