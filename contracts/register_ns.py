"""register_namespace (C17): a valid namespace object is bound to THIS server/client and stored under its own namespace."""
import z3
from pyvc import smt
from pyvc.smt import V, NONE, atom, Marker
from pyvc.contract import Contract, Case
from pyvc.dsl import A, log_grew
from pyvc.model import sv_equiv
from pyvc.externals import meth
from . import worlds

CALLS = ('g', 'calls')


def reg_contract(world, target, obj, setter):
    NH = (obj, 'namespace_handlers')
    me = atom(Marker('object:' + obj))

    def registered(c):
        h = c.a.namespace_handler
        n0, n1 = c.pre.get(*NH), c.post.get(*NH)
        k = meth(h, A('namespace'))
        x = z3.Const('rn_x', V)
        c0, c1 = c.pre.get(*CALLS), c.post.get(*CALLS)
        j = z3.Int('rn_j')
        return {
            'stored-under-its-own-namespace': z3.And(n1.c['dom'][k], n1.c['.'][k] == h),
            'other-registrations-kept': z3.ForAll([x], z3.Implies(x != k, z3.And(n1.c['dom'][x] == n0.c['dom'][x], n1.c['.'][x] == n0.c['.'][x]))),
            'bound-to-this-object': z3.Exists([j], z3.And(j >= c0.c['len'], j < c1.c['len'], c1.c['fn'][j] == meth(h, A(setter)),
                                                        c1.c['args#len'][j] == 1, c1.c['args#arr'][j][0] == me)),
        }

    def rejected(c):
        return {'nothing-registered': sv_equiv(c.post.get(*NH), c.pre.get(*NH)),
                'this-object-handed-to-nobody': z3.ForAll([z3.Int('rn_q')], z3.Implies(
                    z3.And(z3.Int('rn_q') >= c.pre.get(*CALLS).c['len'], z3.Int('rn_q') < c.post.get(*CALLS).c['len']),
                    z3.Not(z3.And(c.post.get(*CALLS).c['args#len'][z3.Int('rn_q')] >= 1, c.post.get(*CALLS).c['args#arr'][z3.Int('rn_q')][0] == me))))}
    return Contract(target=target, schema=world, self_obj=obj, params={'namespace_handler': 'V'},
                    cases=[Case('registered', post=registered),
                           Case('rejected', kind='raise', exc='ValueError', post=rejected, group='x'),
                           Case('handler-object-misbehaves', kind='raise', exc='Exception', group='x',
                                post=lambda c: {'raised-by-the-object-given': z3.BoolVal(bool(getattr(c.exc, 'from_app', False)))})],
                    modifies=[NH, CALLS], props=['C17'],
                    must_fail=lambda c: {} if c.result is None else {'registered:claims-nothing-stored': sv_equiv(c.post.get(*NH), c.pre.get(*NH))})


def register(reg):
    reg.add(reg_contract(worlds.SERVER, 'base_server.BaseServer.register_namespace', 'server', '_set_server'))
    reg.add(reg_contract(worlds.CLIENT, 'base_client.BaseClient.register_namespace', 'client', '_set_client'))
