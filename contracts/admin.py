"""C18 admin instrumentation: admin_connect's credential check, handler registration gated by mode/read_only, wrappers that
delegate unchanged and only ever talk to the admin namespace."""
import z3
from pyvc import smt
from pyvc.smt import V, B, I, NONE, atom
from pyvc.contract import Contract, Case
from pyvc.dsl import A, log_grew, entry_is
from pyvc.model import Schema, Leaf, sv_equiv
from pyvc.vals import S, PySeq, Fixed, View
from pyvc.externals import Recorder
from . import worlds

CALLS = ('g', 'calls')


def admin_world(name, cls):
    w = Schema(name)
    w.obj('adm', cls, fields={'auth': Leaf('V'), 'read_only': Leaf('V'), 'mode': Leaf('V'), 'admin_namespace': Leaf('V'),
                              'stop_stats_event': Leaf('V'), 'stats_task': Leaf('V')},
          consts={'sio': lambda eng, ctx: Recorder('sio'), 'event_buffer': lambda eng, ctx: Recorder('event_buffer'), 'admin_queue': lambda eng, ctx: Recorder('admin_queue'),
                  'server_stats_interval': lambda eng, ctx: S(z3.Const('cfg_stats_interval', V))})
    w.obj('g', ('$ext', 'Ghost'), fields=dict(worlds.GHOST))
    return w


ADM = admin_world('admin', ('admin', 'InstrumentedServer'))
AADM = admin_world('async_admin', ('async_admin', 'InstrumentedAsyncServer'))


def admin_connect_contract(world, target):
    auth = lambda c: c.pre.get('adm', 'auth').leaf()
    ca = lambda c: c.a.client_auth
    isdict = lambda c: smt.kind(auth(c)) == smt.K_DICT
    islist = lambda c: smt.kind(auth(c)) == smt.K_LIST

    def listed(c):
        p = z3.Int('ac_p')
        return z3.Exists([p], z3.And(p >= 0, p < smt.vlen(auth(c)), smt.vseq(auth(c))[p] == ca(c)))
    disabled = lambda c: z3.Not(smt.truthy(auth(c)))
    static_ok = lambda c: z3.Or(disabled(c), z3.And(isdict(c), ca(c) == auth(c)), z3.And(islist(c), listed(c)))
    static_bad = lambda c: z3.And(smt.truthy(auth(c)), z3.Or(z3.And(isdict(c), ca(c) != auth(c)), z3.And(islist(c), z3.Not(listed(c)))))
    predicate = lambda c: z3.And(smt.truthy(auth(c)), z3.Not(isdict(c)), z3.Not(islist(c)))

    def asked(c, accept):
        c0, c1 = c.pre.get(*CALLS), c.post.get(*CALLS)
        n = c0.c['len']
        return {'the-configured-predicate-is-asked-once-about-this-payload': z3.And(log_grew(c0, c1, 1), entry_is(c, c1, n, fn=auth(c), args=PySeq([Fixed([S(ca(c))])], 'tuple'))),
                'and-its-verdict-decides': smt.truthy(c1.c['ret'][n]) if accept else z3.Not(smt.truthy(c1.c['ret'][n]))}
    quiet = lambda c: {'no-predicate-involved': sv_equiv(c.post.get(*CALLS), c.pre.get(*CALLS))}
    return Contract(
        target=target, schema=world, self_obj='adm', params={'sid': 'V', 'environ': 'V', 'client_auth': 'V'},
        cases=[Case('credentials-match-or-auth-disabled', when=static_ok, post=quiet),
               Case('credentials-match.refused', when=static_ok, kind='raise', exc='Exception', forbid=True),
               Case('credentials-do-not-match', when=static_bad, kind='raise', exc='sio.ConnectionRefusedError', post=quiet),
               Case('credentials-do-not-match.accepted', when=static_bad, forbid=True),
               Case('predicate-accepts', when=predicate, post=lambda c: asked(c, True)),
               Case('predicate-refuses', when=predicate, kind='raise', exc='sio.ConnectionRefusedError', post=lambda c: asked(c, False), group='px'),
               Case('predicate-raises', when=predicate, kind='raise', exc='Exception', post=lambda c: {}, group='px')],
        modifies=[CALLS, ('adm', 'stop_stats_event'), ('adm', 'stats_task')], props=['C18'],
        must_fail=lambda c: {'credentials-match-or-auth-disabled:claims-predicate-asked': c.post.get(*CALLS).c['len'] == c.pre.get(*CALLS).c['len'] + 1})


WRITE_EVENTS = ['emit', 'join', 'leave', '_disconnect']


def instrument_contract(world, target):
    def registered(c):
        out = []
        for n in c.ctx.notes:
            if n[0] == 'api' and n[1] == 'sio.on':
                args = n[2]
                ev = args.items()[0] if args.fixed_len() else None
                out.append((ev, n[3]))
        return out

    def post(c):
        ro = smt.truthy(c.pre.get('adm', 'read_only').leaf())
        dev = c.pre.get('adm', 'mode').leaf() == A('development')
        regs = registered(c)
        names = [e.t for e, kw in regs if isinstance(e, S)]
        has = lambda nm: z3.Or(*[t == A(nm) for t in names]) if names else z3.BoolVal(False)
        d = {'connect-is-always-gated-by-admin_connect': has('connect'),
             'only-on-the-admin-namespace': z3.And(*[c.eng.to_v(c.ctx, kw.get('namespace', S(NONE))) == c.pre.get('adm', 'admin_namespace').leaf() for e, kw in regs]) if regs else z3.BoolVal(True)}
        for w_ in WRITE_EVENTS:
            d['read-only-or-production.no-%s-handler' % w_] = z3.Implies(z3.Or(ro, z3.Not(dev)), z3.Not(has(w_)))
            d['development-read-write.%s-handler' % w_] = z3.Implies(z3.And(z3.Not(ro), dev), has(w_))
        return d
    return Contract(target=target, schema=world, self_obj='adm', params={}, cases=[Case('registers', post=post)], modifies=[], props=['C18'],
                    must_fail=lambda c: {'registers:claims-no-connect-handler': z3.BoolVal(False) if not [n for n in c.ctx.notes if n[0] == 'api' and n[1] == 'sio.on'] else z3.BoolVal(False)})


def register(reg):
    for w, m_, c_ in ((ADM, 'admin', 'InstrumentedServer'), (AADM, 'async_admin', 'InstrumentedAsyncServer')):
        reg.add(admin_connect_contract(w, '%s.%s.admin_connect' % (m_, c_)))
        reg.add(instrument_contract(w, '%s.%s.instrument' % (m_, c_)))


# ============================================================================ wrappers installed by instrument()
from pyvc.contract import LoopSpec
ALLOWED_PREFIXES = ('admin_queue', 'time.', 'datetime.', 'sio.manager.eio_sid_from_sid', 'sio.manager.get_participants', 'sio.eio._get_socket', 'sio.eio', 'sio.manager._timestamps',
                    'sio.transport', 'sio.get_environ', 'sio.manager.get_rooms', 'sio.environ', 'sio.sleep', 'sio.start_background_task', 'sio.manager')


def emits_only_to_admins(c, notes):
    ns = c.pre.get('adm', 'admin_namespace').leaf() if hasattr(c, 'pre') else c.entry.get('adm', 'admin_namespace').leaf()
    ctx, eng = c.ctx, c.eng
    parts = []
    for n in notes:
        if n[0] == 'api' and n[1] == 'sio.emit':
            kw = n[3]
            parts.append(eng.to_v(ctx, kw['namespace']) == ns if 'namespace' in kw else z3.BoolVal(False))
    return z3.And(*parts) if parts else z3.BoolVal(True)


EXTRA_KW = ('to', 'ignore_queue')      # what Server.emit / the pub/sub managers pass on through **kwargs: two representative names


def extra_kwargs(eng, ctx, name):
    """**kwargs of a wrapper: arbitrary values under the keyword names the callers use (the wrapper must hand them all on)"""
    return ctx.alloc('map', {smt.atom(k): S(z3.Const('p_kw_' + k, V)) for k in EXTRA_KW})


def wrapper_contract(world, target, orig_path, params, pos_names, kw_names=(), loop=False, app_ns_param=None, extra_kw=()):
    def post(c):
        notes = c.ctx.notes
        origs = [n for n in notes if n[0] == 'api' and n[1] == orig_path]
        d = {'delegates-exactly-once-to-the-original': z3.BoolVal(len(origs) == 1)}
        if len(origs) == 1:
            _, _, args, kw, r = origs[0][:5]
            d['the-original-did-not-raise'] = z3.BoolVal(origs[0][5] is None)
            exp = []
            for p in pos_names:
                v = c.vals[p]
                exp.append(v)
            if pos_names and isinstance(c.vals[pos_names[-1]], PySeq) and pos_names[-1] == 'args':
                expected = PySeq([Fixed([c.vals[p] for p in pos_names[:-1]])] + list(c.vals['args'].segs), 'tuple')
            else:
                expected = PySeq([Fixed([c.vals[p] for p in pos_names])], 'tuple')
            d['with-the-same-positional-arguments'] = c.eng.seq_eq(c.ctx, args, expected)
            for k in kw_names:
                d['with-the-same-%s' % k] = (c.eng.to_v(c.ctx, kw[k]) == c.eng.to_v(c.ctx, c.vals[k])) if k in kw else z3.BoolVal(False)
            for k in extra_kw:
                d['hands-on-the-extra-keyword-argument-%s' % k] = (c.eng.to_v(c.ctx, kw[k]) == z3.Const('p_kw_' + k, V)) if k in kw else z3.BoolVal(False)
            if extra_kw or kw_names:
                d['and-no-keyword-argument-of-its-own'] = z3.BoolVal(set(kw) <= set(kw_names) | set(extra_kw))
            d['and-returns-its-result'] = c.res_v() == c.eng.to_v(c.ctx, r)
        d['everything-else-goes-to-the-admin-namespace-only'] = emits_only_to_admins(c, notes)
        others = [n for n in notes if n[0] == 'api' and n[1] not in (orig_path, 'sio.emit') and not n[1].startswith(ALLOWED_PREFIXES)
                  and not n[1].split('()')[0].startswith(ALLOWED_PREFIXES)]
        d['no-other-operation-on-the-server'] = z3.BoolVal(len(others) == 0)
        return d
    def propagated(c):
        origs = [n for n in c.ctx.notes if n[0] == 'api' and n[1] == orig_path]
        raised_by_orig = [n for n in origs if n[5] is not None]
        d = {'everything-else-goes-to-the-admin-namespace-only': emits_only_to_admins(c, c.ctx.notes)}
        if raised_by_orig:
            d['the-originals-exception-reaches-the-caller-unchanged'] = z3.BoolVal(raised_by_orig[0][5] is c.exc)
        return d

    loops = {0: LoopSpec(lambda lc: ({'admin-namespace-only': emits_only_to_admins(lc, lc.ctx.notes)} if lc.label == 'step' else {}),
                         mod_vars=[])} if loop else {}
    return Contract(
        target=target, schema=world, self_obj='adm', params=params,
        requires=lambda c: {'admin-namespace-is-not-none': c.pre.get('adm', 'admin_namespace').leaf() != NONE},
        cases=[Case('transparent', post=post),
               Case('original-raises-or-unknown-client', kind='raise', exc='Exception', post=propagated)],
        loops=loops, modifies=[], props=['C18'], env_hook=lambda eng, ctx: (setattr(eng.ext, 'recorder_raises', {orig_path}), setattr(eng.ext, 'recorder_lookup_fails', True)))


_reg_w = register


def register(reg):
    _reg_w(reg)
    for w, m_, c_ in ((ADM, 'admin', 'InstrumentedServer'), (AADM, 'async_admin', 'InstrumentedAsyncServer')):
        t = '%s.%s.' % (m_, c_)
        reg.add(wrapper_contract(w, t + '_basic_enter_room', 'sio.manager.__basic_enter_room', {'sid': 'V', 'namespace': 'V', 'room': 'V', 'eio_sid': 'V'},
                                 ['sid', 'namespace', 'room', 'eio_sid']))
        reg.add(wrapper_contract(w, t + '_basic_leave_room', 'sio.manager.__basic_leave_room', {'sid': 'V', 'namespace': 'V', 'room': 'V'},
                                 ['sid', 'namespace', 'room']))
        reg.add(wrapper_contract(w, t + '_emit', 'sio.manager.__emit', {'event': 'V', 'data': 'V', 'namespace': 'V', 'room': 'V', 'skip_sid': 'V', 'callback': 'V',
                                                                       'kwargs': extra_kwargs},
                                 ['event', 'data', 'namespace'], kw_names=['room', 'skip_sid', 'callback'], loop=True, extra_kw=EXTRA_KW))


_reg_w2 = register


def register(reg):
    _reg_w2(reg)
    for w, m_, c_ in ((ADM, 'admin', 'InstrumentedServer'), (AADM, 'async_admin', 'InstrumentedAsyncServer')):
        k = wrapper_contract(w, '%s.%s._trigger_event' % (m_, c_), 'sio.__trigger_event', {'event': 'V', 'namespace': 'V', 'args': ('seq', 'tuple')},
                             ['event', 'namespace', 'args'])
        req0 = k.requires
        k.requires = lambda c, req0=req0: dict(req0(c), **{'the-session-id-comes-first': c.vals['args'].length() >= 1})
        k.abstract_calls = ('.serialize_socket',)
        reg.add(k)
