"""PubSubManager.can_disconnect (C07): the gate of Server.disconnect() on a cluster - a client that lives on another host is
disconnected by a message for that host, and the caller is told not to do it locally."""
import z3
from pyvc import smt
from pyvc.smt import NONE
from pyvc.contract import Contract, Case, delegated
from pyvc.dsl import A
from pyvc.model import sv_equiv
from .pubsub import PS, APS, PUB, base_req, connected, eff, own, published_one, nothing_published


def can_disconnect_contract(world, target, server_suffix, sync):
    here = lambda c: connected(c.pre, c.a.namespace, c.a.sid)

    def local(c):
        return {'caller-may-disconnect-it-here': smt.truthy(c.res_v()), 'nothing-published': nothing_published(c)}

    def remote(c):
        d = {'one-message-for-the-owning-host': published_one(c, method=A('disconnect'), sid=c.a.sid, namespace=eff(c.a.namespace), host_id=own(c)),
             'no-local-membership-changes': sv_equiv(c.post.get('manager', 'rooms'), c.pre.get('manager', 'rooms')),
             'nothing-sent-from-here': sv_equiv(c.post.get('g', 'out'), c.pre.get('g', 'out'))}
        d['caller-must-not-disconnect-it-here'] = z3.Not(smt.truthy(c.res_v()))
        return d
    return Contract(
        target=target, schema=world, self_obj='manager', params={'sid': 'V', 'namespace': 'V'},
        requires=lambda c: dict(base_req(c), **{'dom.namespace-already-defaulted-by-the-server': smt.truthy(c.a.namespace)}),
        cases=[Case('client-is-here', when=here, post=local),
               Case('client-is-elsewhere', when=lambda c: z3.Not(here(c)), post=remote),
               ],
        modifies=[('manager', 'rooms'), ('manager', 'callbacks'), ('manager', 'pending_disconnect'), ('g', 'disp'), ('g', 'calls'), ('g', 'out'), ('g', 'raw'), PUB],
        props=['C07'])


def register(reg):
    reg.add(can_disconnect_contract(PS, 'pubsub_manager.PubSubManager.can_disconnect', 'Server.disconnect', True))
    reg.add(can_disconnect_contract(APS, 'async_pubsub_manager.AsyncPubSubManager.can_disconnect', 'AsyncServer.disconnect', False))
