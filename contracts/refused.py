"""ConnectionRefusedError.__init__ (C04): what a refusing connect handler passes becomes the payload of the CONNECT_ERROR packet."""
import z3
from pyvc import smt
from pyvc.smt import V, NONE, atom
from pyvc.model import Schema
from pyvc.contract import Contract, Case
from pyvc.dsl import A
from pyvc.vals import S, PySeq
from . import worlds

W = Schema('exc')
W.obj('g', ('$ext', 'Ghost'), fields=dict(worlds.GHOST))
DEFAULT = A('Connection rejected by server')
from pyvc.externals import str_of


def contract():
    def me(eng, ctx):
        return ctx.alloc('rec', {}, cls='socketio.exceptions.ConnectionRefusedError')

    def post(c):
        args = c.vals['args']
        n = args.length()
        rec = c.ctx.heap[c.vals['self'].id].data
        ea = rec.get('error_args')
        if ea is None:
            return {'error_args-set': z3.BoolVal(False)}
        e = c.v(ea)
        first = c.eng.seq_at(c.ctx, args, z3.IntVal(0))
        second = c.eng.seq_at(c.ctx, args, z3.IntVal(1))
        msg = smt.vget(e, A('message'))
        data = smt.vget(e, A('data'))
        j = z3.Int('cr_j')
        return {
            'a-dict-with-a-message': z3.And(smt.kind(e) == smt.K_DICT, smt.vhas(e, A('message'))),
            'no-argument.default-message-and-nothing-else': z3.Implies(n == 0, z3.And(msg == DEFAULT, smt.vlen(e) == 1)),
            'message-is-the-first-argument-as-text': z3.Implies(n >= 1, msg == str_of(first)),
            'one-argument.message-only': z3.Implies(n == 1, smt.vlen(e) == 1),
            'two-arguments.data-is-the-second': z3.Implies(n == 2, z3.And(smt.vhas(e, A('data')), data == second, smt.vlen(e) == 2)),
            'more.data-is-the-tuple-of-the-rest': z3.Implies(n > 2, z3.And(smt.vhas(e, A('data')), smt.kind(data) == smt.K_TUPLE, smt.vlen(data) == n - 1,
                                                                             z3.ForAll([j], z3.Implies(z3.And(j >= 0, j < n - 1), smt.vseq(data)[j] == c.eng.seq_at(c.ctx, args, j + 1))))),
        }
    return Contract(target='exceptions.ConnectionRefusedError.__init__', schema=W, self_obj=None, self_rec=me, params={'args': ('seq', 'tuple')},
                    cases=[Case('builds-the-error-payload', post=post)], modifies=[], props=['C04'])


def register(reg):
    reg.add(contract())
