"""Schemas ("worlds"): the singleton objects a family of functions lives in, their typed state, ghost logs."""
import z3
from pyvc import smt
from pyvc.smt import V, B, I, atom, Marker
from pyvc.model import Schema, Leaf, MapT, BidictT, BagT, SeqT, RecT, OptT, LogT
from pyvc.vals import S, ClassV, PySeq, Fixed

NOT_HANDLED = Marker('not_handled')
SERVER_REASONS = ['CLIENT_DISCONNECT', 'PING_TIMEOUT', 'SERVER_DISCONNECT', 'TRANSPORT_CLOSE', 'TRANSPORT_ERROR']
CLIENT_REASONS = ['CLIENT_DISCONNECT', 'SERVER_DISCONNECT', 'TRANSPORT_ERROR']


def reason_rec(names):
    def mk(eng, ctx):
        return ctx.alloc('rec', {n: S(atom('reason:' + n.lower().replace('_', ' '))) for n in names}, cls='reason')
    return mk

PACKET = RecT('Packet', {
    'packet_type': Leaf('V'), 'data': Leaf('V'), 'namespace': Leaf('V'), 'id': Leaf('V'),
    'attachment_count': Leaf('I'), 'attachments': SeqT('V')})

# ghost logs (DESIGN.md 3.5)
CALLS = LogT({'fn': 'V', 'args': 'seq', 'ret': 'V'})                     # application handler / callback invocations
OUT = MapT(LogT({'ptype': 'V', 'ns': 'V', 'id': 'V', 'data': 'V'}), total=True)   # packets queued per transport
RAW = MapT(LogT({'frame': 'V'}), total=True)                   # engine.io frames queued per transport
TASKS = LogT({'fn': 'V', 'args': 'seq'})                       # background tasks started
DISP = LogT({'event': 'V', 'ns': 'V', 'args': 'seq', 'ret': 'V', 'raised': 'V', 'err': 'V'})   # abstract effect: one dispatch of an event to the responsible target (defined by C13)

ISSUED = MapT(Leaf('B'), total=True)                            # session ids ever returned by eio.generate_id()
EVENTS = MapT(Leaf('B'), total=True)                            # the flag of each threading.Event / asyncio.Event object
WAITS = LogT({'ev': 'V', 'timeout': 'R', 'woke': 'B'})             # Event.wait(timeout) calls with a numeric timeout, in order
ATTEMPTS = LogT({'url': 'V', 'headers': 'V', 'auth': 'V', 'transports': 'V', 'namespaces': 'V', 'path': 'V', 'ok': 'B'})   # Client.connect() calls
GHOST = {'waits': WAITS, 'attempts': ATTEMPTS, 'events': EVENTS, 'calls': CALLS, 'out': OUT, 'raw': RAW, 'tasks': TASKS, 'disp': DISP, 'issued': ISSUED}


def server_world(name='server', server_cls=('server', 'Server'), manager_cls=('manager', 'Manager')):
    w = Schema(name)
    w.obj('server', server_cls, fields={
        'handlers': MapT(MapT(Leaf('V'))),
        'namespace_handlers': MapT(Leaf('V')),
        'environ': MapT(Leaf('V')),
        '_binary_packet': MapT(PACKET),
        'async_handlers': Leaf('B'),
        'always_connect': Leaf('B'),
        'namespaces': Leaf('V'),
        'manager_initialized': Leaf('B'),
    }, links={'manager': 'manager', 'eio': 'eio'}, consts={
        'not_handled': lambda eng, ctx: S(atom(NOT_HANDLED)),
        'packet_class': lambda eng, ctx: ClassV('socketio.packet.Packet'),
        'reason': reason_rec(SERVER_REASONS),
        'logger': lambda eng, ctx: S(atom(Marker('logger'))),
    })
    w.obj('manager', manager_cls, fields={
        'rooms': MapT(MapT(BidictT())),
        'callbacks': MapT(MapT(Leaf('V'))),
        'ack_next': MapT(Leaf('I'), total=True),          # ghost: next value of the itertools.count stored in callbacks[sid][0]
        'pending_disconnect': MapT(BagT()),
    }, links={'server': 'server'}, consts={
        'logger': lambda eng, ctx: S(atom(Marker('logger'))),
    })
    w.obj('eio', ('$ext', 'EioServer'), fields={
        'sessions': MapT(MapT(Leaf('V'))),      # engine.io socket sessions: transport id -> {namespace: user session}
    })
    w.obj('g', ('$ext', 'Ghost'), fields=dict(GHOST))
    return w


SERVER = server_world()
ASYNC_SERVER = server_world('async_server', ('async_server', 'AsyncServer'), ('async_manager', 'AsyncManager'))


def client_world(name='client', client_cls=('client', 'Client')):
    w = Schema(name)
    w.obj('client', client_cls, fields={
        'handlers': MapT(MapT(Leaf('V'))),
        'namespace_handlers': MapT(Leaf('V')),
        'namespaces': MapT(Leaf('V')),                   # connected namespace -> session id
        'connected': Leaf('B'),
        'callbacks': MapT(MapT(Leaf('V'))),
        'ack_next': MapT(Leaf('I'), total=True),          # ghost: next value of the counter kept in callbacks[ns]
        '_binary_packet': OptT(PACKET),
        'sid': Leaf('V'),
        'connection_url': Leaf('V'), 'connection_headers': Leaf('V'), 'connection_auth': Leaf('V'),
        'connection_transports': Leaf('V'), 'connection_namespaces': Leaf('V'), 'socketio_path': Leaf('V'),
        '_connect_event': Leaf('V'), '_reconnect_task': Leaf('V'), '_reconnect_abort': Leaf('V'),
        'reconnection': Leaf('V'), 'reconnection_attempts': Leaf('I'), 'reconnection_delay': Leaf('R'),
        'reconnection_delay_max': Leaf('R'), 'randomization_factor': Leaf('R'),
    }, links={'eio': 'eio'}, consts={
        'logger': lambda eng, ctx: S(atom(Marker('logger'))),
        'packet_class': lambda eng, ctx: ClassV('socketio.packet.Packet'),
        'reason': reason_rec(CLIENT_REASONS),
    })
    w.obj('eio', ('$ext', 'EioClient'), fields={'state': Leaf('V'), 'sid': Leaf('V')})
    w.obj('g', ('$ext', 'Ghost'), fields=dict(GHOST))
    return w


CLIENT = client_world()
ASYNC_CLIENT = client_world('async_client', ('async_client', 'AsyncClient'))
