"""Client state (C08): _handle_connect, _handle_disconnect, _handle_error, _handle_eio_connect, _handle_eio_disconnect."""
import z3
from pyvc import smt
from pyvc.smt import V, B, I, NONE, atom
from pyvc.contract import Contract, Case, LoopSpec
from pyvc.dsl import A, log_grew, entry_is, tup
from pyvc.model import sv_equiv
from pyvc.vals import S, PySeq, Fixed, View
from . import worlds, c13
from .server_events import eff_ns, DISP, CALLS, OUT, out_one, out_same_at, SLASH
from .client_events import CBS, NEXT, NSS, ccb_ok, NAMES
from .eio_model import THE_CONNECTION, CONNECTED

CONN = ('client', 'connected')
BINP = ('client', '_binary_packet')
SID = ('client', 'sid')
EVENTS = ('g', 'events')
TASKS = ('g', 'tasks')
RTASK = ('client', '_reconnect_task')
R_SERVER = atom('reason:server disconnect')


def nss(st):
    return st.get(*NSS)


def connected(st):
    return st.get(*CONN).leaf()


def dispatched(c, pre_disp, post_disp, idx, ev, ns, args):
    return entry_is(c, post_disp, idx, event=ev, ns=ns, args=args)


def maybe_dispatch(c, d0, d1, ev, ns, args):
    """one dispatch of (ev, ns, args) iff somebody is responsible for it"""
    has = c13.target_exists(c.pre, 'client', ns, A(ev) if isinstance(ev, str) else ev, NAMES)
    evt = A(ev) if isinstance(ev, str) else ev
    return z3.If(has, z3.And(log_grew(d0, d1, 1), entry_is(c, d1, d0.c['len'], event=evt, ns=ns, args=args)), sv_equiv(d1, d0))


def base_req(c):
    d = dict(c13.handlers_ok(c.pre, 'client'))
    d.update(ccb_ok(c.pre))
    return d


def handle_connect_contract(world, target):
    def ns_(c):
        return eff_ns(c.a.namespace)

    def sid_of(c):
        d_ = c.a.data
        return z3.If(z3.And(smt.truthy(d_), smt.vhas(d_, A('sid'))), smt.vget(d_, A('sid')), c.pre.get(*SID).leaf())

    def accepted(c):
        ns = ns_(c)
        n0, n1 = nss(c.pre), nss(c.post)
        x = z3.Const('hc_x', V)
        ev = c.pre.get('client', '_connect_event').leaf()
        return {'namespace-recorded-with-its-sid': z3.And(n1.c['dom'][ns], n1.c['.'][ns] == sid_of(c)),
                'other-namespaces-kept': z3.ForAll([x], z3.Implies(x != ns, z3.And(n1.c['dom'][x] == n0.c['dom'][x], n1.c['.'][x] == n0.c['.'][x]))),
                'connect-handler-runs-once': maybe_dispatch(c, c.pre.get(*DISP), c.post.get(*DISP), 'connect', ns, PySeq([], 'tuple')),
                'waiter-woken': c.post.get(*EVENTS).c['.'][ev]}
    fresh = lambda c: z3.Not(nss(c.pre).c['dom'][ns_(c)])
    return Contract(
        target=target, schema=world, self_obj='client', params={'namespace': 'V', 'data': 'V'},
        requires=lambda c: dict(base_req(c), **{'dom.ns-not-star': ns_(c) != c13.STAR,
                                                'payload-is-a-dict-or-none': z3.Or(c.a.data == NONE, smt.kind(c.a.data) == smt.K_DICT)}),
        cases=[Case('first-acceptance', when=fresh, post=accepted),
               Case('first-acceptance.handler-raises', when=fresh, kind='raise', exc='Exception',
                    post=lambda c: {k: v for k, v in accepted(c).items() if k != 'waiter-woken'}),
               Case('repeated-acceptance', when=lambda c: z3.Not(fresh(c)), update=lambda c: None)],
        modifies=[NSS, DISP, CALLS, EVENTS], props=['C08'],
        must_fail=lambda c: {'first-acceptance:claims-not-recorded': z3.Not(nss(c.post).c['dom'][ns_(c)])})


def handle_disconnect_contract(world, target):
    def ns_(c):
        return eff_ns(c.a.namespace)

    def effect(c, known):
        ns = ns_(c)
        n0, n1 = nss(c.pre), nss(c.post)
        d0, d1 = c.pre.get(*DISP), c.post.get(*DISP)
        x = z3.Const('hd_x', V)
        has_d = c13.target_exists(c.pre, 'client', ns, A('disconnect'), NAMES)
        has_f = c13.target_exists(c.pre, 'client', ns, A('__disconnect_final'), NAMES)
        n = d0.c['len']
        k1 = z3.If(has_d, 1, 0)
        reason_args = PySeq([Fixed([S(R_SERVER)])], 'tuple')
        d = {
            'disconnect-handler-runs-once': z3.And(log_grew(d0, d1, k1 + z3.If(has_f, 1, 0)),
                                                   z3.Implies(has_d, entry_is(c, d1, n, event=A('disconnect'), ns=ns, args=reason_args)),
                                                   z3.Implies(has_f, entry_is(c, d1, n + k1, event=A('__disconnect_final'), ns=ns, args=PySeq([], 'tuple')))),
            'namespace-forgotten': z3.Not(n1.c['dom'][ns]),
            'other-namespaces-kept': z3.ForAll([x], z3.Implies(x != ns, z3.And(n1.c['dom'][x] == n0.c['dom'][x], n1.c['.'][x] == n0.c['.'][x]))),
            'connected-flag-cleared-with-the-last-namespace': connected(c.post) == z3.Not(n1.c['dom'] == z3.K(V, z3.BoolVal(False))),
        }
        return d
    is_conn = lambda c: connected(c.pre)
    known = lambda c: z3.And(is_conn(c), nss(c.pre).c['dom'][ns_(c)])
    unknown = lambda c: z3.And(is_conn(c), z3.Not(nss(c.pre).c['dom'][ns_(c)]))

    def unknown_post(c):
        # the statement: "the disconnect handler runs exactly once for each namespace that was connected" -> nothing runs here
        return {'no-handler-runs-for-a-namespace-that-is-not-connected': sv_equiv(c.post.get(*DISP), c.pre.get(*DISP)),
                'namespaces-unchanged': sv_equiv(nss(c.post), nss(c.pre)),
                'connected-flag': connected(c.post) == z3.Not(nss(c.pre).c['dom'] == z3.K(V, z3.BoolVal(False)))}

    def unknown_residual(c):
        return {'no-handler-runs-for-a-namespace-that-is-not-connected': z3.BoolVal(True)}
    return Contract(
        target=target, schema=world, self_obj='client', params={'namespace': 'V'},
        requires=lambda c: dict(base_req(c), **{'dom.ns-not-star': ns_(c) != c13.STAR}),
        cases=[Case('connected-namespace', when=known, post=lambda c: effect(c, True)),
               Case('connected-namespace.handler-raises', when=known, kind='raise', exc='Exception', post=lambda c: {}),
               Case('namespace-not-connected', when=unknown, post=unknown_post, residual=unknown_residual),
               Case('namespace-not-connected.handler-raises', when=unknown, kind='raise', exc='Exception', post=lambda c: {}),
               Case('client-not-connected', when=lambda c: z3.Not(is_conn(c)), update=lambda c: None)],
        modifies=[NSS, CONN, DISP, CALLS, ('eio', 'state'), CBS, BINP, SID, RTASK, TASKS], props=['C08'],
        must_fail=lambda c: {'connected-namespace:claims-kept': nss(c.post).c['dom'][ns_(c)]})


def register(reg):
    for w, m_, c_ in ((worlds.CLIENT, 'client', 'Client'), (worlds.ASYNC_CLIENT, 'async_client', 'AsyncClient')):
        reg.add(handle_connect_contract(w, '%s.%s._handle_connect' % (m_, c_)))
        reg.add(handle_disconnect_contract(w, '%s.%s._handle_disconnect' % (m_, c_)))
