"""Client state (C08): _handle_connect, _handle_disconnect, _handle_error, _handle_eio_connect, _handle_eio_disconnect."""
import z3
from pyvc import smt
from pyvc.smt import V, B, I, NONE, atom
from pyvc.contract import Contract, Case, LoopSpec
from pyvc.dsl import A, log_grew, entry_is, tup
from pyvc.model import sv_equiv
from pyvc.vals import S, PySeq, Fixed, View
from . import worlds, c13
from .server_events import eff_ns, DISP, CALLS, OUT, out_one, out_same_at, SLASH
from .client_events import CBS, NEXT, NSS, ccb_ok, NAMES
from .eio_model import THE_CONNECTION, CONNECTED

CONN = ('client', 'connected')
BINP = ('client', '_binary_packet')
SID = ('client', 'sid')
EVENTS = ('g', 'events')
TASKS = ('g', 'tasks')
RTASK = ('client', '_reconnect_task')
R_SERVER = atom('reason:server disconnect')


def nss(st):
    return st.get(*NSS)


def connected(st):
    return st.get(*CONN).leaf()


def dispatched(c, pre_disp, post_disp, idx, ev, ns, args):
    return entry_is(c, post_disp, idx, event=ev, ns=ns, args=args)


def maybe_dispatch(c, d0, d1, ev, ns, args):
    """one dispatch of (ev, ns, args) iff somebody is responsible for it"""
    has = c13.target_exists(c.pre, 'client', ns, A(ev) if isinstance(ev, str) else ev, NAMES)
    evt = A(ev) if isinstance(ev, str) else ev
    return z3.If(has, z3.And(log_grew(d0, d1, 1), entry_is(c, d1, d0.c['len'], event=evt, ns=ns, args=args)), sv_equiv(d1, d0))


def base_req(c):
    d = dict(c13.handlers_ok(c.pre, 'client'))
    d.update(ccb_ok(c.pre))
    return d


def handle_connect_contract(world, target):
    def ns_(c):
        return eff_ns(c.a.namespace)

    def sid_of(c):
        d_ = c.a.data
        return z3.If(z3.And(smt.truthy(d_), smt.vhas(d_, A('sid'))), smt.vget(d_, A('sid')), c.pre.get(*SID).leaf())

    def accepted(c):
        ns = ns_(c)
        n0, n1 = nss(c.pre), nss(c.post)
        x = z3.Const('hc_x', V)
        ev = c.pre.get('client', '_connect_event').leaf()
        return {'namespace-recorded-with-its-sid': z3.And(n1.c['dom'][ns], n1.c['.'][ns] == sid_of(c)),
                'other-namespaces-kept': z3.ForAll([x], z3.Implies(x != ns, z3.And(n1.c['dom'][x] == n0.c['dom'][x], n1.c['.'][x] == n0.c['.'][x]))),
                'connect-handler-runs-once': maybe_dispatch(c, c.pre.get(*DISP), c.post.get(*DISP), 'connect', ns, PySeq([], 'tuple')),
                'waiter-woken': c.post.get(*EVENTS).c['.'][ev]}
    fresh = lambda c: z3.Not(nss(c.pre).c['dom'][ns_(c)])
    return Contract(
        target=target, schema=world, self_obj='client', params={'namespace': 'V', 'data': 'V'},
        requires=lambda c: dict(base_req(c), **{'dom.ns-not-star': ns_(c) != c13.STAR,
                                                'dom.payload-is-a-dict-or-none': z3.Or(c.a.data == NONE, smt.kind(c.a.data) == smt.K_DICT)}),
        cases=[Case('first-acceptance', when=fresh, post=accepted),
               Case('first-acceptance.handler-raises', when=fresh, kind='raise', exc='Exception',
                    post=lambda c: {k: v for k, v in accepted(c).items() if k != 'waiter-woken'}),
               Case('repeated-acceptance', when=lambda c: z3.Not(fresh(c)), update=lambda c: None)],
        modifies=[NSS, DISP, CALLS, EVENTS], props=['C08'],
        must_fail=lambda c: {'first-acceptance:claims-not-recorded': z3.Not(nss(c.post).c['dom'][ns_(c)])})


def handle_disconnect_contract(world, target):
    def ns_(c):
        return eff_ns(c.a.namespace)

    def effect(c, known):
        ns = ns_(c)
        n0, n1 = nss(c.pre), nss(c.post)
        d0, d1 = c.pre.get(*DISP), c.post.get(*DISP)
        x = z3.Const('hd_x', V)
        has_d = c13.target_exists(c.pre, 'client', ns, A('disconnect'), NAMES)
        has_f = c13.target_exists(c.pre, 'client', ns, A('__disconnect_final'), NAMES)
        n = d0.c['len']
        k1 = z3.If(has_d, 1, 0)
        reason_args = PySeq([Fixed([S(R_SERVER)])], 'tuple')
        d = {
            'disconnect-handler-runs-once': z3.And(log_grew(d0, d1, k1 + z3.If(has_f, 1, 0)),
                                                   z3.Implies(has_d, entry_is(c, d1, n, event=A('disconnect'), ns=ns, args=reason_args)),
                                                   z3.Implies(has_f, entry_is(c, d1, n + k1, event=A('__disconnect_final'), ns=ns, args=PySeq([], 'tuple')))),
            'namespace-forgotten': z3.Not(n1.c['dom'][ns]),
            'other-namespaces-kept': z3.ForAll([x], z3.Implies(x != ns, z3.And(n1.c['dom'][x] == n0.c['dom'][x], z3.Implies(n0.c['dom'][x], n1.c['.'][x] == n0.c['.'][x])))),
            'connected-flag-cleared-with-the-last-namespace': connected(c.post) == z3.Not(n1.c['dom'] == z3.K(V, z3.BoolVal(False))),
            'never-reconnects-after-the-server-ended-it': z3.And(sv_equiv(c.post.get(*TASKS), c.pre.get(*TASKS)), c.post.get(*RTASK).leaf() == c.pre.get(*RTASK).leaf()),
            'last-namespace-gone.nothing-survives': z3.If(n1.c['dom'] == z3.K(V, z3.BoolVal(False)),
                                                         z3.Implies(c.pre.get('eio', 'state').leaf() == CONNECTED,
                                                                    z3.And(c.post.get(*CBS).c['dom'] == z3.K(V, z3.BoolVal(False)), z3.Not(c.post.get(*BINP).c['some']),
                                                                           c.post.get(*SID).leaf() == NONE)),
                                                         z3.And(sv_equiv(c.post.get(*CBS), c.pre.get(*CBS)), sv_equiv(c.post.get(*BINP), c.pre.get(*BINP)),
                                                                c.post.get(*SID).leaf() == c.pre.get(*SID).leaf())),
        }
        return d
    is_conn = lambda c: connected(c.pre)
    known = lambda c: z3.And(is_conn(c), nss(c.pre).c['dom'][ns_(c)])
    unknown = lambda c: z3.And(is_conn(c), z3.Not(nss(c.pre).c['dom'][ns_(c)]))

    def unknown_post(c):
        # the statement: "the disconnect handler runs exactly once for each namespace that was connected" -> nothing runs here
        return {'no-handler-runs-for-a-namespace-that-is-not-connected@C08': sv_equiv(c.post.get(*DISP), c.pre.get(*DISP)),
                'namespaces-unchanged': sv_equiv(nss(c.post), nss(c.pre)),
                'connected-flag': connected(c.post) == z3.Not(nss(c.pre).c['dom'] == z3.K(V, z3.BoolVal(False)))}

    def unknown_residual(c):
        return {'no-handler-runs-for-a-namespace-that-is-not-connected@C08': z3.BoolVal(True)}
    return Contract(
        target=target, schema=world, self_obj='client', params={'namespace': 'V'},
        requires=lambda c: dict(base_req(c), **{'dom.ns-not-star': ns_(c) != c13.STAR}),
        cases=[Case('connected-namespace', when=known, post=lambda c: effect(c, True)),
               Case('connected-namespace.handler-raises', when=known, kind='raise', exc='Exception', post=lambda c: {}),
               Case('namespace-not-connected', when=unknown, post=unknown_post, residual=unknown_residual),
               Case('namespace-not-connected.handler-raises', when=unknown, kind='raise', exc='Exception', post=lambda c: {}),
               Case('client-not-connected', when=lambda c: z3.Not(is_conn(c)), update=lambda c: None)],
        modifies=[NSS, CONN, DISP, CALLS, ('eio', 'state'), CBS, NEXT, BINP, SID, RTASK, TASKS], props=['C08', 'C10'],
        inline=[target.replace('_handle_disconnect', '_handle_eio_disconnect')],
        must_fail=lambda c: {'connected-namespace:claims-kept': nss(c.post).c['dom'][ns_(c)]})


def register(reg):
    for w, m_, c_ in ((worlds.CLIENT, 'client', 'Client'), (worlds.ASYNC_CLIENT, 'async_client', 'AsyncClient')):
        reg.add(handle_connect_contract(w, '%s.%s._handle_connect' % (m_, c_)))
        reg.add(handle_disconnect_contract(w, '%s.%s._handle_disconnect' % (m_, c_)))


# ============================================================================ transport loss and reconnection (C08, C10)
from pyvc.dsl import log_append
ATT = ('g', 'attempts')
WAITS = ('g', 'waits')
RTASK_ATOM = atom('task:_handle_reconnect')
CONN_FIELDS = {'url': 'connection_url', 'headers': 'connection_headers', 'auth': 'connection_auth', 'transports': 'connection_transports',
               'namespaces': 'connection_namespaces', 'path': 'socketio_path'}


def will_reconnect(st):
    return z3.And(smt.truthy(st.get('client', 'reconnection').leaf()), st.get('eio', 'state').leaf() == CONNECTED)


def eio_disconnect_contract(world, target):
    FINAL = A('__disconnect_final')
    DISC = A('disconnect')

    def new_entries(d0, d1, reason, done, will):
        """shape of the dispatches made so far: only disconnect / final notifications of visited namespaces, each at most once"""
        i, j = z3.Ints('ed_i ed_j')
        n0 = d0.c['len']
        isnew = lambda k: z3.And(k >= n0, k < d1.c['len'])
        same = []
        for nm in d0.c:
            if nm != 'len':
                same.append(d1.c[nm][i] == d0.c[nm][i])
        return {
            'earlier-dispatches-kept': z3.And(d1.c['len'] >= n0, z3.ForAll([i], z3.Implies(z3.And(i >= 0, i < n0), z3.And(*same)))),
            'only-disconnect-notifications-of-connected-namespaces': z3.ForAll([i], z3.Implies(isnew(i), z3.And(
                z3.Or(d1.c['event'][i] == DISC, d1.c['event'][i] == FINAL), done[d1.c['ns'][i]],
                z3.Implies(d1.c['event'][i] == DISC, z3.And(d1.c['args#len'][i] == 1, d1.c['args#arr'][i][0] == reason)),
                z3.Implies(d1.c['event'][i] == FINAL, z3.Not(will))))),
            'each-namespace-at-most-once': z3.ForAll([i, j], z3.Implies(z3.And(isnew(i), isnew(j), i < j),
                                                                        z3.Not(z3.And(d1.c['event'][i] == d1.c['event'][j], d1.c['ns'][i] == d1.c['ns'][j])))),
        }

    def at_least_once(c_pre, d0, d1, done, will):
        n = z3.Const('al_n', V)
        j = z3.Int('al_j')
        n0 = d0.c['len']
        has_d = c13.target_exists(c_pre, 'client', n, DISC, NAMES)
        has_f = c13.target_exists(c_pre, 'client', n, FINAL, NAMES)
        ex = lambda ev: z3.Exists([j], z3.And(j >= n0, j < d1.c['len'], d1.c['event'][j] == ev, d1.c['ns'][j] == n))
        return {'disconnect-handler-ran-for-every-connected-namespace': z3.ForAll([n], z3.Implies(z3.And(done[n], has_d), ex(DISC))),
                'final-notification-when-not-reconnecting': z3.ForAll([n], z3.Implies(z3.And(done[n], has_f, z3.Not(will)), ex(FINAL)))}

    def inv(lc):
        reason = lc.t('reason')
        will = will_reconnect(lc.entry)
        d0, d1 = lc.entry.get(*DISP), lc.cur.get(*DISP)
        d = new_entries(d0, d1, reason, lc.done, will)
        d.update(at_least_once(lc.entry, d0, d1, lc.done, will))
        return d

    def post(c):
        reason = c.a.reason
        will = will_reconnect(c.pre)
        d0, d1 = c.pre.get(*DISP), c.post.get(*DISP)
        was = connected(c.pre)
        dom = z3.If(was, nss(c.pre).c['dom'], z3.K(V, z3.BoolVal(False)))
        d = {}
        for k_, v in new_entries(d0, d1, reason, dom, will).items():
            d[k_] = v
        for k_, v in at_least_once(c.pre, d0, d1, dom, will).items():
            d[k_] = v
        t0, t1 = c.pre.get(*TASKS), c.post.get(*TASKS)
        rt0, rt1 = c.pre.get(*RTASK).leaf(), c.post.get(*RTASK).leaf()
        start = z3.And(will, z3.Not(smt.truthy(rt0)))
        d['not-connected.no-notifications'] = z3.Implies(z3.Not(was), sv_equiv(d1, d0))
        d.update({
            'no-namespace-left': z3.If(was, nss(c.post).c['dom'] == z3.K(V, z3.BoolVal(False)), sv_equiv(nss(c.post), nss(c.pre))),
            'connected-flag-cleared': z3.Not(connected(c.post)),
            'no-pending-callback-survives': c.post.get(*CBS).c['dom'] == z3.K(V, z3.BoolVal(False)),
            'no-half-received-packet-survives': z3.Not(c.post.get(*BINP).c['some']),
            'no-session-id-survives': c.post.get(*SID).leaf() == NONE,
            'one-reconnection-effort-iff-accidental-loss-and-none-running': z3.If(
                start, z3.And(log_grew(t0, t1, 1), t1.c['fn'][t0.c['len']] == RTASK_ATOM, t1.c['args#len'][t0.c['len']] == 0, smt.truthy(rt1)),
                z3.And(sv_equiv(t1, t0), rt1 == rt0)),
        })
        return d
    return Contract(
        target=target, schema=world, self_obj='client', params={'reason': 'V'},
        requires=lambda c: dict(base_req(c), **{'no-star-namespace': z3.Not(nss(c.pre).c['dom'][c13.STAR])}),
        cases=[Case('transport-ended', post=post),
               Case('transport-ended.handler-raises', kind='raise', exc='Exception', post=lambda c: {})],
        loops={0: LoopSpec(inv, mod_state=[DISP, CALLS])},
        modifies=[NSS, CONN, CBS, NEXT, BINP, SID, DISP, CALLS, TASKS, RTASK], props=['C08', 'C10'],
        must_fail=lambda c: {'transport-ended:claims-callbacks-kept': sv_equiv(c.post.get(*CBS), c.pre.get(*CBS))})


def connect_summary(world, target):
    """Client.connect as _handle_reconnect sees it: it records the attempt with the values it was given and either returns
    (connected) or raises ConnectionError / ValueError.  (Assumed here; the body of connect() is not under contract yet.)"""
    def upd(ok):
        def u(c):
            log_append(c, 'g', 'attempts', url=c.a.url, headers=c.a.headers, auth=c.a.auth, transports=c.a.transports,
                       namespaces=c.a.namespaces, path=c.a.socketio_path, ok=z3.BoolVal(ok))
        return u
    return Contract(
        target=target, schema=world, self_obj='client',
        params={'url': 'V', 'headers': 'V', 'auth': 'V', 'transports': 'V', 'namespaces': 'V', 'socketio_path': 'V', 'wait': 'V', 'wait_timeout': 'V', 'retry': 'V'},
        cases=[Case('connected', update=upd(True)),
               Case('refused', kind='raise', exc='sio.ConnectionError', update=upd(False)),
               Case('invalid', kind='raise', exc='ValueError', update=upd(False))],
        modifies=[ATT], trusted=True, props=['C10'], note='summary of Client.connect used by _handle_reconnect; assumed')


dly = z3.Function('backoff_delay', z3.RealSort(), z3.IntSort(), z3.RealSort())     # dly(d, k) = d * 2**k (closed form: lemmas/Lemmas.lean)


def reconnect_contract(world, target):
    def cfg(st):
        g = lambda f: st.get('client', f).leaf()
        return g('reconnection_delay'), g('reconnection_delay_max'), g('randomization_factor'), g('reconnection_attempts')

    def dly_facts(rd, k):
        return z3.And(dly(rd, 0) == rd, dly(rd, k + 1) == 2 * dly(rd, k))

    def waited_ok(w, idx, j, rd, rmax, rf, abort_ev):
        """the wait before attempt j+1 (0-based j): min(rd * 2**j, max) give or take rf, on the abort event"""
        base = z3.If(dly(rd, j) > rmax, rmax, dly(rd, j))
        t = w.c['timeout'][idx]
        return z3.And(w.c['ev'][idx] == abort_ev, t >= base - rf, t <= base + rf)

    def attempt_ok(a, idx, st):
        return z3.And(*[a.c[f][idx] == st.get('client', fld).leaf() for f, fld in CONN_FIELDS.items()])

    def inv(lc):
        rd, rmax, rf, natt = cfg(lc.entry)
        k = lc.t('attempt_count')
        cur = lc.t('current_delay')
        w0, w1 = lc.entry.get(*WAITS), lc.cur.get(*WAITS)
        a0, a1 = lc.entry.get(*ATT), lc.cur.get(*ATT)
        abort_ev = lc.cur.get('client', '_reconnect_abort').leaf()
        j = z3.Int('rc_j')
        return {
            'attempts-counted': z3.And(k >= 0, a1.c['len'] == a0.c['len'] + k, w1.c['len'] == w0.c['len'] + k),
            'delay-doubles': cur == dly(rd, k),
            'within-the-attempt-limit': z3.Implies(natt > 0, k < natt),
            'each-wait-is-the-capped-backoff-with-jitter': z3.ForAll([j], z3.Implies(z3.And(j >= w0.c['len'], j < w0.c['len'] + k),
                                                                                         waited_ok(w1, j, j - w0.c['len'], rd, rmax, rf, abort_ev)),
                                                                     patterns=[w1.c['timeout'][j]]),
            'each-attempt-uses-the-stored-parameters-and-failed': z3.ForAll([j], z3.Implies(z3.And(j >= a0.c['len'], j < a0.c['len'] + k),
                                                                                                z3.And(attempt_ok(a1, j, lc.entry), z3.Not(a1.c['ok'][j]))),
                                                                            patterns=[a1.c['ok'][j]]),
            'config-kept': z3.And(*[lc.cur.get('client', f).leaf() == lc.entry.get('client', f).leaf()
                                    for f in list(CONN_FIELDS.values()) + ['reconnection_delay', 'reconnection_delay_max', 'randomization_factor', 'reconnection_attempts']]),
            'abort-event-kept': abort_ev != NONE,
        }

    def post(c):
        rd, rmax, rf, natt = cfg(c.pre)
        w0, w1 = c.pre.get(*WAITS), c.post.get(*WAITS)
        a0, a1 = c.pre.get(*ATT), c.post.get(*ATT)
        K = a1.c['len'] - a0.c['len']
        W = w1.c['len'] - w0.c['len']
        abort_ev = c.post.get('client', '_reconnect_abort').leaf()
        j = z3.Int('rp_j')
        last_ok = z3.And(K >= 1, a1.c['ok'][a1.c['len'] - 1])
        aborted = W == K + 1
        return {
            'one-wait-before-each-attempt': z3.And(K >= 0, z3.Or(W == K, aborted)),
            'each-wait-is-min(delay*2^(k-1),max)-give-or-take-the-jitter': z3.ForAll([j], z3.Implies(z3.And(j >= w0.c['len'], j < w1.c['len']),
                                                                                                         waited_ok(w1, j, j - w0.c['len'], rd, rmax, rf, abort_ev))),
            'same-url-headers-auth-transports-namespaces': z3.ForAll([j], z3.Implies(z3.And(j >= a0.c['len'], j < a1.c['len']), attempt_ok(a1, j, c.pre))),
            'stops-at-the-first-success': z3.ForAll([j], z3.Implies(z3.And(j >= a0.c['len'], j < a1.c['len'] - 1), z3.Not(a1.c['ok'][j]))),
            'at-most-reconnection_attempts-attempts': z3.Implies(natt > 0, K <= natt),
            'abort-ends-the-effort-without-a-further-attempt': z3.Implies(aborted, w1.c['woke'][w1.c['len'] - 1]),
            'gives-up-only-when-aborted-successful-or-out-of-attempts': z3.Or(aborted, last_ok, z3.And(natt > 0, K == natt)),
            'task-slot-cleared-on-success': z3.Implies(z3.And(last_ok, z3.Not(aborted)), c.post.get(*RTASK).leaf() == NONE),
        }
    return Contract(
        target=target, schema=world, self_obj='client', params={},
        requires=lambda c: dict(base_req(c), **{'assume:backoff_delay(d,k)=d*2**k (definition)': z3.ForAll(
                                                    [z3.Int('dk')], z3.Implies(z3.Int('dk') >= 0, z3.And(
                                                        dly(c.pre.get('client', 'reconnection_delay').leaf(), 0) == c.pre.get('client', 'reconnection_delay').leaf(),
                                                        dly(c.pre.get('client', 'reconnection_delay').leaf(), z3.Int('dk') + 1) ==
                                                        2 * dly(c.pre.get('client', 'reconnection_delay').leaf(), z3.Int('dk'))))),
                                                'randomization-factor-non-negative': c.pre.get('client', 'randomization_factor').leaf() >= 0,
                                                'attempt-limit-non-negative': c.pre.get('client', 'reconnection_attempts').leaf() >= 0,
                                                'connection-namespaces-is-a-list': smt.kind(c.pre.get('client', 'connection_namespaces').leaf()) == smt.K_LIST}),
        cases=[Case('effort-ends', post=post),
               Case('notification-handler-raises', kind='raise', exc='Exception', post=lambda c: {})],
        loops={0: LoopSpec(inv, mod_vars=['attempt_count', 'current_delay', 'delay'], mod_state=[WAITS, ATT, ('g', 'events'), RTASK, DISP, CALLS],
                           kinds={'delay': 'R'}),
               1: LoopSpec(lambda lc: {}, mod_state=[DISP, CALLS]), 2: LoopSpec(lambda lc: {}, mod_state=[DISP, CALLS])},
        modifies=[WAITS, ATT, ('g', 'events'), RTASK, DISP, CALLS, ('client', '_reconnect_abort')], props=['C10'],
        must_fail=lambda c: {'effort-ends:claims-no-wait': c.post.get(*WAITS).c['len'] == c.pre.get(*WAITS).c['len']})


_reg0 = register


def register(reg):
    _reg0(reg)
    for w, m_, c_ in ((worlds.CLIENT, 'client', 'Client'), (worlds.ASYNC_CLIENT, 'async_client', 'AsyncClient')):
        reg.add(eio_disconnect_contract(w, '%s.%s._handle_eio_disconnect' % (m_, c_)))
        reg.add(connect_summary(w, '%s.%s.connect' % (m_, c_)))
        reg.add(reconnect_contract(w, '%s.%s._handle_reconnect' % (m_, c_)))


# ============================================================================ _handle_error, _handle_eio_connect, disconnect, _handle_eio_message
from pyvc.contract import delegated
from .packet_summary import dec_type, dec_ns, dec_id, dec_data, dec_count, reconstructed
from .lifecycle import T, CONNECT_T, DISCONNECT_T


def handle_error_contract(world, target):
    def ns_(c):
        return eff_ns(c.a.namespace)

    def args_of(d_):
        """the arguments the connect_error handler receives: none for None, the elements of a list/tuple, else the value"""
        return d_

    def post(c):
        ns = ns_(c)
        d_ = c.a.data
        n0, n1 = nss(c.pre), nss(c.post)
        d0, d1 = c.pre.get(*DISP), c.post.get(*DISP)
        x = z3.Const('he_x', V)
        ev = c.pre.get('client', '_connect_event').leaf()
        has = c13.target_exists(c.pre, 'client', ns, A('connect_error'), NAMES)
        n = d0.c['len']
        p_ = z3.Int('he_p')
        islist = z3.Or(smt.kind(d_) == smt.K_LIST, smt.kind(d_) == smt.K_TUPLE)
        args_ok = z3.If(d_ == NONE, d1.c['args#len'][n] == 0,
                        z3.If(islist, z3.And(d1.c['args#len'][n] == smt.vlen(d_),
                                             z3.ForAll([p_], z3.Implies(z3.And(p_ >= 0, p_ < smt.vlen(d_)), d1.c['args#arr'][n][p_] == smt.vseq(d_)[p_]))),
                              z3.And(d1.c['args#len'][n] == 1, d1.c['args#arr'][n][0] == d_)))
        is_default = ns == SLASH
        return {
            'refusal-reported-to-the-connect_error-handler': z3.If(has, z3.And(log_grew(d0, d1, 1), d1.c['event'][n] == A('connect_error'), d1.c['ns'][n] == ns, args_ok),
                                                                   sv_equiv(d1, d0)),
            'waiter-woken': c.post.get(*EVENTS).c['.'][ev],
            'namespace-not-connected-afterwards': z3.Not(n1.c['dom'][ns]),
            'other-namespaces': z3.If(is_default, n1.c['dom'] == z3.K(V, z3.BoolVal(False)),
                                      z3.ForAll([x], z3.Implies(x != ns, z3.And(n1.c['dom'][x] == n0.c['dom'][x], z3.Implies(n0.c['dom'][x], n1.c['.'][x] == n0.c['.'][x]))))),
            'connected-flag': z3.If(is_default, z3.Not(connected(c.post)), connected(c.post) == connected(c.pre)),
        }
    return Contract(
        target=target, schema=world, self_obj='client', params={'namespace': 'V', 'data': 'V'},
        requires=lambda c: dict(base_req(c), **{'dom.ns-not-star': ns_(c) != c13.STAR}),
        cases=[Case('refused', post=post),
               Case('refused.handler-raises', kind='raise', exc='Exception', post=lambda c: {})],
        modifies=[NSS, CONN, DISP, CALLS, EVENTS], props=['C08'],
        must_fail=lambda c: {'refused:claims-still-connected-there': nss(c.post).c['dom'][ns_(c)]})


def client_eio_message_contract(world, target):
    def buffering(c):
        return c.pre.get(*BINP).c['some']
    given = lambda c: smt.truthy(c.a.data)
    ty = lambda c: z3.If(given(c), dec_type(c.a.data), T['EVENT'])
    f_ns = lambda c: z3.If(given(c), dec_ns(c.a.data), NONE)
    f_id = lambda c: z3.If(given(c), dec_id(c.a.data), NONE)
    f_data = lambda c: z3.If(given(c), dec_data(c.a.data), NONE)
    f_count = lambda c: z3.If(given(c), dec_count(c.a.data), 0)
    PRE_CALLS = ('.decode', '._data_is_binary', '.add_attachment')
    fresh_frame = lambda c, t: z3.And(z3.Not(buffering(c)), ty(c) == T[t])
    ev_args = lambda c: dict(namespace=f_ns(c), id=f_id(c), data=f_data(c))
    ns_only = lambda c: dict(namespace=f_ns(c))
    ns_data = lambda c: dict(namespace=f_ns(c), data=f_data(c))

    def rejected(c):
        return {'no-handler-runs': sv_equiv(c.post.get(*DISP), c.pre.get(*DISP)), 'nothing-sent': sv_equiv(c.post.get(*OUT), c.pre.get(*OUT)),
                'state-untouched': z3.And(sv_equiv(nss(c.post), nss(c.pre)), sv_equiv(c.post.get(*CBS), c.pre.get(*CBS)), sv_equiv(c.post.get(*BINP), c.pre.get(*BINP)))}

    def plain(suffix, argf, kind):
        return lambda c: delegated(c, suffix, argf(c), kind, allow_before=PRE_CALLS)
    cases = []
    for tname, suffix, argf in (('EVENT', '._handle_event', ev_args), ('ACK', '._handle_ack', ev_args), ('CONNECT', '._handle_connect', ns_data),
                                ('DISCONNECT', '._handle_disconnect', ns_only), ('CONNECT_ERROR', '._handle_error', ns_data)):
        g_ = (lambda t: lambda c: fresh_frame(c, t))(tname)
        cases.append(Case(tname, when=g_, post=plain(suffix, argf, 'return')))
        cases.append(Case(tname + '.handler-raises', when=g_, kind='raise', exc='Exception', post=plain(suffix, argf, 'raise'), group='dx:' + tname))
        cases.append(Case(tname + '.undecodable', when=g_, kind='raise', exc='Exception', post=rejected, group='dx:' + tname))
    is_bin_hdr = lambda c: z3.And(z3.Not(buffering(c)), z3.Or(ty(c) == T['BINARY_EVENT'], ty(c) == T['BINARY_ACK']))
    bad_type = lambda c: z3.And(z3.Not(buffering(c)), z3.Not(z3.Or(*[ty(c) == T[k] for k in T])))

    def buf(c, st):
        return st.get(*BINP).child(('?',))

    def header_stored(c):
        rec = buf(c, c.post)
        return {'kept-for-reassembly': c.post.get(*BINP).c['some'],
                'fields': z3.And(rec.c['packet_type/'] == ty(c), rec.c['namespace/'] == f_ns(c), rec.c['id/'] == f_id(c), rec.c['data/'] == f_data(c),
                                 rec.c['attachment_count/'] == f_count(c), rec.c['attachments/len'] == 0),
                'nothing-invoked': sv_equiv(c.post.get(*DISP), c.pre.get(*DISP)), 'nothing-sent': sv_equiv(c.post.get(*OUT), c.pre.get(*OUT))}
    n_att = lambda c: buf(c, c.pre).c['attachments/len']
    count = lambda c: buf(c, c.pre).c['attachment_count/']
    more = lambda c: z3.And(buffering(c), count(c) > n_att(c) + 1)
    last = lambda c: z3.And(buffering(c), count(c) == n_att(c) + 1)
    last_ev = lambda c: z3.And(last(c), buf(c, c.pre).c['packet_type/'] == T['BINARY_EVENT'])
    last_ack = lambda c: z3.And(last(c), buf(c, c.pre).c['packet_type/'] != T['BINARY_EVENT'])

    def completed_args(c):
        r = buf(c, c.pre)
        atts = PySeq([View(r.c['attachments/arr'], z3.IntVal(0), n_att(c)), Fixed([S(c.a.data)])], 'list')
        return dict(namespace=r.c['namespace/'], id=r.c['id/'], data=reconstructed(r.c['data/'], c.eng.to_v(c.ctx, atts)))

    def completes(suffix, kind):
        def post(c):
            d = delegated(c, suffix, completed_args(c), kind, allow_before=PRE_CALLS, changed_before=[BINP])
            d['no-half-received-packet-left'] = z3.Not(c.post.get(*BINP).c['some'])
            return d
        return post

    def appended(c):
        r0, r1 = buf(c, c.pre), buf(c, c.post)
        n = n_att(c)
        p_ = z3.Int('ap_p')
        return {'attachment-kept-in-arrival-order': z3.And(c.post.get(*BINP).c['some'], r1.c['attachments/len'] == n + 1, r1.c['attachments/arr'][n] == c.a.data,
                                                            z3.ForAll([p_], z3.Implies(z3.And(p_ >= 0, p_ < n), r1.c['attachments/arr'][p_] == r0.c['attachments/arr'][p_])),
                                                            *[r1.c[f] == r0.c[f] for f in ('packet_type/', 'namespace/', 'id/', 'data/', 'attachment_count/')]),
                'nothing-invoked': sv_equiv(c.post.get(*DISP), c.pre.get(*DISP)), 'nothing-sent': sv_equiv(c.post.get(*OUT), c.pre.get(*OUT))}
    cases += [
        Case('attachment.more-to-come', when=more, post=appended),
        Case('attachment.completes-event', when=last_ev, post=completes('._handle_event', 'return')),
        Case('attachment.completes-event.handler-raises', when=last_ev, kind='raise', exc='Exception', post=completes('._handle_event', 'raise')),
        Case('attachment.completes-ack', when=last_ack, post=completes('._handle_ack', 'return')),
        Case('attachment.completes-ack.callback-raises', when=last_ack, kind='raise', exc='Exception', post=completes('._handle_ack', 'raise')),
        Case('attachment.unexpected', when=lambda c: z3.And(buffering(c), count(c) <= n_att(c)), kind='raise', exc='ValueError', post=rejected),
        Case('attachment.unexpected.accepted', when=lambda c: z3.And(buffering(c), count(c) <= n_att(c)), forbid=True),
        Case('binary-header', when=is_bin_hdr, post=header_stored),
        Case('binary-header.undecodable', when=is_bin_hdr, kind='raise', exc='Exception', post=rejected),
        Case('unexpected-type-or-undecodable', when=bad_type, kind='raise', exc='Exception', post=rejected),
        Case('unexpected-type.accepted', when=bad_type, forbid=True),
    ]
    return Contract(
        target=target, schema=world, self_obj='client', params={'data': 'V'},
        requires=lambda c: dict(base_req(c), **{'buffered-packet-came-off-the-wire': z3.Implies(buffering(c), smt.kind(buf(c, c.pre).c['id/']) != smt.K_OTHER)}),
        cases=cases,
        modifies=[NSS, CONN, DISP, CALLS, ('eio', 'state'), CBS, NEXT, BINP, SID, RTASK, TASKS, OUT, ('g', 'raw'), EVENTS], props=['C09', 'C08'],
        must_fail=lambda c: {'EVENT:claims-no-call': z3.BoolVal(len([n for n in c.ctx.notes if n[0] == 'called' and n[1].endswith('._handle_event')]) == 0)})


_reg1 = register


def register(reg):
    _reg1(reg)
    for w, m_, c_ in ((worlds.CLIENT, 'client', 'Client'), (worlds.ASYNC_CLIENT, 'async_client', 'AsyncClient')):
        reg.add(handle_error_contract(w, '%s.%s._handle_error' % (m_, c_)))
        reg.add(client_eio_message_contract(w, '%s.%s._handle_eio_message' % (m_, c_)))


# --------------------------------------------------------------------------- _handle_eio_connect (C08: one CONNECT per requested namespace, with the auth payload)
def eio_connect_contract(world, target):
    from .sending import OUT
    from .eio_model import THE_CONNECTION
    CONNECT = smt.box_int(z3.IntVal(0))
    CNS = ('client', 'connection_namespaces')
    AUTH = ('client', 'connection_auth')

    def nss(st):
        return st.get(*CNS).leaf()

    def auth_value(c, st_calls_pre, st_calls_post):
        """the payload: the configured value, or what the configured callable returned (one call), or {} when that is falsy"""
        return None

    def sent(pre, post, upto, c=None):
        o0, o1 = pre.get(*OUT), post.get(*OUT)
        e = THE_CONNECTION
        n0 = o0.c['.len'][e]
        L = nss(pre)
        j = z3.Int('ec_j')
        x = z3.Const('ec_x', V)
        return {
            'one-connect-per-namespace-so-far': o1.c['.len'][e] == n0 + upto,
            'in-request-order-with-type-connect': z3.ForAll([j], z3.Implies(z3.And(j >= n0, j < n0 + upto), z3.And(
                o1.c['.ptype'][e][j] == CONNECT, o1.c['.ns'][e][j] == smt.vseq(L)[j - n0], o1.c['.id'][e][j] == NONE)), patterns=[o1.c['.ptype'][e][j]]),
            'earlier-packets-kept': z3.ForAll([j], z3.Implies(z3.And(j >= 0, j < n0), z3.And(*[o1.c['.' + f][e][j] == o0.c['.' + f][e][j] for f in ('ptype', 'ns', 'id', 'data')])),
                                              patterns=[o1.c['.ptype'][e][j]]),
            'nothing-on-other-connections': z3.ForAll([x], z3.Implies(x != e, z3.And(o1.c['.len'][x] == o0.c['.len'][x]))),
        }

    def empty_dict(x):
        return z3.And(smt.kind(x) == smt.K_DICT, smt.vlen(x) == 0)

    def same_payload(pre, post, upto, is_payload):
        o0, o1 = pre.get(*OUT), post.get(*OUT)
        e = THE_CONNECTION
        n0 = o0.c['.len'][e]
        j = z3.Int('ec_p')
        return z3.ForAll([j], z3.Implies(z3.And(j >= n0, j < n0 + upto), is_payload(o1.c['.data'][e][j])), patterns=[o1.c['.data'][e][j]])

    def inv(lc):
        d = sent(lc.entry, lc.cur, lc.i)
        ra = lc.var('real_auth')
        d['all-carry-the-auth-payload'] = same_payload(lc.entry, lc.cur, lc.i, (lambda x: x == ra.t) if isinstance(ra, S) else empty_dict)
        return d

    def post(c):
        L = nss(c.pre)
        d = sent(c.pre, c.post, smt.vlen(L))
        d['session-id-is-the-transports'] = c.post.get(*SID).leaf() == c.pre.get('eio', 'sid').leaf()
        a = c.pre.get(*AUTH).leaf()
        o0, o1 = c.pre.get(*OUT), c.post.get(*OUT)
        first = o1.c['.data'][THE_CONNECTION][o0.c['.len'][THE_CONNECTION]]
        calls0, calls1 = c.pre.get('g', 'calls'), c.post.get('g', 'calls')
        ncalls = calls1.c['len'] - calls0.c['len']
        # a value that is not callable is sent as it is ({} when falsy); a callable is called exactly once and its result is sent
        n_ = calls0.c['len']
        A_ = z3.If(ncalls == 0, a, calls1.c['ret'][n_])
        called_ok = z3.Or(ncalls == 0, z3.And(ncalls == 1, calls1.c['fn'][n_] == a, calls1.c['args#len'][n_] == 0))
        is_payload = lambda x: z3.If(smt.truthy(A_), x == A_, empty_dict(x))
        d['auth-callable-called-at-most-once-without-arguments'] = called_ok
        d['every-connect-carries-the-auth-value-or-the-callables-result'] = same_payload(c.pre, c.post, smt.vlen(L), is_payload)
        return d
    return Contract(
        target=target, schema=world, self_obj='client', params={},
        requires=lambda c: dict(base_req(c), **{'connection-namespaces-is-a-list': smt.kind(nss(c.pre)) == smt.K_LIST}),
        cases=[Case('connects-every-requested-namespace', post=post),
               Case('auth-callable-or-packet-construction-raises', kind='raise', exc='Exception', post=lambda c: {})],
        loops={0: LoopSpec(inv, mod_state=[OUT, ('g', 'raw')])},
        modifies=[OUT, ('g', 'raw'), SID, ('g', 'calls')], props=['C08'],
        must_fail=lambda c: {'connects-every-requested-namespace:claims-nothing-sent': sv_equiv(c.post.get(*OUT), c.pre.get(*OUT))})


_reg_eioc2 = register


def register(reg):
    _reg_eioc2(reg)
    for w, m_, c_ in ((worlds.CLIENT, 'client', 'Client'), (worlds.ASYNC_CLIENT, 'async_client', 'AsyncClient')):
        reg.add(eio_connect_contract(w, '%s.%s._handle_eio_connect' % (m_, c_)))
