"""Abstract views and invariants of the client-manager state (DESIGN.md section 8, "Shared abstract views")."""
import z3
from pyvc import smt
from pyvc.smt import V, B, I, NONE
from pyvc.dsl import FA

EMPTY_V = z3.K(V, z3.BoolVal(False))
COUNTER = smt.atom(smt.Marker('ack_id_counter', kind=smt.K_OTHER))     # the itertools.count stored in callbacks[*][0]


def rooms(st):
    return st.get('manager', 'rooms')


def member(st, ns, room, sid):
    r = rooms(st)
    return z3.And(r.c['dom'][ns], r.c['.dom'][ns][room], r.c['..dom'][ns][room][sid])


def val(st, ns, room, sid):
    return rooms(st).c['..val'][ns][room][sid]


def transport(st, ns, sid):
    return val(st, ns, NONE, sid)


def pending(st, ns, sid):
    p = st.get('manager', 'pending_disconnect')
    return z3.And(p.c['dom'][ns], p.c['.cnt'][ns][sid] > 0)


def connected(st, ns, sid):
    return z3.And(member(st, ns, NONE, sid), z3.Not(pending(st, ns, sid)))


def owns(st, eio, ns, sid):
    return z3.And(member(st, ns, NONE, sid), transport(st, ns, sid) == eio)


def struct(st):
    """Representation invariant of rooms: every bidict is consistent with its inverse; transports are never None."""
    r = rooms(st)
    n, ro, s, e = z3.Consts('iv_n iv_r iv_s iv_e', V)
    pres = z3.And(r.c['dom'][n], r.c['.dom'][n][ro])
    d3, v3, id3, iv3 = r.c['..dom'], r.c['..val'], r.c['..idom'], r.c['..inv']
    return {
        'struct.fwd-inv': FA([n, ro, s], z3.Implies(z3.And(pres, d3[n][ro][s]),
                                                            z3.And(id3[n][ro][v3[n][ro][s]], iv3[n][ro][v3[n][ro][s]] == s)),
                                    patterns=[d3[n][ro][s]]),
        'struct.inv-fwd': FA([n, ro, e], z3.Implies(z3.And(pres, id3[n][ro][e]),
                                                            z3.And(d3[n][ro][iv3[n][ro][e]], v3[n][ro][iv3[n][ro][e]] == e)),
                                    patterns=[id3[n][ro][e]]),
        'struct.transport-not-none': FA([n, s], z3.Implies(member(st, n, NONE, s), v3[n][NONE][s] != NONE),
                                               patterns=[d3[n][NONE][s]]),
        'struct.sid-not-none': FA([n, ro], z3.Implies(pres, z3.Not(d3[n][ro][NONE])), patterns=[d3[n][ro][NONE]]),
        'struct.namespaces-truthy': FA([n], z3.Implies(r.c['dom'][n], smt.truthy(n)), patterns=[r.c['dom'][n]]),
    }


def nonempty(st):
    """No empty containers are kept (what makes a server with no clients equal to a fresh one)."""
    r = rooms(st)
    p = st.get('manager', 'pending_disconnect')
    n, ro = z3.Consts('ne_n ne_r', V)
    return {
        'nonempty.namespaces': FA([n], z3.Implies(r.c['dom'][n], r.c['.dom'][n] != EMPTY_V), patterns=[r.c['.dom'][n]]),
        'nonempty.rooms': FA([n, ro], z3.Implies(z3.And(r.c['dom'][n], r.c['.dom'][n][ro]), r.c['..dom'][n][ro] != EMPTY_V),
                                    patterns=[r.c['..dom'][n][ro]]),
    }


def i1(st):
    """I1: a member of any room is connected to the namespace, with the same transport id."""
    n, ro, s = z3.Consts('i1_n i1_r i1_s', V)
    return {'I1.members-are-connected': FA([n, ro, s], z3.Implies(member(st, n, ro, s),
                                                                         z3.And(member(st, n, NONE, s), val(st, n, ro, s) == transport(st, n, s))))}


def pend_ok(st):
    """I5 + multiplicity: a pending sid is still a member; it is listed at most once."""
    p = st.get('manager', 'pending_disconnect')
    n, s = z3.Consts('pd_n pd_s', V)
    return {
        'pending.counts': FA([n, s], z3.And(p.c['.cnt'][n][s] >= 0, p.c['.cnt'][n][s] <= 1), patterns=[p.c['.cnt'][n][s]]),
        'pending.members': FA([n, s], z3.Implies(pending(st, n, s), member(st, n, NONE, s)), patterns=[p.c['.cnt'][n][s]]),
    }


def slot_key(mod):
    """The sentinel under which the id counter is stored: the module-level `<NAME> = object()` of the module that
    defines _generate_ack_id (found by shape, so that renaming it changes nothing)."""
    import ast
    from pyvc import source
    names = []
    for n in source.module(mod).body:
        if isinstance(n, ast.Assign) and len(n.targets) == 1 and isinstance(n.targets[0], ast.Name) and \
                isinstance(n.value, ast.Call) and isinstance(n.value.func, ast.Name) and n.value.func.id == 'object' and not n.value.args:
            names.append(n.targets[0].id)
    if len(names) == 1:
        return smt.atom(smt.Marker('sentinel:%s.%s' % (mod, names[0]), kind=smt.K_OTHER))
    return smt.box_int(z3.IntVal(0))       # the historical slot: key 0


def cb_ok(st, obj='manager', mod='base_manager'):
    """I4: the only non-callback entry of callbacks[s] is the id counter; it sits under a key no packet can carry
    (not a JSON/msgpack value); every other key is an id that was already issued."""
    cb = st.get(obj, 'callbacks')
    nxt = st.get(obj, 'ack_next')
    s, k = z3.Consts('cb_s cb_k', V)
    pres = z3.And(cb.c['dom'][s], cb.c['.dom'][s][k])
    return {
        'callbacks.counter-slot-unreachable': FA([s, k], z3.Implies(z3.And(pres, cb.c['..'][s][k] == COUNTER), smt.kind(k) == smt.K_OTHER)),
        'callbacks.counter-positive': FA([s], z3.Implies(cb.c['dom'][s], nxt.c['.'][s] >= 1)),
        'callbacks.none-is-no-key': z3.Not(cb.c['dom'][NONE]),
        'callbacks.counter-slot-present': FA([s], z3.Implies(cb.c['dom'][s], z3.And(cb.c['.dom'][s][slot_key(mod)],
                                                                                     cb.c['..'][s][slot_key(mod)] == COUNTER))),
        'callbacks.are-callables': FA([s, k], z3.Implies(z3.And(pres, cb.c['..'][s][k] != COUNTER),
                                                         z3.And(smt.truthy(cb.c['..'][s][k]), cb.c['..'][s][k] != NONE))),
        'callbacks.ids-issued': FA([s, k], z3.Implies(z3.And(pres, cb.c['..'][s][k] != COUNTER),
                                                      z3.And(smt.kind(k) == smt.K_INT, smt.int_of(k) >= 1, smt.int_of(k) < nxt.c['.'][s]))),
    }


def inv_m(st, with_i1=True, with_nonempty=False):
    d = {}
    d.update(struct(st))
    if with_i1:
        d.update(i1(st))
    d.update(pend_ok(st))
    if with_nonempty:
        d.update(nonempty(st))
    return d


def member_rel(pre, post, removed=None, added=None):
    """forall n r s. member'(n,r,s) <=> (member(n,r,s) and not removed(n,r,s)) or added(n,r,s)"""
    n, r, s = z3.Consts('mr_n mr_r mr_s', V)
    rhs = member(pre, n, r, s)
    if removed is not None:
        rhs = z3.And(rhs, z3.Not(removed(n, r, s)))
    if added is not None:
        rhs = z3.Or(rhs, added(n, r, s))
    return FA([n, r, s], member(post, n, r, s) == rhs)


def vals_kept(pre, post, except_=None):
    """transport ids recorded for surviving memberships are untouched"""
    n, r, s = z3.Consts('vk_n vk_r vk_s', V)
    cond = z3.And(member(pre, n, r, s), member(post, n, r, s))
    if except_ is not None:
        cond = z3.And(cond, z3.Not(z3.And(n == except_[0], r == except_[1], s == except_[2])))
    return FA([n, r, s], z3.Implies(cond, val(post, n, r, s) == val(pre, n, r, s)))


def issued_ok(st):
    """I3': every session id that appears anywhere in rooms was issued by generate_id (so a fresh id appears nowhere)."""
    iss = st.get('g', 'issued')
    r = rooms(st)
    n, ro, s = z3.Consts('is_n is_r is_s', V)
    return {'issued.members': FA([n, ro, s], z3.Implies(member(st, n, ro, s), iss.c['.'][s])),
            'issued.room-names': FA([n, ro, s], z3.Implies(z3.And(member(st, n, ro, s), ro != NONE), iss.c['.'][ro])),
            'issued.callback-keys': FA([s], z3.Implies(st.get('manager', 'callbacks').c['dom'][s], iss.c['.'][s]))}


def cb_present(st, sid, k, obj='manager'):
    cb = st.get(obj, 'callbacks')
    return z3.And(cb.c['dom'][sid], cb.c['.dom'][sid][k])


def cb_val(st, sid, k, obj='manager'):
    return st.get(obj, 'callbacks').c['..'][sid][k]


def outstanding(st, sid, k, obj='manager'):
    """an application callback is waiting under (sid, id)"""
    return z3.And(cb_present(st, sid, k, obj), cb_val(st, sid, k, obj) != COUNTER)


def wire_value(v):
    """v can be the id field of a decoded packet (JSON / msgpack value), i.e. not a private sentinel object"""
    return smt.kind(v) != smt.K_OTHER
