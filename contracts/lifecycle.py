"""Server connection lifecycle (C04), cleanup (C11), sessions (C16): _handle_connect, _handle_disconnect, disconnect,
_handle_eio_connect, _handle_eio_disconnect, get_session, save_session."""
import z3
from pyvc import smt
from pyvc.smt import V, B, I, NONE, atom
from pyvc.contract import Contract, Case, LoopSpec
from pyvc.dsl import A, log_grew, entry_is
from pyvc.model import sv_equiv
from pyvc.vals import S, PySeq, Fixed, View
from . import worlds, c13
from .views import (member, val, transport, pending, connected, owns, struct, i1, inv_m, cb_ok, issued_ok, nonempty, member_rel, vals_kept,
                    cb_present, cb_val, rooms, pend_ok)
from .emit import owner, is_owner
from .server_events import eff_ns, DISP, CALLS, OUT, out_one, SLASH
from .manager import ROOMS, PEND, CBS, NEXT

ENV = ('server', 'environ')
BINP = ('server', '_binary_packet')
SESS = ('eio', 'sessions')
DISCONNECT_T = smt.box_int(z3.IntVal(1))
R_CLIENT = atom('reason:client disconnect')
R_SERVER = atom('reason:server disconnect')
DISC = A('disconnect')


def session_gone(st, e, ns):
    """the user session saved for (transport e, namespace ns) no longer exists"""
    ss = st.get(*SESS)
    return z3.Not(z3.And(ss.c['dom'][e], ss.c['.dom'][e][ns]))


def forgotten(pre, post, ns, sid):
    """the manager keeps nothing of (ns, sid); everything else is untouched"""
    n, s, k = z3.Consts('fg_n fg_s fg_k', V)
    d = {'no-membership-left': member_rel(pre, post, removed=lambda a, r, x: z3.And(a == ns, x == sid)),
         'transports-kept': vals_kept(pre, post),
         'no-callbacks-left': z3.Not(post.get(*CBS).c['dom'][sid]),
         'other-callbacks-kept': z3.ForAll([s, k], z3.Implies(s != sid, z3.And(cb_present(post, s, k) == cb_present(pre, s, k), cb_val(post, s, k) == cb_val(pre, s, k)))),
         'not-pending': z3.ForAll([n, s], pending(post, n, s) == z3.And(pending(pre, n, s), z3.Not(z3.And(n == ns, s == sid)))),
         'nonempty-kept': z3.Implies(z3.And(*nonempty(pre).values()), z3.And(*nonempty(post).values()))}
    d.update(inv_m(post))
    d.update(cb_ok(post))
    d.update(issued_ok(post))
    return d


def disconnect_dispatched(c, pre, post, ns, sid, reason_ok):
    """the disconnect handler ran exactly once for (ns, sid), if anybody is responsible for it"""
    d0, d1 = pre.get(*DISP), post.get(*DISP)
    has = c13.target_exists(pre, 'server', ns, DISC, c13.SERVER_RESERVED)
    n = d0.c['len']
    one = z3.And(log_grew(d0, d1, 1), d1.c['event'][n] == DISC, d1.c['ns'][n] == ns, d1.c['args#len'][n] == 2,
                 d1.c['args#arr'][n][0] == sid, reason_ok(d1.c['args#arr'][n][1]))
    return {'handler-runs-once': z3.Implies(has, one), 'nobody-responsible': z3.Implies(z3.Not(has), sv_equiv(d1, d0))}


def base_req(c):
    d = dict(c13.handlers_ok(c.pre, 'server'))
    d.update(inv_m(c.pre))
    d.update(cb_ok(c.pre))
    d.update(issued_ok(c.pre))
    return d


def handle_disconnect_contract(world, target):
    def sid_of(c):
        return owner(c.pre, eff_ns(c.a.namespace), c.a.eio_sid)

    def conn(c):
        ns = eff_ns(c.a.namespace)
        return z3.And(is_owner(c.pre, ns, c.a.eio_sid), connected(c.pre, ns, sid_of(c)))

    def gone(c):
        ns = eff_ns(c.a.namespace)
        d = forgotten(c.pre, c.post, ns, sid_of(c))
        d.update(disconnect_dispatched(c, c.pre, c.post, ns, sid_of(c),
                                       lambda r: r == z3.If(smt.truthy(c.a.reason), c.a.reason, R_CLIENT)))
        d['nothing-sent'] = sv_equiv(c.post.get(*OUT), c.pre.get(*OUT))
        d['user-session-destroyed@C16'] = session_gone(c.post, c.a.eio_sid, ns)
        return d
    return Contract(
        target=target, schema=world, self_obj='server', params={'eio_sid': 'V', 'namespace': 'V', 'reason': 'V'},
        requires=lambda c: dict(base_req(c), **{'dom.ns-not-star': eff_ns(c.a.namespace) != c13.STAR}),
        cases=[Case('connected', when=conn, post=gone, residual=lambda c: {'user-session-destroyed@C16': z3.BoolVal(True)}),
               Case('connected.handler-raises', when=conn, kind='raise', exc='Exception', post=gone, residual=lambda c: {'user-session-destroyed@C16': z3.BoolVal(True)}),
               Case('not-connected', when=lambda c: z3.Not(conn(c)), update=lambda c: None)],
        modifies=[ROOMS, CBS, PEND, DISP, CALLS], props=['C04', 'C11', 'C20', 'C16'],
        must_fail=lambda c: {'connected:claims-still-member': member(c.post, eff_ns(c.a.namespace), NONE, sid_of(c))})


def disconnect_contract(world, target):
    def conn(c):
        return connected(c.pre, eff_ns(c.a.namespace), c.a.sid)

    def gone(c):
        ns, sid = eff_ns(c.a.namespace), c.a.sid
        e = transport(c.pre, ns, sid)
        d = forgotten(c.pre, c.post, ns, sid)
        d.update(disconnect_dispatched(c, c.pre, c.post, ns, sid, lambda r: r == R_SERVER))
        for k, v in out_one(c.pre, c.post, e, lambda get: z3.And(get('ptype') == DISCONNECT_T, get('ns') == ns, get('id') == NONE, get('data') == NONE)).items():
            d['client-told.' + k] = v
        d['user-session-destroyed@C16'] = session_gone(c.post, e, ns)
        # per-peer order (C14): the leaving client is told before its disconnect handler runs (what the handler sends comes after)
        idx = {k_: [i for i, n in enumerate(c.ctx.notes) if n[0] == 'called' and n[1].endswith(k_)] for k_ in ('._send_packet', '._trigger_event')}
        if idx['._send_packet'] and idx['._trigger_event']:
            d['client-told-before-its-disconnect-handler-runs@C14'] = z3.BoolVal(max(idx['._send_packet']) < min(idx['._trigger_event']))
        return d
    return Contract(
        target=target, schema=world, self_obj='server', params={'sid': 'V', 'namespace': 'V', 'ignore_queue': 'V'},
        requires=lambda c: dict(base_req(c), **{'dom.ns-not-star': eff_ns(c.a.namespace) != c13.STAR}),
        cases=[Case('connected', when=conn, post=gone, residual=lambda c: {'user-session-destroyed@C16': z3.BoolVal(True)}),
               Case('connected.handler-raises', when=conn, kind='raise', exc='Exception', post=gone, residual=lambda c: {'user-session-destroyed@C16': z3.BoolVal(True)}),
               Case('not-connected', when=lambda c: z3.Not(conn(c)), update=lambda c: None)],
        modifies=[ROOMS, CBS, PEND, DISP, CALLS, OUT, ('g', 'raw')], props=['C04', 'C11', 'C20', 'C16'],
        must_fail=lambda c: {'connected:claims-still-member': member(c.post, eff_ns(c.a.namespace), NONE, c.a.sid)})


def eio_connect_contract(world, target):
    def post(c):
        e0, e1 = c.pre.get(*ENV), c.post.get(*ENV)
        x = z3.Const('ec_x', V)
        return {'environ-recorded': z3.And(e1.c['dom'][c.a.eio_sid], e1.c['.'][c.a.eio_sid] == c.a.environ),
                'others-kept': z3.ForAll([x], z3.Implies(x != c.a.eio_sid, z3.And(e1.c['dom'][x] == e0.c['dom'][x], e1.c['.'][x] == e0.c['.'][x])))}
    return Contract(target=target, schema=world, self_obj='server', params={'eio_sid': 'V', 'environ': 'V'},
                    cases=[Case('records-environ', post=post)], modifies=[ENV, ('server', 'manager_initialized')], props=['C11'])


def eio_disconnect_contract(world, target):
    def inv(lc):
        eio = lc.t('eio_sid')
        a, r, s = z3.Consts('ed_n ed_r ed_s', V)
        d = {
            'only-removes': z3.ForAll([a, r, s], z3.Implies(member(lc.cur, a, r, s), member(lc.entry, a, r, s))),
            'only-this-transport': z3.ForAll([a, r, s], z3.Implies(z3.And(member(lc.entry, a, r, s), z3.Not(member(lc.cur, a, r, s))),
                                                                    z3.And(lc.done[a], owns(lc.entry, eio, a, s)))),
            'unvisited-untouched': z3.ForAll([a, s], z3.Implies(z3.And(z3.Not(lc.done[a]), owns(lc.entry, eio, a, s)),
                                                                z3.And(owns(lc.cur, eio, a, s), z3.Not(pending(lc.cur, a, s))))),
            'visited-namespaces-clean': z3.ForAll([a, r, s], z3.Implies(z3.And(lc.done[a], owns(lc.entry, eio, a, s)), z3.Not(member(lc.cur, a, r, s)))),
            'transports-kept': vals_kept(lc.entry, lc.cur),
            'callbacks-only-removed-for-this-transport': z3.ForAll([s, r], z3.Implies(cb_present(lc.entry, s, r),
                                                                   z3.Or(z3.And(cb_present(lc.cur, s, r), cb_val(lc.cur, s, r) == cb_val(lc.entry, s, r)),
                                                                         z3.Exists([a], z3.And(lc.done[a], owns(lc.entry, eio, a, s)))))),
            'callbacks-none-added': z3.ForAll([s, r], z3.Implies(cb_present(lc.cur, s, r), cb_present(lc.entry, s, r))),
            'callbacks-of-visited-dropped': z3.ForAll([a, s], z3.Implies(z3.And(lc.done[a], owns(lc.entry, eio, a, s)), z3.Not(lc.cur.get(*CBS).c['dom'][s]))),
            'pending-only-shrinks': z3.ForAll([a, s], z3.Implies(pending(lc.cur, a, s), pending(lc.entry, a, s))),
            'pending-of-visited-cleared': z3.ForAll([a, s], z3.Implies(z3.And(lc.done[a], owns(lc.entry, eio, a, s)), z3.Not(pending(lc.cur, a, s)))),
            'nothing-sent': sv_equiv(lc.cur.get(*OUT), lc.entry.get(*OUT)),
            'nonempty-kept': z3.Implies(z3.And(*nonempty(lc.entry).values()), z3.And(*nonempty(lc.cur).values())),
        }
        d.update(inv_m(lc.cur))
        d.update(cb_ok(lc.cur))
        return d

    def post(c):
        eio = c.a.eio_sid
        a, r, s, k = z3.Consts('ep_n ep_r ep_s ep_k', V)
        x = z3.Const('ep_x', V)
        e0, e1 = c.pre.get(*ENV), c.post.get(*ENV)
        b0, b1 = c.pre.get(*BINP), c.post.get(*BINP)
        d = {
            'in-no-room-or-namespace': member_rel(c.pre, c.post, removed=lambda n_, r_, s_: owns(c.pre, eio, n_, s_)),
            'transports-kept': vals_kept(c.pre, c.post),
            'no-outstanding-callbacks': z3.ForAll([a, s], z3.Implies(owns(c.pre, eio, a, s), z3.Not(c.post.get(*CBS).c['dom'][s]))),
            'no-pending-mark': z3.ForAll([a, s], z3.Implies(owns(c.pre, eio, a, s), z3.Not(pending(c.post, a, s)))),
            'other-clients-callbacks-kept': z3.ForAll([s, k], z3.Implies(z3.And(cb_present(c.pre, s, k), z3.Not(z3.Exists([a], owns(c.pre, eio, a, s)))),
                                                                         z3.And(cb_present(c.post, s, k), cb_val(c.post, s, k) == cb_val(c.pre, s, k)))),
            'no-request-environment': z3.Not(e1.c['dom'][eio]),
            'other-environments-kept': z3.ForAll([x], z3.Implies(x != eio, z3.And(e1.c['dom'][x] == e0.c['dom'][x], e1.c['.'][x] == e0.c['.'][x]))),
            'no-partially-received-packet': z3.Not(b1.c['dom'][eio]),
            'other-partial-packets-kept': z3.ForAll([x], z3.Implies(x != eio, b1.c['dom'][x] == b0.c['dom'][x])),
            'nothing-sent': sv_equiv(c.post.get(*OUT), c.pre.get(*OUT)),
            'nonempty-kept': z3.Implies(z3.And(*nonempty(c.pre).values()), z3.And(*nonempty(c.post).values())),
        }
        d.update(inv_m(c.post))
        return d
    def residual(c):
        """what still holds when a disconnect handler raised (known finding: the namespaces not yet visited are skipped)"""
        eio = c.a.eio_sid
        a, r, s, k = z3.Consts('rs_n rs_r rs_s rs_k', V)
        only_shrinks = z3.And(z3.ForAll([a, r, s], z3.Implies(member(c.post, a, r, s), member(c.pre, a, r, s))),
                              z3.ForAll([a, r, s], z3.Implies(z3.And(member(c.pre, a, r, s), z3.Not(member(c.post, a, r, s))), owns(c.pre, eio, a, s))))
        cb_only = z3.And(z3.ForAll([s, k], z3.Implies(cb_present(c.post, s, k), cb_present(c.pre, s, k))),
                         z3.ForAll([s, k], z3.Implies(z3.And(cb_present(c.pre, s, k), z3.Not(z3.Exists([a], owns(c.pre, eio, a, s)))),
                                                      z3.And(cb_present(c.post, s, k), cb_val(c.post, s, k) == cb_val(c.pre, s, k)))))
        pend_only = z3.ForAll([a, s], z3.Implies(pending(c.post, a, s), pending(c.pre, a, s)))
        return {'in-no-room-or-namespace': only_shrinks, 'no-outstanding-callbacks': cb_only, 'no-pending-mark': pend_only}

    return Contract(
        target=target, schema=world, self_obj='server', params={'eio_sid': 'V', 'reason': 'V'},
        requires=lambda c: dict(base_req(c), **{'reason-given': smt.truthy(c.a.reason), 'no-star-namespace': z3.Not(rooms(c.pre).c['dom'][c13.STAR]),
                                                'quiescent(no disconnect of this transport in progress)': z3.ForAll(
                                                    [z3.Const('qn', V), z3.Const('qs', V)],
                                                    z3.Implies(owns(c.pre, c.a.eio_sid, z3.Const('qn', V), z3.Const('qs', V)),
                                                               z3.Not(pending(c.pre, z3.Const('qn', V), z3.Const('qs', V)))))}),
        cases=[Case('transport-ended', post=post),
               Case('transport-ended.handler-raises', kind='raise', exc='Exception', post=post, residual=residual)],
        loops={0: LoopSpec(inv, mod_state=[ROOMS, CBS, PEND, DISP, CALLS])},
        modifies=[ROOMS, CBS, PEND, DISP, CALLS, ENV, BINP], props=['C11', 'C04'],
        must_fail=lambda c: {'transport-ended:claims-environ-kept': c.post.get(*ENV).c['dom'][c.a.eio_sid]})


def register(reg):
    for w, m_, c_ in ((worlds.SERVER, 'server', 'Server'), (worlds.ASYNC_SERVER, 'async_server', 'AsyncServer')):
        reg.add(handle_disconnect_contract(w, '%s.%s._handle_disconnect' % (m_, c_)))
        reg.add(disconnect_contract(w, '%s.%s.disconnect' % (m_, c_)))
        reg.add(eio_connect_contract(w, '%s.%s._handle_eio_connect' % (m_, c_)))
        reg.add(eio_disconnect_contract(w, '%s.%s._handle_eio_disconnect' % (m_, c_)))


# ============================================================================ _handle_connect (C04)
CONNECT_T, CONNECT_ERROR_T = smt.box_int(z3.IntVal(0)), smt.box_int(z3.IntVal(4))
CONN = A('connect')
REFUSED_EXC = atom('exc:sio.ConnectionRefusedError')
TYPEERR_EXC = atom('exc:TypeError')


def served(st, ns):
    """the server serves this namespace: a handler or class-based namespace exists for it, or it is listed, or namespaces == '*'"""
    h, nh = st.get('server', 'handlers'), st.get('server', 'namespace_handlers')
    nss = st.get('server', 'namespaces').leaf()
    p = z3.Int('sv_p')
    listed = z3.If(z3.Or(smt.kind(nss) == smt.K_LIST, smt.kind(nss) == smt.K_TUPLE),
                   z3.Exists([p], z3.And(p >= 0, p < smt.vlen(nss), smt.vseq(nss)[p] == ns)), smt.vhas(nss, ns))
    return z3.Or(h.c['dom'][ns], nh.c['dom'][ns], nss == c13.STAR, listed)


def out_seq(pre, post, e, preds):
    """exactly len(preds) more packets on e, the k-th satisfying preds[k]; nothing on any other connection"""
    o0, o1 = pre.get(*OUT), post.get(*OUT)
    x = z3.Const('os_e', V)
    j = z3.Int('os_j')
    n = o0.c['.len'][e]
    names = ('ptype', 'ns', 'id', 'data')
    parts = [o1.c['.len'][e] == n + len(preds)]
    for k, pr in enumerate(preds):
        parts.append(pr(lambda f, k=k: o1.c['.' + f][e][n + k]))
    parts.append(z3.ForAll([j], z3.Implies(z3.And(j >= 0, j < n), z3.And(*[o1.c['.' + f][e][j] == o0.c['.' + f][e][j] for f in names]))))
    from .server_events import out_same_at
    parts.append(z3.ForAll([x], z3.Implies(x != e, out_same_at(o0, o1, x))))
    return z3.And(*parts)


def handle_connect_contract(world, target):
    def ns_(c):
        return eff_ns(c.a.namespace)

    def dup(c):
        r = rooms(c.pre)
        return z3.And(r.c['dom'][ns_(c)], r.c['.dom'][ns_(c)][NONE], r.c['..idom'][ns_(c)][NONE][c.a.eio_sid])

    def admitted(c):
        return z3.And(served(c.pre, ns_(c)), z3.Not(dup(c)))

    def req(c):
        d = base_req(c)
        d.update(issued_ok(c.pre))
        nss = c.pre.get('server', 'namespaces').leaf()
        d['namespaces-config'] = z3.Or(smt.kind(nss) == smt.K_LIST, nss == c13.STAR)
        d['transport-known'] = z3.And(c.pre.get(*ENV).c['dom'][c.a.eio_sid], c.a.eio_sid != NONE)
        d['dom.ns-not-star'] = ns_(c) != c13.STAR
        return d

    def pkt(ptype, ns, data_ok):
        return lambda get: z3.And(get('ptype') == ptype, get('ns') == ns, get('id') == NONE, data_ok(get('data')))

    def sid_payload(r):
        return lambda D: z3.And(smt.kind(D) == smt.K_DICT, smt.vhas(D, A('sid')), smt.vget(D, A('sid')) == r)

    def dispatches(c):
        """how the connect handler was invoked: (count, new sid, accepted?, refusal payload ok(D))"""
        ns, e = ns_(c), c.a.eio_sid
        d0, d1 = c.pre.get(*DISP), c.post.get(*DISP)
        n = d0.c['len']
        env = c.pre.get(*ENV).c['.'][e]
        has = c13.target_exists(c.pre, 'server', ns, CONN, c13.SERVER_RESERVED)
        auth = c.a.data
        given = smt.truthy(auth)

        def entry(i, r, nargs, third=None):
            parts = [d1.c['event'][i] == CONN, d1.c['ns'][i] == ns, d1.c['args#len'][i] == nargs,
                     d1.c['args#arr'][i][0] == r, d1.c['args#arr'][i][1] == env]
            if third is not None:
                parts.append(d1.c['args#arr'][i][2] == third)
            return z3.And(*parts)
        r1 = d1.c['args#arr'][n][0]
        one = z3.And(log_grew(d0, d1, 1), z3.If(given, entry(n, r1, 3, auth), entry(n, r1, 2)))
        two = z3.And(z3.Not(given), log_grew(d0, d1, 2), entry(n, r1, 2), d1.c['raised'][n] == TYPEERR_EXC, entry(n + 1, r1, 3, NONE))
        last = z3.If(d1.c['len'] == n + 2, n + 1, n)
        return has, one, two, r1, last, d1, d0

    def default_refusal(D):
        return z3.And(smt.kind(D) == smt.K_DICT, smt.vhas(D, A('message')), smt.vget(D, A('message')) == A('Connection rejected by server'))

    def cbs_same(c):
        s_, k_ = z3.Consts('cs_s cs_k', V)
        cb0, cb1 = c.pre.get(*CBS), c.post.get(*CBS)
        return z3.And(z3.ForAll([s_, k_], z3.And(cb_present(c.post, s_, k_) == cb_present(c.pre, s_, k_),
                                                 z3.Implies(cb_present(c.pre, s_, k_), cb_val(c.post, s_, k_) == cb_val(c.pre, s_, k_)))),
                      z3.ForAll([s_], cb1.c['dom'][s_] == cb0.c['dom'][s_]), *cb_ok(c.post).values())

    def new_session(c, r):
        ns, e = ns_(c), c.a.eio_sid
        d = {'fresh-session-id': z3.And(z3.Not(c.pre.get('g', 'issued').c['.'][r]), r != NONE),
             'registered': member_rel(c.pre, c.post, added=lambda a, ro, s: z3.And(a == ns, s == r, z3.Or(ro == NONE, ro == r))),
             'transports-kept': vals_kept(c.pre, c.post), 'owns-the-transport': owns(c.post, e, ns, r), 'callbacks-untouched': cbs_same(c)}
        d.update(inv_m(c.post))
        d.update(issued_ok(c.post))
        return z3.And(*d.values())

    def no_session(c):
        d = {'no-membership-anywhere': member_rel(c.pre, c.post), 'transports-kept': vals_kept(c.pre, c.post), 'callbacks-untouched': cbs_same(c),
             'pending-unchanged': sv_equiv(c.post.get(*PEND), c.pre.get(*PEND)) if False else z3.BoolVal(True)}
        n, s = z3.Consts('ns_n ns_s', V)
        d['pending-unchanged'] = z3.ForAll([n, s], pending(c.post, n, s) == pending(c.pre, n, s))
        d.update(inv_m(c.post))
        d.update(issued_ok(c.post))
        return z3.And(*d.values())

    def accepted(c):
        ns, e = ns_(c), c.a.eio_sid
        has, one, two, r1, last, d1, d0 = dispatches(c)
        r = z3.If(has, r1, owner(c.post, ns, e))
        ret_ok = z3.And(d1.c['raised'][last] == NONE, d1.c['ret'][last] != smt.FALSE)
        return {'connect-handler-ran-once-with-auth': z3.If(has, z3.And(z3.Or(one, two), ret_ok), sv_equiv(d1, d0)),
                'answered-with-CONNECT-carrying-the-sid': out_seq(c.pre, c.post, e, [pkt(CONNECT_T, ns, sid_payload(r))]),
                'session-registered': new_session(c, r), 'connected': connected(c.post, ns, r)}

    def refused(c):
        ns, e = ns_(c), c.a.eio_sid
        has, one, two, r1, last, d1, d0 = dispatches(c)
        by_exc = d1.c['raised'][last] == REFUSED_EXC
        by_false = z3.And(d1.c['raised'][last] == NONE, d1.c['ret'][last] == smt.FALSE)
        reason_ok = lambda D: z3.If(by_exc, D == d1.c['err'][last], default_refusal(D))
        always = c.pre.get('server', 'always_connect').leaf()
        return {'connect-handler-ran-once-with-auth': z3.And(has, z3.Or(one, two), z3.Or(by_exc, by_false)),
                'answered-with-the-refusal': z3.If(always,
                                                   out_seq(c.pre, c.post, e, [pkt(CONNECT_T, ns, sid_payload(r1)), pkt(DISCONNECT_T, ns, reason_ok)]),
                                                   out_seq(c.pre, c.post, e, [pkt(CONNECT_ERROR_T, ns, reason_ok)])),
                'fresh-session-id': z3.Not(c.pre.get('g', 'issued').c['.'][r1]),
                'retains-no-membership': no_session(c)}

    def raised_(c):
        ns, e = ns_(c), c.a.eio_sid
        has, one, two, r1, last, d1, d0 = dispatches(c)
        always = c.pre.get('server', 'always_connect').leaf()
        return {'connect-handler-ran': z3.And(has, z3.Or(one, two, z3.And(z3.Not(smt.truthy(c.a.data)), log_grew(d0, d1, 2)))),
                'session-stays-until-the-transport-ends': new_session(c, r1),
                'sent': z3.If(always, out_seq(c.pre, c.post, e, [pkt(CONNECT_T, ns, sid_payload(r1))]), sv_equiv(c.post.get(*OUT), c.pre.get(*OUT)))}

    def turned_away(c):
        ns, e = ns_(c), c.a.eio_sid
        return {'no-handler-runs': sv_equiv(c.post.get(*DISP), c.pre.get(*DISP)),
                'answered-with-CONNECT_ERROR': out_seq(c.pre, c.post, e, [pkt(CONNECT_ERROR_T, ns, lambda D: D == A('Unable to connect'))]),
                'no-membership-gained': no_session(c)}
    return Contract(
        target=target, schema=world, self_obj='server', params={'eio_sid': 'V', 'namespace': 'V', 'data': 'V'},
        requires=req,
        cases=[Case('not-served-or-already-connected', when=lambda c: z3.Not(admitted(c)), post=turned_away),
               Case('accepted', when=admitted, post=accepted, group='admitted'),
               Case('refused', when=admitted, post=refused, group='admitted'),
               Case('connect-handler-raises', when=admitted, kind='raise', exc='Exception', post=raised_)],
        modifies=[ROOMS, CBS, PEND, DISP, CALLS, OUT, ('g', 'raw'), ('g', 'issued')], props=['C04', 'C11'],
        must_fail=lambda c: {'accepted:claims-no-answer': sv_equiv(c.post.get(*OUT), c.pre.get(*OUT))})


def register2(reg):
    for w, m_, c_ in ((worlds.SERVER, 'server', 'Server'), (worlds.ASYNC_SERVER, 'async_server', 'AsyncServer')):
        reg.add(handle_connect_contract(w, '%s.%s._handle_connect' % (m_, c_)))


_register1 = register


def register(reg):
    _register1(reg)
    register2(reg)


# ============================================================================ _handle_eio_message (C05, C12)
from .packet_summary import dec_type, dec_ns, dec_id, dec_data, dec_count
from .server_events import wellformed_event, event_effect, client_of, out_same_at
from pyvc.dsl import fget, fv

T = {k: smt.box_int(z3.IntVal(v)) for k, v in dict(CONNECT=0, DISCONNECT=1, EVENT=2, ACK=3, CONNECT_ERROR=4, BINARY_EVENT=5, BINARY_ACK=6).items()}


def binp_ok(st):
    """half-received packets came off the wire: their id is a JSON/msgpack value"""
    b = st.get(*BINP)
    x = z3.Const('bo_x', V)
    return {'buffered-packets-came-off-the-wire': z3.ForAll([x], z3.Implies(b.c['dom'][x], smt.kind(b.c['.id/'][x]) != smt.K_OTHER))}


def eio_message_contract(world, target):
    """Dispatch by decoded packet type and reassembly of binary packets.  Stated for an ARBITRARY frame: the decoded
    fields are uninterpreted functions of the frame (C12's "for all inputs")."""
    def buffering(c):
        return c.pre.get(*BINP).c['dom'][c.a.eio_sid]

    def req(c):
        d = base_req(c)
        d.update(issued_ok(c.pre))
        nss = c.pre.get('server', 'namespaces').leaf()
        d['namespaces-config'] = z3.Or(smt.kind(nss) == smt.K_LIST, nss == c13.STAR)
        d['transport-known'] = z3.And(c.pre.get(*ENV).c['dom'][c.a.eio_sid], c.a.eio_sid != NONE)
        d.update(binp_ok(c.pre))
        return d

    def binp_frame(c, pre, post, keep_self):
        """every other transport's half-received packet is untouched"""
        b0, b1 = pre.get(*BINP), post.get(*BINP)
        x = z3.Const('bf_x', V)
        return z3.ForAll([x], z3.Implies(x != c.a.eio_sid, z3.And(b1.c['dom'][x] == b0.c['dom'][x],
                                                                   z3.Implies(b0.c['dom'][x], sv_equiv(b1.child(('k', x)), b0.child(('k', x)))))))

    def header_stored(c):
        ep, e = c.a.data, c.a.eio_sid
        b1 = c.post.get(*BINP)
        rec = b1.child(('k', e))
        return {'stored-under-its-own-transport': b1.c['dom'][e],
                'fields': z3.And(rec.c['packet_type/'] == ty(c), rec.c['namespace/'] == f_ns(c), rec.c['id/'] == f_id(c),
                                 rec.c['data/'] == f_data(c), rec.c['attachment_count/'] == f_count(c), rec.c['attachments/len'] == 0),
                'others-untouched': binp_frame(c, c.pre, c.post, False),
                'nothing-invoked': sv_equiv(c.post.get(*DISP), c.pre.get(*DISP)),
                'nothing-sent': sv_equiv(c.post.get(*OUT), c.pre.get(*OUT)),
                'manager-untouched': z3.And(member_rel(c.pre, c.post), vals_kept(c.pre, c.post))}

    # an empty frame is not decoded at all: the constructor's defaults stand (an EVENT without namespace, id or payload)
    given = lambda c: smt.truthy(c.a.data)
    ty = lambda c: z3.If(given(c), dec_type(c.a.data), T['EVENT'])
    f_ns = lambda c: z3.If(given(c), dec_ns(c.a.data), NONE)
    f_id = lambda c: z3.If(given(c), dec_id(c.a.data), NONE)
    f_data = lambda c: z3.If(given(c), dec_data(c.a.data), NONE)
    f_count = lambda c: z3.If(given(c), dec_count(c.a.data), 0)
    is_bin_hdr = lambda c: z3.And(z3.Not(buffering(c)), z3.Or(ty(c) == T['BINARY_EVENT'], ty(c) == T['BINARY_ACK']))
    bad_type = lambda c: z3.And(z3.Not(buffering(c)), z3.Not(z3.Or(*[ty(c) == T[k] for k in ('CONNECT', 'DISCONNECT', 'EVENT', 'ACK', 'BINARY_EVENT', 'BINARY_ACK')])))

    def rejected(c):
        return {'no-handler-runs': sv_equiv(c.post.get(*DISP), c.pre.get(*DISP)), 'nothing-sent': sv_equiv(c.post.get(*OUT), c.pre.get(*OUT)),
                'manager-untouched': z3.And(member_rel(c.pre, c.post), vals_kept(c.pre, c.post)),
                'callbacks-untouched': sv_equiv(c.post.get(*CBS), c.pre.get(*CBS)),
                'buffers-untouched': sv_equiv(c.post.get(*BINP), c.pre.get(*BINP))}

    def ownership(c):
        """C12: whatever the frame, nothing is sent to, invoked for, or changed for another client"""
        e = c.a.eio_sid
        o0, o1 = c.pre.get(*OUT), c.post.get(*OUT)
        x, a, r, s, k = z3.Consts('ow_x ow_n ow_r ow_s ow_k', V)
        names = ('ptype', 'ns', 'id', 'data')
        mine = lambda a_, s_: owns(c.pre, e, a_, s_)
        return {
            'nothing-sent-to-other-transports': z3.ForAll([x], z3.Implies(x != e, out_same_at(o0, o1, x))),
            'other-clients-membership-kept': z3.ForAll([a, r, s], z3.Implies(z3.And(member(c.pre, a, r, s), z3.Not(mine(a, s))), member(c.post, a, r, s))),
            'no-membership-for-existing-clients-gained': z3.ForAll([a, r, s], z3.Implies(z3.And(member(c.post, a, r, s), z3.Not(member(c.pre, a, r, s))),
                                                                                      z3.Not(c.pre.get('g', 'issued').c['.'][s]))),
            'other-clients-callbacks-kept': z3.ForAll([s, k], z3.Implies(z3.And(cb_present(c.pre, s, k), z3.Not(z3.Exists([a], mine(a, s)))),
                                                                         z3.And(cb_present(c.post, s, k), cb_val(c.post, s, k) == cb_val(c.pre, s, k)))),
            'other-transports-buffers-kept': binp_frame(c, c.pre, c.post, False),
            'server-still-consistent': z3.And(*inv_m(c.post).values(), *binp_ok(c.post).values()),
        }
    # ---- C05: a frame is handed, once, to the handler its decoded type selects (whose own contract says the rest)
    from pyvc.contract import delegated

    def args_of(c):
        ep = c.a.data
        return dict(eio_sid=c.a.eio_sid, namespace=f_ns(c), id=f_id(c), data=f_data(c))
    disc_args = lambda c: dict(eio_sid=c.a.eio_sid, namespace=f_ns(c), reason=R_CLIENT)
    conn_args = lambda c: dict(eio_sid=c.a.eio_sid, namespace=f_ns(c), data=f_data(c))
    PRE_CALLS = ('.decode', '._data_is_binary', '.add_attachment')     # packet methods called before the dispatch
    fresh_frame = lambda c, t: z3.And(z3.Not(buffering(c)), ty(c) == T[t])

    def plain(suffix, argf, kind):
        def post(c):
            d = delegated(c, suffix, argf(c), kind, allow_before=PRE_CALLS)
            return d
        return post
    dispatch_cases = []
    for tname, suffix, argf in (('EVENT', '._handle_event', args_of), ('ACK', '._handle_ack', args_of),
                                ('CONNECT', '._handle_connect', conn_args), ('DISCONNECT', '._handle_disconnect', disc_args)):
        g_ = (lambda t: lambda c: fresh_frame(c, t))(tname)
        dispatch_cases.append(Case(tname, when=g_, post=plain(suffix, argf, 'return')))
        dispatch_cases.append(Case(tname + '.handler-raises', when=g_, kind='raise', exc='Exception', post=plain(suffix, argf, 'raise'), group='dx:' + tname))
        dispatch_cases.append(Case(tname + '.undecodable', when=g_, kind='raise', exc='Exception', post=rejected, group='dx:' + tname))
    # ---- attachments of a binary packet being received
    from .packet_summary import reconstructed

    def buf(c, st):
        return st.get(*BINP).child(('k', c.a.eio_sid))

    def n_att(c):
        return buf(c, c.pre).c['attachments/len']

    def count(c):
        return buf(c, c.pre).c['attachment_count/']

    def entry_removed(c):
        b0, b1 = c.pre.get(*BINP), c.post.get(*BINP)
        return {'buffer-entry-removed': z3.Not(b1.c['dom'][c.a.eio_sid]), 'other-buffers-untouched': binp_frame(c, c.pre, c.post, False)}

    def completed_args(c):
        r = buf(c, c.pre)
        n = n_att(c)
        atts = PySeq([View(r.c['attachments/arr'], z3.IntVal(0), n), Fixed([S(c.a.data)])], 'list')
        return dict(eio_sid=c.a.eio_sid, namespace=r.c['namespace/'], id=r.c['id/'],
                    data=reconstructed(r.c['data/'], c.eng.to_v(c.ctx, atts)))

    def completes(suffix, kind):
        def post(c):
            d = delegated(c, suffix, completed_args(c), kind, allow_before=PRE_CALLS, changed_before=[BINP])
            d.update(entry_removed(c))
            return d
        return post
    more = lambda c: z3.And(buffering(c), count(c) > n_att(c) + 1)
    last = lambda c: z3.And(buffering(c), count(c) == n_att(c) + 1)
    last_ev = lambda c: z3.And(last(c), buf(c, c.pre).c['packet_type/'] == T['BINARY_EVENT'])
    last_ack = lambda c: z3.And(last(c), buf(c, c.pre).c['packet_type/'] != T['BINARY_EVENT'])

    def appended(c):
        r0, r1 = buf(c, c.pre), buf(c, c.post)
        n = n_att(c)
        p_ = z3.Int('ap_p')
        return {'attachment-kept-in-arrival-order': z3.And(c.post.get(*BINP).c['dom'][c.a.eio_sid], r1.c['attachments/len'] == n + 1,
                                                            r1.c['attachments/arr'][n] == c.a.data,
                                                            z3.ForAll([p_], z3.Implies(z3.And(p_ >= 0, p_ < n), r1.c['attachments/arr'][p_] == r0.c['attachments/arr'][p_])),
                                                            *[r1.c[f] == r0.c[f] for f in ('packet_type/', 'namespace/', 'id/', 'data/', 'attachment_count/')]),
                'other-buffers-untouched': binp_frame(c, c.pre, c.post, False),
                'nothing-invoked': sv_equiv(c.post.get(*DISP), c.pre.get(*DISP)), 'nothing-sent': sv_equiv(c.post.get(*OUT), c.pre.get(*OUT)),
                'manager-untouched': z3.And(member_rel(c.pre, c.post), vals_kept(c.pre, c.post))}
    dispatch_cases.append(Case('attachment.more-to-come', when=more, post=appended))
    dispatch_cases.append(Case('attachment.completes-event', when=last_ev, post=completes('._handle_event', 'return')))
    dispatch_cases.append(Case('attachment.completes-event.handler-raises', when=last_ev, kind='raise', exc='Exception', post=completes('._handle_event', 'raise')))
    dispatch_cases.append(Case('attachment.completes-ack', when=last_ack, post=completes('._handle_ack', 'return')))
    dispatch_cases.append(Case('attachment.completes-ack.callback-raises', when=last_ack, kind='raise', exc='Exception', post=completes('._handle_ack', 'raise')))
    dispatch_cases.append(Case('attachment.unexpected', when=lambda c: z3.And(buffering(c), count(c) <= n_att(c)), kind='raise', exc='ValueError', post=rejected))
    dispatch_cases.append(Case('binary-header', when=is_bin_hdr, post=header_stored))
    dispatch_cases.append(Case('binary-header.undecodable', when=is_bin_hdr, kind='raise', exc='Exception', post=rejected))
    dispatch_cases.append(Case('unexpected-type-or-undecodable', when=bad_type, kind='raise', exc='Exception', post=rejected))
    dispatch_cases.append(Case('unexpected-type.accepted', when=bad_type, forbid=True))
    dispatch_cases.append(Case('attachment.unexpected.accepted', when=lambda c: z3.And(buffering(c), count(c) <= n_att(c)), forbid=True))

    return Contract(
        target=target, schema=world, self_obj='server', params={'eio_sid': 'V', 'data': 'V'},
        requires=req,
        cases=[
            Case('any-frame', post=ownership, group='own'),
            Case('any-frame.raises', kind='raise', exc='Exception', post=ownership, group='ownx'),
        ] + dispatch_cases,
        modifies=[ROOMS, CBS, PEND, DISP, CALLS, OUT, ('g', 'raw'), ('g', 'issued'), BINP], props=['C12', 'C05'],
        must_fail=lambda c: {'any-frame:claims-nothing-ever-sent': sv_equiv(c.post.get(*OUT), c.pre.get(*OUT))})


def register3(reg):
    for w, m_, c_ in ((worlds.SERVER, 'server', 'Server'), (worlds.ASYNC_SERVER, 'async_server', 'AsyncServer')):
        reg.add(eio_message_contract(w, '%s.%s._handle_eio_message' % (m_, c_)))


_register2 = register


def register(reg):
    _register2(reg)
    register3(reg)


# ============================================================================ user sessions (C16)
def session_contracts(world, m_, c_):
    def cell(c):
        ns = eff_ns(c.a.namespace)
        return transport(c.pre, ns, c.a.sid), ns

    def others_kept(c):
        e, ns = cell(c)
        s0, s1 = c.pre.get(*SESS), c.post.get(*SESS)
        x, y = z3.Consts('se_x se_y', V)
        return z3.ForAll([x, y], z3.Implies(z3.Not(z3.And(x == e, y == ns)),
                                            z3.And(z3.And(s1.c['dom'][x], s1.c['.dom'][x][y]) == z3.And(s0.c['dom'][x], s0.c['.dom'][x][y]),
                                                   z3.Implies(z3.And(s0.c['dom'][x], s0.c['.dom'][x][y]), s1.c['..'][x][y] == s0.c['..'][x][y]))))
    is_conn = lambda c: member(c.pre, eff_ns(c.a.namespace), NONE, c.a.sid)

    def got(c):
        e, ns = cell(c)
        s0, s1 = c.pre.get(*SESS), c.post.get(*SESS)
        had = z3.And(s0.c['dom'][e], s0.c['.dom'][e][ns])
        return {'returns-the-session-of-this-client-and-namespace': z3.And(s1.c['dom'][e], s1.c['.dom'][e][ns], c.res_v() == s1.c['..'][e][ns]),
                'what-was-saved-is-what-is-returned': z3.Implies(had, c.res_v() == s0.c['..'][e][ns]),
                'a-new-session-starts-empty': z3.Implies(z3.Not(had), z3.And(smt.kind(c.res_v()) == smt.K_DICT, smt.vlen(c.res_v()) == 0)),
                'no-other-session-touched': others_kept(c)}

    def saved(c):
        e, ns = cell(c)
        s1 = c.post.get(*SESS)
        return {'saved-under-this-client-and-namespace': z3.And(s1.c['dom'][e], s1.c['.dom'][e][ns], s1.c['..'][e][ns] == c.a.session),
                'no-other-session-touched': others_kept(c)}
    req = lambda c: dict(struct(c.pre), **{'client-is-connected': is_conn(c)})
    return [
        Contract(target='%s.%s.get_session' % (m_, c_), schema=world, self_obj='server', params={'sid': 'V', 'namespace': 'V'},
                 requires=req, cases=[Case('session', result='V', post=got)], modifies=[SESS], props=['C16']),
        Contract(target='%s.%s.save_session' % (m_, c_), schema=world, self_obj='server', params={'sid': 'V', 'session': 'V', 'namespace': 'V'},
                 requires=req, cases=[Case('saved', post=saved)], modifies=[SESS], props=['C16']),
    ]


_register3 = register


def register(reg):
    _register3(reg)
    for w, m_, c_ in ((worlds.SERVER, 'server', 'Server'), (worlds.ASYNC_SERVER, 'async_server', 'AsyncServer')):
        for k in session_contracts(w, m_, c_):
            reg.add(k)


# ---------------------------------------------------------------------------- session() context manager (C16)
def session_cm_contracts(world, m_, c_):
    from pyvc.contract import delegated
    from pyvc.vals import Obj
    T = '%s.%s.session' % (m_, c_)
    CV = {'sid': 'V', 'namespace': 'V'}

    def me(eng, ctx):
        """the context manager object as session() builds it"""
        return ctx.alloc('rec', {'server': Obj('server'), 'sid': ctx.lookup('sid') if False else S(z3.Const('p_sid', V)),
                                 'namespace': S(z3.Const('p_namespace', V)), 'session': S(z3.Const('cm_session', V))}, cls='_session_context_manager')

    def entered(c):
        d = delegated(c, 'get_session', dict(sid=c.a.sid, namespace=c.a.namespace), 'return')
        calls = [n for n in c.ctx.notes if n[0] == 'called']
        me_ = c.vals['self']
        held = c.ctx.heap[me_.id].data.get('session')
        d['the-session-is-returned-and-remembered'] = z3.BoolVal(held is not None) if held is None else z3.And(c.res_v() == c.v(held))
        ns = eff_ns(c.a.namespace)
        e = transport(c.pre, ns, c.a.sid)
        s1 = c.post.get(*SESS)
        d['it-is-the-stored-session-of-this-client-and-namespace'] = z3.And(s1.c['dom'][e], s1.c['.dom'][e][ns], c.res_v() == s1.c['..'][e][ns])
        return d

    def exited(c):
        me_ = c.vals['self']
        held0 = z3.Const('cm_session', V)
        return delegated(c, 'save_session', dict(sid=c.a.sid, session=held0, namespace=c.a.namespace), 'return')
    req = lambda c: dict(struct(c.pre), **{'client-is-connected': member(c.pre, eff_ns(c.a.namespace), NONE, c.a.sid)})
    a_ = 'a' if c_.startswith('Async') else ''
    return [
        Contract(target=T + '>__%senter__' % a_, schema=world, self_obj='server', self_rec=me, params={}, closure_vars=CV, requires=req,
                 cases=[Case('enters', result='V', post=entered)], modifies=[SESS], props=['C16']),
        Contract(target=T + '>__%sexit__' % a_, schema=world, self_obj='server', self_rec=me, params={'args': ('seq', 'tuple')}, closure_vars=CV, requires=req,
                 cases=[Case('saves-what-the-block-worked-on', post=exited)], modifies=[SESS], props=['C16']),
    ]


_register4 = register


def register(reg):
    _register4(reg)
    for w, m_, c_ in ((worlds.SERVER, 'server', 'Server'), (worlds.ASYNC_SERVER, 'async_server', 'AsyncServer')):
        for k in session_cm_contracts(w, m_, c_):
            reg.add(k)
