"""_send_packet (server and client, threaded and asyncio): the engine.io frames of one encoded packet are queued
contiguously and in order on one connection.  Callers see the abstract effect "packet queued" (ghost log g.out)."""
import z3
from pyvc import smt
from pyvc.smt import V, B, I, NONE
from pyvc.contract import Contract, Case, LoopSpec
from pyvc.dsl import log_append, fv
from pyvc.vals import S
from . import worlds
from .packet_summary import packet_param, pkt_fields

OUT = ('g', 'out')
RAW = ('g', 'raw')


def frames_of(enc):
    """the frames of an encode() result: the list itself, or the single text/bytes frame"""
    is_list = smt.kind(enc) == smt.K_LIST
    return z3.If(is_list, smt.vlen(enc), 1), (lambda q: z3.If(is_list, smt.vseq(enc)[q], enc))


def raw_grew(pre, post, e, n, at, upto=None):
    """raw'[e] = raw[e] ++ frames[0:upto]; every other connection's queue untouched"""
    r0, r1 = pre.get(*RAW), post.get(*RAW)
    len0, len1 = r0.c['.len'][e], r1.c['.len'][e]
    f0, f1 = r0.c['.frame'][e], r1.c['.frame'][e]
    k = n if upto is None else upto
    q, j = z3.Ints('rg_q rg_j')
    x = z3.Const('rg_e', V)
    return {
        'frames-queued': len1 == len0 + k,
        'in-order': z3.ForAll([q], z3.Implies(z3.And(q >= 0, q < k), f1[len0 + q] == at(q))),
        'earlier-frames-kept': z3.ForAll([j], z3.Implies(z3.And(j >= 0, j < len0), f1[j] == f0[j])),
        'other-connections-untouched': z3.ForAll([x], z3.Implies(x != e, z3.And(r1.c['.len'][x] == r0.c['.len'][x], r1.c['.frame'][x] == r0.c['.frame'][x]))),
    }


def the_encoding(c):
    notes = [n for n in c.ctx.notes if n[0] == 'encoded']
    return notes


def send_packet_contract(world, obj, target, dest_param):
    """dest_param: name of the transport-id parameter (server) or None (client: the single connection)"""
    def dest(c):
        return c.a[dest_param] if dest_param else smt.atom('the-connection')

    def inv(lc):
        enc = lc.t('encoded_packet')
        e = lc.t(dest_param) if dest_param else smt.atom('the-connection')
        n, at = frames_of(enc)
        return raw_grew(lc.entry, lc.cur, e, n, at, upto=lc.i)

    def post(c):
        notes = the_encoding(c)
        d = {'encodes-once': z3.BoolVal(len(notes) == 1)}
        if len(notes) != 1:
            return d
        _, enc, fields = notes[0]
        mine = pkt_fields(c, c.vals['pkt'])
        d['encodes-the-packet-given'] = z3.And(*[fields[k] == mine[k] for k in fields])
        n, at = frames_of(enc)
        d.update(raw_grew(c.pre, c.post, dest(c), n, at))
        return d

    def queued(c):
        f = pkt_fields(c, c.vals['pkt'])
        log_append(c, 'g', 'out', key=dest(c), **f)
    params = {'pkt': packet_param}
    if dest_param:
        params[dest_param] = 'V'
    return Contract(
        target=target, schema=world, self_obj=obj, params=params,
        cases=[Case('queues-frames', post=post)],
        summary=[Case('packet-queued', update=queued)],
        loops={0: LoopSpec(inv, mod_state=[RAW])},
        modifies=[RAW, OUT], props=['C02', 'C05'],
        abstraction='g.out[e] record (type, namespace, id, data) := the frames of that packet\'s encode() were queued on connection e '
                    'contiguously and in order (g.raw[e])',
        must_fail=lambda c: {'queues-frames:claims-nothing-sent': c.post.get(*RAW).c['.len'][dest(c)] == c.pre.get(*RAW).c['.len'][dest(c)]})


def register(reg):
    reg.add(send_packet_contract(worlds.SERVER, 'server', 'server.Server._send_packet', 'eio_sid'))
    reg.add(send_packet_contract(worlds.ASYNC_SERVER, 'server', 'async_server.AsyncServer._send_packet', 'eio_sid'))
