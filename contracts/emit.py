"""Manager.emit / AsyncManager.emit: the central clause of C03 -- delivered exactly once to every addressed member
except the skipped ones, and to nobody else -- and C06's "one fresh id per recipient"."""
import z3
from pyvc import smt
from pyvc.smt import V, B, I, NONE, atom
from pyvc.contract import Contract, Case, LoopSpec
from pyvc.dsl import A, prepend, log_append
from pyvc.vals import S, PySeq, Fixed, View
from . import worlds
from .views import (issued_ok, member, val, transport, struct, i1, inv_m, cb_ok, outstanding, cb_present, cb_val, rooms, COUNTER)
from .manager import addressed, room_domain, empty_kwargs, ROOMS, CBS, NEXT
from .sending import frames_of, raw_grew, OUT, RAW
from .packet_summary import has_binary

W = worlds.SERVER
CFG_BIN = z3.Const('cfg_uses_binary_events', B)
EVENT, BINARY_EVENT = smt.box_int(z3.IntVal(2)), smt.box_int(z3.IntVal(5))


def eff_room(to, room):
    return z3.If(smt.truthy(to), to, room)


def skipped(skip, s):
    p = z3.Int('sk_p')
    return z3.If(smt.kind(skip) == smt.K_LIST, z3.Exists([p], z3.And(p >= 0, p < smt.vlen(skip), smt.vseq(skip)[p] == s)), s == skip)


def owner(st, ns, e):
    return rooms(st).c['..inv'][ns][NONE][e]


def is_owner(st, ns, e):
    s = owner(st, ns, e)
    return z3.And(member(st, ns, NONE, s), transport(st, ns, s) == e)


def recipient(st, ns, room, skip, e):
    """connection e belongs to a client that is connected to ns, is in an addressed room and is not skipped"""
    s = owner(st, ns, e)
    return z3.And(is_owner(st, ns, e), addressed(st, ns, room, s), z3.Not(skipped(skip, s)))


SHAPES = {
    'tuple-payload': (lambda d: smt.kind(d) == smt.K_TUPLE, lambda ev, d: PySeq([Fixed([S(ev)]), View(smt.vseq(d), z3.IntVal(0), smt.vlen(d))], 'list')),
    'no-payload': (lambda d: d == NONE, lambda ev, d: PySeq([Fixed([S(ev)])], 'list')),
    'single-payload': (lambda d: z3.And(smt.kind(d) != smt.K_TUPLE, d != NONE), lambda ev, d: PySeq([Fixed([S(ev), S(d)])], 'list')),
}


def out_delta(pre, post, rcv, fields_at):
    """for every connection e: exactly one more packet iff rcv(e), with the given fields; earlier packets untouched"""
    o0, o1 = pre.get(*OUT), post.get(*OUT)
    e = z3.Const('od_e', V)
    j = z3.Int('od_j')
    len0, len1 = o0.c['.len'][e], o1.c['.len'][e]
    same = z3.And(*[o1.c['.' + f][e][j] == o0.c['.' + f][e][j] for f in ('ptype', 'ns', 'id', 'data')])
    fld = fields_at(e)
    newrec = z3.And(*[o1.c['.' + f][e][len0] == fld[f] for f in fld])
    return {
        'exactly-once-to-recipients-nothing-to-others': z3.ForAll([e], len1 == len0 + z3.If(rcv(e), 1, 0)),
        'the-event-packet': z3.ForAll([e], z3.Implies(rcv(e), newrec)),
        'earlier-packets-kept': z3.ForAll([e, j], z3.Implies(z3.And(j >= 0, j < len0), same)),
    }


def the_note(ctx):
    notes = [n for n in ctx.notes if n[0] == 'encoded']
    return notes[-1] if notes else None


def emit_contract(target, W=W, also=()):
    def ns_known(c):
        return rooms(c.pre).c['dom'][c.a.namespace]

    # ---------------- broadcast without callback: loops 0 (comprehension), 1 (recipients), 2 (frames)
    def inv_recipients(lc):
        ns, skip = lc.t('namespace'), lc.t('skip_sid_orig')
        P = lc.coll
        note = the_note(lc.ctx)
        fields = note[2]
        st0 = lc.entry
        def rcv(e):
            s = owner(st0, ns, e)
            return z3.And(is_owner(st0, ns, e), lc.done[s], z3.Not(skipped(skip, s)))
        return out_delta(lc.entry, lc.cur, rcv, lambda e: fields)

    def inv_frames(lc):
        e = lc.t('eio_sid')
        seq = lc.seq
        return raw_grew(lc.entry, lc.cur, e, seq.length(), lambda q: lc.eng.seq_at(lc.ctx, seq, q), upto=lc.i)

    def frames_exit(lc):
        """ghost step: the frames just queued on eio_sid are those of the packet's encode() => the packet is queued"""
        note = the_note(lc.ctx)
        enc, fields = note[1], note[2]
        n, at = frames_of(enc)
        seq = lc.seq
        q = z3.Int('fe_q')
        lc.eng.oblig('loop2.exit.all-frames-of-the-packet-in-order', lc.ctx,
                     z3.And(seq.length() == n, z3.ForAll([q], z3.Implies(z3.And(q >= 0, q < n), lc.eng.seq_at(lc.ctx, seq, q) == at(q)))), kind='loop')

        class C:
            eng, ctx = lc.eng, lc.ctx
        log_append(C, 'g', 'out', key=lc.t('eio_sid'), **fields)

    def broadcast_post(shape):
        def post(c):
            ns, ev, d = c.a.namespace, c.a.event, c.a.data
            room = eff_room(c.a.to, c.a.room)
            D = c.eng.to_v(c.ctx, SHAPES[shape][1](ev, d))
            exp = {'ptype': z3.If(z3.And(CFG_BIN, has_binary(D)), BINARY_EVENT, EVENT), 'ns': ns, 'id': NONE, 'data': D}
            return out_delta(c.pre, c.post, lambda e: recipient(c.pre, ns, room, c.a.skip_sid, e), lambda e: exp)
        return post

    cases = [Case('unknown-namespace', when=lambda c: z3.Not(ns_known(c)), update=lambda c: None)]
    for shape, (cond, _) in SHAPES.items():
        cases.append(Case('broadcast.' + shape,
                          when=(lambda cond: lambda c: z3.And(ns_known(c), z3.Not(smt.truthy(c.a.callback)), cond(c.a.data)))(cond),
                          post=broadcast_post(shape)))

    # ---------------- with a callback: loop 3; one fresh id per recipient, registered for that recipient only
    def expected_data(lc):
        return lc.eng.to_v(lc.ctx, prepend([lc.t('event')], lc.eng.as_seq(lc.ctx, lc.var('data')), 'list'))

    def cb_delta(pre, post, callback, may_add):
        s, k = z3.Consts('cd_s cd_k', V)
        d = {'outstanding-callbacks-kept': z3.ForAll([s, k], z3.Implies(outstanding(pre, s, k), z3.And(outstanding(post, s, k), cb_val(post, s, k) == cb_val(pre, s, k)))),
             'new-entries-only-for-recipients': z3.ForAll([s, k], z3.Implies(z3.And(outstanding(post, s, k), z3.Not(outstanding(pre, s, k))),
                                                                                z3.And(may_add(s), cb_val(post, s, k) == callback)))}
        d.update(cb_ok(post))
        d['issued-kept'] = z3.Implies(z3.And(*issued_ok(pre).values()), z3.And(*issued_ok(post).values()))
        return d

    def id_ok(pre, post, ns_owner, callback, e):
        """the id carried by the packet just queued on e is fresh for, and now outstanding for, e's client"""
        o0, o1 = pre.get(*OUT), post.get(*OUT)
        k = o1.c['.id'][e][o0.c['.len'][e]]
        s = ns_owner(e)
        return z3.And(outstanding(post, s, k), cb_val(post, s, k) == callback, z3.Not(cb_present(pre, s, k)))

    def inv_cb(lc):
        ns, skip, cb = lc.t('namespace'), lc.t('skip_sid_orig'), lc.t('callback')
        st0 = lc.entry
        D = expected_data(lc)
        e = z3.Const('ic_e', V)

        def rcv(e):
            s = owner(st0, ns, e)
            return z3.And(is_owner(st0, ns, e), lc.done[s], z3.Not(skipped(skip, s)))
        exp = {'ptype': z3.If(z3.And(CFG_BIN, has_binary(D)), BINARY_EVENT, EVENT), 'ns': ns, 'data': D}
        d = out_delta(lc.entry, lc.cur, rcv, lambda e: exp)
        d['ids'] = z3.ForAll([e], z3.Implies(rcv(e), id_ok(lc.entry, lc.cur, lambda x: owner(st0, ns, x), cb, e)))
        d.update(cb_delta(lc.entry, lc.cur, cb, lambda s: z3.And(lc.done[s], z3.Not(skipped(skip, s)))))
        return d

    def callback_post(shape):
        def post(c):
            ns, ev, d_, cb = c.a.namespace, c.a.event, c.a.data, c.a.callback
            room = eff_room(c.a.to, c.a.room)
            D = c.eng.to_v(c.ctx, SHAPES[shape][1](ev, d_))
            exp = {'ptype': z3.If(z3.And(CFG_BIN, has_binary(D)), BINARY_EVENT, EVENT), 'ns': ns, 'data': D}
            rcv = lambda e: recipient(c.pre, ns, room, c.a.skip_sid, e)
            e = z3.Const('cp_e', V)
            d = out_delta(c.pre, c.post, rcv, lambda e: exp)
            d['id-unique-and-registered-for-the-recipient'] = z3.ForAll([e], z3.Implies(rcv(e), id_ok(c.pre, c.post, lambda x: owner(c.pre, ns, x), cb, e)))
            d.update(cb_delta(c.pre, c.post, cb, lambda s: z3.And(addressed(c.pre, ns, room, s), z3.Not(skipped(c.a.skip_sid, s)))))
            return d
        return post
    for shape, (cond, _) in SHAPES.items():
        cases.append(Case('with-callback.' + shape,
                          when=(lambda cond: lambda c: z3.And(ns_known(c), smt.truthy(c.a.callback), cond(c.a.data)))(cond),
                          post=callback_post(shape)))

    def hook(eng, ctx):
        # the original skip_sid argument stays nameable after the function rebinds the local
        ctx.bind('skip_sid_orig', ctx.lookup('skip_sid'))

    return Contract(
        target=target, also=also, schema=W, self_obj='manager',
        params={'event': 'V', 'data': 'V', 'namespace': 'V', 'room': 'V', 'skip_sid': 'V', 'callback': 'V', 'to': 'V', 'kwargs': empty_kwargs},
        requires=lambda c: dict(inv_m(c.pre), **dict(dict(cb_ok(c.pre), **{k_: v_ for k_, v_ in issued_ok(c.pre).items() if k_ != 'issued.callback-keys'}), **{'dom.room': room_domain(eff_room(c.a.to, c.a.room)),
                                                                      'callback-is-not-the-counter': c.a.callback != COUNTER})),
        cases=cases, env_hook=hook,
        loops={1: LoopSpec(inv_recipients, mod_state=[RAW, OUT], mod_vars=['tasks']),
               2: LoopSpec(inv_frames, mod_state=[RAW], on_exit=frames_exit, mod_vars=['tasks']),
               3: LoopSpec(inv_cb, mod_state=[RAW, OUT, CBS, NEXT], mod_vars=['tasks'])},
        modifies=[RAW, OUT, CBS, NEXT], props=['C03', 'C02', 'C06'],
        must_fail=lambda c: {'broadcast.no-payload:claims-nothing-sent': c.post.get(*OUT).c['.len'] == c.pre.get(*OUT).c['.len']})


def register(reg):
    reg.add(emit_contract('manager.Manager.emit'))
    reg.add(emit_contract('async_manager.AsyncManager.emit', W=worlds.ASYNC_SERVER))
