"""SimpleClient.connect() / disconnect() (C19): what connect() sets up is what the hand-off proofs assume."""
import z3
from pyvc import smt
from pyvc.smt import V, NONE, atom
from pyvc.contract import Contract, Case
from pyvc.model import sv_equiv
from pyvc.vals import S, PySeq
from pyvc.externals import Recorder
from . import simple as SM
from .simple import SIMPLE, ASYNC_SIMPLE, BUF, CN, NSP, EV, IN_EV, CONN_EV, snap

CLIENT_ARGS = atom(SM.Marker('client_args'))
CLIENT_KWARGS = atom(SM.Marker('client_kwargs'))
for _w in (SIMPLE, ASYNC_SIMPLE):
    _w.consts[('sc', 'client_class')] = lambda eng, ctx: Recorder('client_class')
    _w.consts[('sc', 'client_args')] = lambda eng, ctx: S(CLIENT_ARGS)
    _w.consts[('sc', 'client_kwargs')] = lambda eng, ctx: S(CLIENT_KWARGS)
    # self.client: the object connect() creates (when it has), else the one that is there
    _w.consts[('sc', 'client')] = lambda eng, ctx: ([n[1] for n in ctx.notes if n[0] == 'client-set'] or [Recorder('client')])[-1]


def install_client_slot(eng, ctx):
    def obj_setattr(eng2, c, base, attr, v):
        if base.name == 'sc' and attr == 'client':
            c.notes.append(('client-set', v))
            return iter([(c, None)])
        return None
    eng.ext.obj_setattr = obj_setattr


PARAMS = {'url': 'V', 'headers': 'V', 'auth': 'V', 'transports': 'V', 'namespace': 'V', 'socketio_path': 'V', 'wait_timeout': 'V'}


def connect_contract(world, target):
    from pyvc.vals import Fn

    def apis(c):
        return [n for n in c.ctx.notes if n[0] == 'api']

    def kw_is(c, kw, name, term):
        v = kw.get(name)
        return z3.BoolVal(False) if v is None else c.v(v) == term

    def post(c, raised=False):
        t = snap(c.post)
        a = apis(c)
        ns = c.a.namespace
        d = {'namespace-recorded': c.post.get(*NSP).leaf() == ns,
             'buffer-starts-empty': t.blen == 0,
             'input-event-lowered': z3.Not(t.fi),
             'connected-flag-left-to-the-connect-handler': t.cn == snap(c.pre).cn}
        # 1. the transport-level client is created from the configured class and arguments
        ok_new = bool(a) and a[0][1] == 'client_class' and set(a[0][3]) == {'**'}
        d['client-created-from-the-configured-class'] = z3.BoolVal(ok_new)
        if not ok_new:
            return d
        d['with-the-configured-arguments'] = z3.And(c.v(a[0][3]['**']) == CLIENT_KWARGS, a[0][2].length() == smt.vlen(CLIENT_ARGS),
                                                    c.eng.seq_eq(c.ctx, a[0][2], c.eng.as_seq(c.ctx, S(CLIENT_ARGS))))
        R = a[0][4].path
        slot = [n[1] for n in c.ctx.notes if n[0] == 'client-set']
        d['and-kept-as-the-client'] = z3.BoolVal(len(slot) == 1 and isinstance(slot[0], Recorder) and slot[0].path == R)
        # 2. the four handlers are registered on it, for the client's namespace
        deco = {}          # decorator object path -> (how, namespace term ok)
        regs = {}          # closure name -> how
        conn_at = None
        for i, n in enumerate(a[1:], 1):
            path, args, kw = n[1], n[2], n[3]
            if path == R + '.event' and args.fixed_len() == 0 and set(kw) == {'namespace'}:
                deco[n[4].path] = ('event', kw_is(c, kw, 'namespace', ns))
            elif path == R + '.on' and args.fixed_len() == 1 and set(kw) == {'namespace'}:
                deco[n[4].path] = ('on', z3.And(kw_is(c, kw, 'namespace', ns), c.v(args.items()[0]) == atom('*')))
            elif path in deco and args.fixed_len() == 1 and isinstance(args.items()[0], Fn) and args.items()[0].kind == 'closure' and not kw:
                regs[args.items()[0].name] = deco[path] + (i,)
            elif path == R + '.connect':
                conn_at = i
            else:
                d['no-other-use-of-the-client(%s)' % path] = z3.BoolVal(False)
        want = {'connect': 'event', 'disconnect': 'event', '__disconnect_final': 'event', 'on_event': 'on'}
        d['exactly-the-four-handlers-registered'] = z3.BoolVal(set(regs) == set(want) and all(regs[k][0] == want[k] for k in regs))
        d['each-for-the-clients-namespace'] = z3.And(*[v[1] for v in regs.values()]) if regs else z3.BoolVal(False)
        # 3. then it connects, to that one namespace, with what the caller gave
        d['connects-once-after-registering'] = z3.BoolVal(conn_at is not None and conn_at == len(a) - 1 and all(v[2] < conn_at for v in regs.values()))
        if conn_at is not None:
            n = a[conn_at]
            args, kw = n[2], n[3]
            nsl = kw.get('namespaces')
            one_ns = z3.BoolVal(False)
            if nsl is not None:
                seq = c.eng.as_seq(c.ctx, nsl)
                one_ns = z3.And(seq.length() == 1, c.eng.seq_at(c.ctx, seq, z3.IntVal(0)) == ns)
            d['with-the-callers-arguments'] = z3.And(z3.BoolVal(args.fixed_len() == 1 and set(kw) == {'headers', 'auth', 'transports', 'namespaces', 'socketio_path', 'wait_timeout'}),
                                                     *([c.v(args.items()[0]) == c.a.url] + [kw_is(c, kw, k_, c.a[k_]) for k_ in ('headers', 'auth', 'transports', 'socketio_path', 'wait_timeout')]
                                                       if args.fixed_len() == 1 else []))
            d['to-the-one-namespace-given'] = one_ns
            if raised:
                d['the-clients-exception-is-passed-on'] = z3.BoolVal(n[5] is not None and n[5] is c.exc)
        return d

    def env_hook(eng, ctx):
        install_client_slot(eng, ctx)
        eng.ext.recorder_raises = {'client_class()#0.connect'}
    notconn = lambda c: z3.Not(snap(c.pre).cn)
    return Contract(
        target=target, schema=world, self_obj='sc', params=PARAMS, env_hook=env_hook,
        app_raises=['sio.ConnectionError', 'AppException'],
        cases=[Case('already-connected', when=lambda c: snap(c.pre).cn, kind='raise', exc='RuntimeError', update=lambda c: None),
               Case('connects', when=notconn, post=post),
               Case('connects.client-raises', when=notconn, kind='raise', exc='Exception', post=lambda c: post(c, True))],
        modifies=[BUF, NSP, EV], props=['C19'],
        must_fail=lambda c: {} if c.result is None else {'connects:claims-namespace-unchanged': c.post.get(*NSP).leaf() == c.pre.get(*NSP).leaf()})


def disconnect_contract(world, target):
    def apis(c):
        return [n for n in c.ctx.notes if n[0] == 'api']

    def post(c):
        a = apis(c)
        slot = [n[1] for n in c.ctx.notes if n[0] == 'client-set']
        return {'transport-level-client-disconnected-once': z3.BoolVal(len(a) == 1 and a[0][1] == 'client.disconnect' and a[0][2].fixed_len() == 0 and not a[0][3]),
                'client-forgotten': z3.BoolVal(len(slot) == 1 and isinstance(slot[0], S)) if not (len(slot) == 1 and isinstance(slot[0], S)) else slot[0].t == NONE,
                'connected-flag-cleared': z3.Not(snap(c.post).cn)}

    def idle(c):
        return {'nothing-done': z3.BoolVal(not apis(c) and not [n for n in c.ctx.notes if n[0] == 'client-set'])}
    return Contract(
        target=target, schema=world, self_obj='sc', params={}, env_hook=install_client_slot,
        cases=[Case('connected', when=lambda c: snap(c.pre).cn, post=post),
               Case('not-connected', when=lambda c: z3.Not(snap(c.pre).cn), post=idle)],
        modifies=[CN], props=['C19'])


def register(reg):
    for w, m_, c_ in ((SIMPLE, 'simple_client', 'SimpleClient'), (ASYNC_SIMPLE, 'async_simple_client', 'AsyncSimpleClient')):
        reg.add(connect_contract(w, '%s.%s.connect' % (m_, c_)))
        reg.add(disconnect_contract(w, '%s.%s.disconnect' % (m_, c_)))
