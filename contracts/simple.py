"""SimpleClient / AsyncSimpleClient (C19): the hand-off between the handler thread/task and receive()/emit()/call().

Rely/guarantee over the real code.

  guarantee   each closure that connect() registers (connect, disconnect, __disconnect_final, on_event) is an action
              with a contract ACT_x, verified on the closure's body (targets  Class.connect>name).
  rely        wherever receive()/emit()/call() can be interleaved with the handler side, the environment performs any
              number of those actions: the relation ENV below.  Lemmas (env.*, discharged by z3 on every run):
              ENV is reflexive and transitive, contains every action (from states satisfying K), and preserves INV.
              Interleaving points: the threaded client - before every Event operation and before every read of
              input_buffer / connected (ENV is transitive, so one application stands for everything since the last one);
              the asyncio client - inside a wait that actually suspends (flag clear at its start).

Ghost state (g.*): arrived - every event the catch-all handler has appended, in order; nsig - how many of them have been
signalled (input_event.set() done); final - __disconnect_final has run; ever - the connect handler has run at least once.
The number of events returned is not stored: nret = len(arrived) - len(input_buffer).
"""
import ast
import time
import z3
from pyvc import smt, source
from pyvc.smt import V, B, I, NONE, atom, Marker
from pyvc.model import Schema, Leaf, SeqT, LogT, State
from pyvc.contract import Contract, Case, LoopSpec
from pyvc.vals import S, PySeq, Exc, Raised, Unsupported
from pyvc.externals import Recorder
from . import worlds

BUF, CN, NSP = ('sc', 'input_buffer'), ('sc', 'connected'), ('sc', 'namespace')
EV, WAITS, ARR, NSIG, FIN, EVER = ('g', 'events'), ('g', 'waits'), ('g', 'arrived'), ('g', 'nsig'), ('g', 'final'), ('g', 'ever')
IN_EV = atom(Marker('input_event'))
CONN_EV = atom(Marker('connected_event'))
ENV_KEYS = [BUF, CN, EV, ARR, NSIG, FIN, EVER]


def simple_world(name, cls):
    w = Schema(name)
    w.obj('sc', cls, fields={'input_buffer': SeqT('V'), 'connected': Leaf('B'), 'namespace': Leaf('V')},
          consts={'client': lambda eng, ctx: Recorder('client'),
                  'input_event': lambda eng, ctx: S(IN_EV), 'connected_event': lambda eng, ctx: S(CONN_EV)})
    w.obj('g', ('$ext', 'Ghost'), fields={'events': worlds.EVENTS, 'waits': worlds.WAITS, 'arrived': LogT({'ev': 'V'}),
                                         'nsig': Leaf('I'), 'final': Leaf('B'), 'ever': Leaf('B')})
    return w


SIMPLE = simple_world('simple', ('simple_client', 'SimpleClient'))
ASYNC_SIMPLE = simple_world('async_simple', ('async_simple_client', 'AsyncSimpleClient'))


# --------------------------------------------------------------------------- the abstract state and its relations
class Snap:
    """the components the argument speaks about, as z3 terms"""
    def __init__(self, **kw):
        self.__dict__.update(kw)

    @property
    def nret(self):
        return self.alen - self.blen


def snap(st):
    buf, arr, ev = st.get(*BUF), st.get(*ARR), st.get(*EV)
    return Snap(blen=buf.c['len'], barr=buf.c['arr'], alen=arr.c['len'], aarr=arr.c['ev'], nsig=st.get(*NSIG).leaf(),
                fin=st.get(*FIN).leaf(), ever=st.get(*EVER).leaf(), cn=st.get(*CN).leaf(),
                fi=ev.c['.'][IN_EV], fc=ev.c['.'][CONN_EV])


def fresh_snap(tag):
    A_ = z3.ArraySort(I, V)
    return Snap(blen=z3.Int(tag + '.blen'), barr=z3.Const(tag + '.barr', A_), alen=z3.Int(tag + '.alen'), aarr=z3.Const(tag + '.aarr', A_),
                nsig=z3.Int(tag + '.nsig'), fin=z3.Bool(tag + '.fin'), ever=z3.Bool(tag + '.ever'), cn=z3.Bool(tag + '.cn'),
                fi=z3.Bool(tag + '.fi'), fc=z3.Bool(tag + '.fc'))


def K(s):
    """what the handler side keeps true of its own variables between any two of its actions"""
    return z3.And(z3.Implies(s.fin, z3.And(z3.Not(s.cn), s.fc)),             # ended for good: connected is False and the gate is open
                  z3.Implies(s.fc, s.ever), z3.Implies(s.cn, s.ever),          # the gate opens / connected becomes True only in the connect handler
                  z3.Implies(z3.And(s.ever, z3.Not(s.cn)), s.fin),             # connected goes back to False only in __disconnect_final
                  s.blen >= 0, s.alen >= s.blen, s.alen - 1 <= s.nsig, s.nsig <= s.alen, s.nsig >= 0,          # at most the last arrival is not signalled yet
                  z3.Implies(z3.Or(z3.Not(s.fc), s.fin), s.nsig == s.alen))   # handlers run one after another: no hand-off is half done in another handler


def INV(s):
    """arrived = returned ++ input_buffer"""
    i = z3.Int('inv_i')
    return z3.And(s.blen >= 0, s.alen >= s.blen,
                  z3.ForAll([i], z3.Implies(z3.And(i >= 0, i < s.blen), s.barr[i] == s.aarr[s.alen - s.blen + i]), patterns=[s.barr[i]]))


def prefix(len0, arr0, arr1, tag):
    i = z3.Int('pf_' + tag)
    return z3.ForAll([i], z3.Implies(z3.And(i >= 0, i < len0), arr1[i] == arr0[i]), patterns=[arr1[i]])


def ENV(s, t):
    """any number of handler actions (and parts of the catch-all handler) happen between s and t"""
    j = z3.Int('env_j')
    k = t.blen - s.blen
    return z3.And(
        K(t),
        k >= 0, prefix(s.blen, s.barr, t.barr, 'b'),                       # the handler only appends to the buffer ...
        t.alen - s.alen == k, prefix(s.alen, s.aarr, t.aarr, 'a'),         # ... and every append is an arrival
        z3.ForAll([j], z3.Implies(z3.And(j >= s.blen, j < t.blen), t.aarr[j - s.blen + s.alen] == t.barr[j]), patterns=[t.barr[j]]),
        t.nsig >= s.nsig, z3.Implies(k > 0, t.nsig >= s.alen),
        t.fi == z3.Or(s.fi, t.nsig > s.nsig),                              # input_event is raised by a signal and never lowered here
        z3.Implies(s.fin, z3.And(k == 0, t.nsig == s.nsig, t.fc == s.fc, t.cn == s.cn, t.ever == s.ever)),   # nothing happens after the end
        z3.Implies(s.fin, t.fin), z3.Implies(s.ever, t.ever))


def SAME(s, t):
    return z3.And(t.blen == s.blen, t.barr == s.barr, t.alen == s.alen, t.aarr == s.aarr, t.nsig == s.nsig, t.fin == s.fin,
                  t.ever == s.ever, t.cn == s.cn, t.fi == s.fi, t.fc == s.fc)


# the actions, with their ghost instrumentation
def ACT_connect(s, t):
    return z3.And(z3.Not(s.fin), t.cn, t.fc, t.ever, t.blen == s.blen, t.barr == s.barr, t.alen == s.alen, t.aarr == s.aarr,
                  t.nsig == s.nsig, t.fin == s.fin, t.fi == s.fi)


def ACT_disconnect(s, t):
    return z3.And(z3.Not(s.fin), s.nsig == s.alen, z3.Not(t.fc), t.cn == s.cn, t.ever == s.ever, t.blen == s.blen, t.barr == s.barr, t.alen == s.alen,
                  t.aarr == s.aarr, t.nsig == s.nsig, t.fin == s.fin, t.fi == s.fi)


def ACT_final(s, t):
    return z3.And(z3.Not(s.fin), s.ever, s.nsig == s.alen, z3.Not(t.cn), t.fc, t.fin, t.ever == s.ever, t.blen == s.blen, t.barr == s.barr,
                  t.alen == s.alen, t.aarr == s.aarr, t.nsig == s.nsig, t.fi == s.fi)


def ACT_append(s, t, x):
    return z3.And(z3.Not(s.fin), s.fc, s.nsig == s.alen, t.blen == s.blen + 1, t.barr == z3.Store(s.barr, s.blen, x),
                  t.alen == s.alen + 1, t.aarr == z3.Store(s.aarr, s.alen, x), t.nsig == s.nsig, t.fi == s.fi,
                  t.cn == s.cn, t.fc == s.fc, t.fin == s.fin, t.ever == s.ever)


def ACT_signal(s, t):
    return z3.And(z3.Not(s.fin), s.fc, s.nsig == s.alen - 1, t.nsig == s.alen, t.fi, t.blen == s.blen, t.barr == s.barr, t.alen == s.alen, t.aarr == s.aarr,
                  t.cn == s.cn, t.fc == s.fc, t.fin == s.fin, t.ever == s.ever)


def lemmas(seed=0):
    """env.*: the relation the consumer-side proofs rely on really over-approximates the handler side."""
    from .extra_checks import ob
    out = []
    s, t, u = fresh_snap('s'), fresh_snap('t'), fresh_snap('u')
    x = z3.Const('x', V)
    todo = [
        ('env.reflexive', [K(s)], ENV(s, s)),
        ('env.transitive', [K(s), ENV(s, t), ENV(t, u)], ENV(s, u)),
        ('env.contains.connect', [K(s), ACT_connect(s, t)], ENV(s, t)),
        ('env.contains.disconnect', [K(s), ACT_disconnect(s, t)], ENV(s, t)),
        ('env.contains.disconnect-final', [K(s), ACT_final(s, t)], ENV(s, t)),
        ('env.contains.catch-all.append', [K(s), ACT_append(s, t, x)], ENV(s, t)),
        ('env.contains.catch-all.signal', [K(s), ACT_signal(s, t)], ENV(s, t)),
        ('env.preserves.arrived-is-returned-then-buffer', [K(s), INV(s), ENV(s, t)], INV(t)),
        ('env.keeps-returned-count', [K(s), ENV(s, t)], t.nret == s.nret),
        # canaries: the relation is not so weak that it allows what the handler never does
        ('env.canary.may-lower-input-event', [K(s), ENV(s, t), s.fi], z3.Not(t.fi)),
        ('env.canary.may-drop-an-event', [K(s), ENV(s, t)], t.blen < s.blen),
    ]
    for name, hyps, goal in todo:
        t0 = time.time()
        if '.canary.' in name:
            sol = z3.Solver()
            sol.set('timeout', 20000)
            sol.add(*hyps)
            sol.add(z3.Not(goal))
            r = sol.check()
            res = {'status': 'refuted' if r == z3.sat else ('proved' if r == z3.unsat else 'undecided'), 'backend': 'z3'}
        else:
            res = smt.prove(hyps, goal, timeout_ms=20000, seed=seed)
        st = res['status']
        if '.canary.' in name:
            st = {'refuted': 'proved', 'proved': 'refuted'}.get(st, 'undecided')     # a canary must be refutable
            out.append(ob('simple_client.rely/' + name, st, 'canary', t0, backend=res.get('backend', 'z3'), function='simple_client.rely'))
            continue
        out.append(ob('simple_client.rely/' + name, st, 'lemma', t0, backend=res.get('backend', 'z3'), function='simple_client.rely',
                      why=None if st == 'proved' else str(res.get('model', ''))[:2000]))
    return out


# --------------------------------------------------------------------------- the environment at the interleaving points
def apply_env(eng, ctx, tag):
    s = snap(ctx.st)
    ctx.st = ctx.st.havoc(ENV_KEYS, smt.fresh(tag, I).decl().name())
    t = snap(ctx.st)
    ctx.assume(ENV(s, t))
    ctx.assume(z3.Implies(INV(s), INV(t)))        # lemma env.preserves.arrived-is-returned-then-buffer
    return s, t


def install_env(threads):
    def hook(eng, ctx):
        eng.ext.note('C19 rely: between the operations of receive()/emit()/call() the handler side performs any number of its actions (relation ENV; lemmas env.*)')

        def event_env(eng2, c, phase, op, obj):
            if threads and phase == 'pre':
                apply_env(eng2, c, 'env_%s_%s' % (phase, op))
        eng.ext.event_env = event_env

        def read_env(eng2, c, key):
            if threads and key in (BUF, CN):
                apply_env(eng2, c, 'env_read_%s' % key[1])
        eng.ext.read_env = read_env

        def wait_hook(eng2, c, obj, args, kwargs):
            items = args.items() if args.fixed_len() is not None else []
            tmo = items[0] if items else kwargs.get('timeout')
            in_wait_for = getattr(getattr(eng2, 'cur_call_node', None), '_pyvc_in_wait_for', False)    # now: the generator resumes later
            is_conn = z3.is_true(z3.simplify(obj == CONN_EV))
            is_in = z3.is_true(z3.simplify(obj == IN_EV))
            if not (is_conn or is_in):
                raise Unsupported('wait on an event that is neither input_event nor connected_event')
            flag0 = snap(c.st).fc if is_conn else snap(c.st).fi
            branches = [(c, None)]
            if not threads:
                # asyncio: Event.wait() returns at once, without suspending, when the flag is set
                branches = []
                for c2, isset in eng2.branch(c, flag0):
                    branches.append((c2, isset))
            for c2, isset in branches:
                if isset:
                    r = z3.BoolVal(True)
                else:
                    s, t = apply_env(eng2, c2, 'env_wait')
                    r = smt.fresh('woke', B)
                    if is_conn:
                        # returned True: the gate was open at some moment; timed out: it is closed now
                        c2.assume(z3.Implies(r, t.ever))
                        c2.assume(z3.Implies(z3.Not(r), z3.Not(t.fc)))
                        if not threads:
                            c2.assume(z3.Implies(z3.Not(r), SAME(s, t)))      # closed throughout: no handler other than connect/final can have run (K)
                    else:
                        c2.assume(r == t.fi)
                if tmo is None and in_wait_for:
                    c2.notes.append(('untimed-wait', obj, r))       # asyncio.wait_for applies the timeout
                elif tmo is None:
                    c2.assume(r)                  # wait() without a timeout returns only once the flag is set
                elif isinstance(tmo, S) and tmo.sort == 'V':
                    c2.assume(z3.Implies(tmo.t == NONE, r))
                yield c2, S(r)
        eng.ext.wait_hook = wait_hook
    return hook


# --------------------------------------------------------------------------- consumer side
def base_req(c):
    s = snap(c.pre)
    return {'dom.handler-side-invariant': K(s), 'dom.arrived-is-returned-then-buffer': INV(s)}


def extends(s, t):
    return z3.And(t.alen >= s.alen, prefix(s.alen, s.aarr, t.aarr, 'x'))


def receive_contract(world, target, threads):
    def inv(lc):
        e, cur = snap(lc.entry), snap(lc.cur)
        return {'handler-side-invariant': K(cur), 'arrived-is-returned-then-buffer': INV(cur),
                'nothing-returned-yet': cur.nret == e.nret, 'arrivals-only-appended': extends(e, cur)}

    def returned(c):
        s, t = snap(c.pre), snap(c.post)
        return {'the-oldest-unreturned-arrival': c.res_v() == t.aarr[s.nret],
                'exactly-one-more-returned': t.nret == s.nret + 1,
                'arrivals-only-appended': extends(s, t),
                'arrived-is-returned-then-buffer': INV(t), 'handler-side-invariant': K(t)}

    def timed_out(c):
        s, t = snap(c.pre), snap(c.post)
        return {'no-signalled-event-is-unreturned': t.nsig <= t.nret,
                'nothing-returned': t.nret == s.nret, 'a-timeout-was-given': c.a.timeout != NONE,
                'arrived-is-returned-then-buffer': INV(t), 'handler-side-invariant': K(t)}

    def ended(c):
        s, t = snap(c.pre), snap(c.post)
        return {'the-connection-has-ended-for-good': t.fin, 'every-arrival-has-been-returned': t.alen == t.nret,
                'nothing-returned': t.nret == s.nret,
                'arrived-is-returned-then-buffer': INV(t), 'handler-side-invariant': K(t)}
    return Contract(
        target=target, schema=world, self_obj='sc', params={'timeout': 'V'}, requires=base_req, env_hook=install_env(threads),
        cases=[Case('event-returned', post=returned),
               Case('timed-out', kind='raise', exc='sio.TimeoutError', post=timed_out),
               Case('ended', kind='raise', exc='sio.DisconnectedError', post=ended)],
        loops={0: LoopSpec(inv, mod_state=ENV_KEYS + [WAITS])},
        modifies=ENV_KEYS + [WAITS], props=['C19'],
        must_fail=lambda c: {} if c.result is None else {'event-returned:claims-buffer-untouched': snap(c.post).blen == snap(c.pre).blen})


def send_contract(world, target, threads, op, params):
    path = 'client.' + op

    def inv(lc):
        e, cur = snap(lc.entry), snap(lc.cur)
        return {'handler-side-invariant': K(cur), 'arrived-is-returned-then-buffer': INV(cur),
                'nothing-returned': cur.nret == e.nret, 'arrivals-only-appended': extends(e, cur)}

    def apis(c):
        return [n for n in c.ctx.notes if n[0] == 'api']

    def well_addressed(c, n):
        args, kw = n[2], n[3]
        items = args.items() if args.fixed_len() is not None else None
        if n[1] != path or items is None or len(items) != 2 or not isinstance(kw.get('namespace'), S):
            return z3.BoolVal(False)
        conds = [c.v(items[0]) == c.a.event, c.v(items[1]) == c.a.data, kw['namespace'].t == c.pre.get(*NSP).leaf()]
        extra = set(kw) - {'namespace'}
        if op == 'call':
            extra -= {'timeout'}
            conds.append(c.v(kw['timeout']) == c.a.timeout if 'timeout' in kw else z3.BoolVal(False))
        conds.append(z3.BoolVal(not extra))
        return z3.And(*conds)

    def delivered(c):
        a = apis(c)
        d = {'one-%s-on-the-clients-namespace' % op: z3.BoolVal(len(a) == 1) if len(a) != 1 else well_addressed(c, a[0]),
             'its-result-is-returned': z3.BoolVal(len(a) == 1 and a[0][4] is c.result),
             'nothing-consumed': snap(c.post).nret == snap(c.pre).nret}
        return d

    def ended(c):
        t = snap(c.post)
        return {'the-connection-has-ended-for-good': t.fin, 'nothing-consumed': t.nret == snap(c.pre).nret,
                'nothing-sent-after-the-end': z3.BoolVal(not apis(c))}

    def propagated(c):
        a = [n for n in apis(c) if n[5] is not None]
        from pyvc.vals import exc_isa
        return {'raised-by-the-client-operation': z3.BoolVal(len(a) == 1 and a[0][5] is c.exc),
                'not-a-socketio-error': z3.BoolVal(not exc_isa(c.exc.cls, 'sio.SocketIOError')),
                'well-addressed': well_addressed(c, a[0]) if len(a) == 1 else z3.BoolVal(False)}

    def env_hook(eng, ctx):
        install_env(threads)(eng, ctx)
        eng.ext.recorder_raises = {path}
    return Contract(
        target=target, schema=world, self_obj='sc', params=params, requires=base_req, env_hook=env_hook,
        app_raises=['sio.SocketIOError', 'sio.TimeoutError', 'sio.BadNamespaceError', 'AppException'],
        cases=[Case('delivered', post=delivered),
               Case('ended', kind='raise', exc='sio.DisconnectedError', post=ended, group='x'),
               Case('client-failure', kind='raise', exc='Exception', post=propagated, group='x')],
        loops={0: LoopSpec(inv, mod_state=ENV_KEYS + [WAITS])},
        modifies=ENV_KEYS + [WAITS], props=['C19'])


# --------------------------------------------------------------------------- handler side (the closures)
def _decorator_is(node, how, event=None):
    """@self.client.event(namespace=self.namespace)  /  @self.client.on('*', namespace=self.namespace)"""
    if len(node.decorator_list) != 1:
        return False
    d = node.decorator_list[0]
    want = "self.client.event(namespace=self.namespace)" if how == 'event' else "self.client.on('*', namespace=self.namespace)"
    return ast.unparse(d) == want


def closure_contract(world, target, name, act):
    def registered(c):
        node = c.eng.current_node
        how = 'on' if name == 'on_event' else 'event'
        return z3.BoolVal(_decorator_is(node, how) and node.name == name)

    def post(c):
        s, t = snap(c.pre), snap(c.post)
        d = {'registered-for-its-event-on-the-clients-namespace': registered(c)}
        if name == 'connect':
            d.update({'connected-becomes-true': t.cn, 'gate-opens': t.fc})
        elif name == 'disconnect':
            d.update({'gate-closes': z3.Not(t.fc), 'connected-is-left-alone': t.cn == s.cn})
        elif name == '__disconnect_final':
            d.update({'connected-becomes-false': z3.Not(t.cn), 'gate-opens': t.fc})
        d['input-side-untouched'] = z3.And(t.fi == s.fi, t.blen == s.blen, t.barr == s.barr)
        return d

    def post_event(c):
        s, t = snap(c.pre), snap(c.post)
        x = t.barr[s.blen]
        args = c.vals['args']
        n = args.length()
        j = z3.Int('oe_j')
        sets = [nt for nt in c.ctx.notes if nt[0] == 'event-op' and nt[1] == 'set']
        d = {'registered-for-its-event-on-the-clients-namespace': registered(c),
             'one-entry-appended': z3.And(t.blen == s.blen + 1, prefix(s.blen, s.barr, t.barr, 'oe')),
             'entry-is-a-list-of-name-then-arguments': z3.And(
                 smt.kind(x) == smt.K_LIST, smt.vlen(x) == n + 1, smt.vseq(x)[0] == c.a.event,
                 z3.ForAll([j], z3.Implies(z3.And(j >= 0, j < n), smt.vseq(x)[1 + j] == c.eng.seq_at(c.ctx, args, j)), patterns=[smt.vseq(x)[1 + j]])),
             'input-event-raised': t.fi,
             'connection-side-untouched': z3.And(t.cn == s.cn, t.fc == s.fc),
             'appended-before-signalled': z3.And(z3.BoolVal(len(sets) == 1), *[snap(nt[3]).blen == s.blen + 1 for nt in sets])}
        return d

    def env_hook(eng, ctx):
        def event_env(eng2, c, phase, op, obj):
            if phase == 'pre':
                c.notes.append(('event-op', op, obj, c.st))
        eng.ext.event_env = event_env
    params = {'event': 'V', 'args': ('seq', 'tuple')} if name == 'on_event' else {}
    return Contract(
        target=target, schema=world, self_obj='sc', params=params, env_hook=env_hook,
        cases=[Case('action', post=post_event if name == 'on_event' else post)],
        modifies=[BUF, EV] if name == 'on_event' else ([CN, EV] if name != 'disconnect' else [EV]), props=['C19'])


def register(reg):
    for w, m_, c_, threads in ((SIMPLE, 'simple_client', 'SimpleClient', True), (ASYNC_SIMPLE, 'async_simple_client', 'AsyncSimpleClient', False)):
        t = '%s.%s.' % (m_, c_)
        reg.add(receive_contract(w, t + 'receive', threads))
        reg.add(send_contract(w, t + 'emit', threads, 'emit', {'event': 'V', 'data': 'V'}))
        reg.add(send_contract(w, t + 'call', threads, 'call', {'event': 'V', 'data': 'V', 'timeout': 'V'}))
        for name in ('connect', 'disconnect', '__disconnect_final', 'on_event'):
            reg.add(closure_contract(w, t + 'connect>' + name, name, None))
