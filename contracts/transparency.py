"""C02 - end-to-end payload transparency as a composition over the per-function contracts.

The per-function contracts (tagged C02) pin down, against the real code,
  sender:    emit()            queues ONE packet  (type, namespace, id, D)  with D = [event] ++ pack(data)          (emit.SHAPES)
             _send_packet      hands the frames of that packet to engine.io contiguously and in order
  receiver:  _handle_eio_message  gives the decoded (namespace, id, D) of every frame to _handle_event / _handle_ack
             _handle_event     dispatches (event = D[0], namespace, args = [sid] ++ D[1:]) once and acknowledges with
                               a packet whose payload A satisfies ack_payload(ret, A), same namespace and id
             _handle_ack / trigger_callback   invoke the registered callback with the elements of A
             call()            returns shaped(A)
The lemmas below connect those clause builders - the very Python functions the contracts are made of - to the oracle
written from the statement:  args(x) = elements of x if x is a tuple, nothing if x is None, [x] otherwise.

Assumed between the two sides (not proved here): the packet that is decoded is the packet that was encoded (C01: tree
part proved, header part not; msgpack: library round trip) and engine.io delivers frames of one connection in order.
"""
import time
import z3
from pyvc import smt
from pyvc.smt import V, I, NONE
from pyvc.model import State
from pyvc.vals import S, PySeq, Fixed, View


def args_spec(x):
    """the oracle: (count, element j) of the arguments that value x stands for"""
    n = z3.If(x == NONE, 0, z3.If(smt.kind(x) == smt.K_TUPLE, smt.vlen(x), 1))
    el = lambda j: z3.If(smt.kind(x) == smt.K_TUPLE, smt.vseq(x)[j], x)
    return n, el


def _engine(schema):
    from pyvc.run import registry
    from pyvc.engine import Engine, Ctx, Frame
    from .ext import make_externals
    reg = registry()
    eng = Engine(schema, reg, make_externals(schema))
    ctx = Ctx()
    ctx.st = State.fresh(schema, 'pre')
    fid = ctx.new_id()
    ctx.frames[fid] = Frame({}, None, None, None, 'lemma', None)
    ctx.fid = fid
    return eng, ctx


def lemmas(seed=0):
    from .extra_checks import ob
    from . import worlds
    from .emit import SHAPES
    from .server_events import ack_payload, wellformed_event
    out = []
    fn = '(composition lemma over the C02 contracts)'

    def emit_lemma(name, goal_of, hyps_of=None, expect='proved'):
        t0 = time.time()
        eng, ctx = _engine(worlds.CLIENT)
        hyps, goal = goal_of(eng, ctx)
        if expect == 'refuted':
            sol = z3.Solver()
            sol.set('timeout', 15000)
            sol.add(*[h for h in list(ctx.pc) + hyps])
            sol.add(z3.Not(goal))
            ck = sol.check()
            r = {'backend': 'z3'}
            st = 'proved' if ck == z3.sat else ('refuted' if ck == z3.unsat else 'undecided')
        else:
            r = smt.prove(list(ctx.pc) + hyps, goal, timeout_ms=15000, seed=seed)
            st = r['status']
        out.append(ob('lemma/transparency.' + name, st, 'lemma' if expect == 'proved' else 'canary', t0, backend=r.get('backend', 'z3'), function=fn,
                      why=None if st == 'proved' else str(r.get('model', ''))[:1500]))

    ev, d, sid, ret = z3.Consts('tl_event tl_data tl_sid tl_ret', V)
    j = z3.Int('tl_j')

    # T0: the three packing cases of emit cover every payload
    emit_lemma('emit.packing-cases-cover-every-payload', lambda eng, ctx: ([], z3.Or(*[cond(d) for cond, _ in SHAPES.values()])))

    # T1: what emit queues is  [event] ++ args(data)  and is a well-formed EVENT payload for the receiver
    for shape, (cond, build) in SHAPES.items():
        def g(eng, ctx, cond=cond, build=build):
            D = eng.to_v(ctx, build(ev, d))
            n, el = args_spec(d)
            return [cond(d)], z3.And(wellformed_event(D), smt.vlen(D) == 1 + n, smt.vseq(D)[0] == ev,
                                     z3.ForAll([j], z3.Implies(z3.And(j >= 0, j < n), smt.vseq(D)[1 + j] == el(j))))
        emit_lemma('emit.%s.queues-event-then-arguments' % shape, g)

    # T2: the arguments the receiving side dispatches for such a payload are  prefix ++ args(data)
    for side, prefix in (('server', [sid]), ('client', [])):
        for shape, (cond, build) in SHAPES.items():
            def g(eng, ctx, cond=cond, build=build, prefix=prefix):
                D = eng.to_v(ctx, build(ev, d))
                recv = PySeq(([Fixed([S(p) for p in prefix])] if prefix else []) + [View(smt.vseq(D), z3.IntVal(1), smt.vlen(D))], 'tuple')   # dispatched_once / client_event_effect
                n, el = args_spec(d)
                k = len(prefix)
                return [cond(d)], z3.And(recv.length() == k + n, *[eng.seq_at(ctx, recv, z3.IntVal(i)) == p for i, p in enumerate(prefix)],
                                         z3.ForAll([j], z3.Implies(z3.And(j >= 0, j < n), eng.seq_at(ctx, recv, k + j) == el(j))))
            emit_lemma('%s-handler.%s.receives-the-arguments-sent' % (side, shape), g)

    # T3: the acknowledgement payload built from a handler's return value carries args(ret); the callback gets exactly those
    def g3(eng, ctx):
        A_ = z3.Const('tl_ack', V)
        got = PySeq([View(smt.vseq(A_), z3.IntVal(0), smt.vlen(A_))], 'tuple')        # handle_ack_contract / trigger_callback
        n, el = args_spec(ret)
        return [ack_payload(ret, A_)], z3.And(got.length() == n, z3.ForAll([j], z3.Implies(z3.And(j >= 0, j < n), eng.seq_at(ctx, got, j) == el(j))))
    emit_lemma('callback.receives-the-handlers-return-value-as-arguments', g3)

    # T4: call() on the acknowledged arguments of ret: None for none, the value itself for one, the tuple for several
    def g4(eng, ctx):
        A_ = z3.Const('tl_ack', V)
        n, el = args_spec(ret)
        res = z3.Const('tl_res', V)
        shaped = z3.And(z3.Implies(smt.vlen(A_) == 0, res == NONE), z3.Implies(smt.vlen(A_) == 1, res == smt.vseq(A_)[0]))     # calls.shaped, scalar results
        return [ack_payload(ret, A_), shaped, smt.vlen(A_) <= 1], z3.And(z3.Implies(n == 0, res == NONE), z3.Implies(z3.And(n == 1, smt.kind(ret) != smt.K_TUPLE), res == ret),
                                                                          z3.Implies(z3.And(n == 1, smt.kind(ret) == smt.K_TUPLE), res == smt.vseq(ret)[0]))
    emit_lemma('call.returns-none-or-the-single-value', g4)

    # canary: the lemmas are not vacuous - a receiver that dropped the first argument would be told apart
    def gc(eng, ctx):
        cond, build = SHAPES['single-payload']
        D = eng.to_v(ctx, build(ev, d))
        return [cond(d)], smt.vseq(D)[1] != d
    emit_lemma('canary.single-payload-could-be-lost', gc, expect='refuted')
    return out


C02_ALSO = ['server.Server._handle_eio_message', 'async_server.AsyncServer._handle_eio_message',
            'client.Client._handle_eio_message', 'async_client.AsyncClient._handle_eio_message',
            'server.Server._handle_event', 'async_server.AsyncServer._handle_event',
            'server.Server._handle_ack', 'async_server.AsyncServer._handle_ack',
            'manager.Manager.trigger_callback', 'async_manager.AsyncManager.trigger_callback',
            'client.Client._handle_ack', 'async_client.AsyncClient._handle_ack',
            'server.Server._send_packet', 'async_server.AsyncServer._send_packet']


# C05 / C09 say "the responsible handler is invoked": which handler that is, and with which arguments, is C13's resolution
ALSO = {
    'C02': C02_ALSO,
    'C05': ['base_server.BaseServer._get_event_handler', 'base_server.BaseServer._get_namespace_handler',
            'server.Server._trigger_event', 'async_server.AsyncServer._trigger_event'],
    'C09': ['base_client.BaseClient._get_event_handler', 'base_client.BaseClient._get_namespace_handler',
            'client.Client._trigger_event', 'async_client.AsyncClient._trigger_event'],
    # functions the property's own anchors name, whose contract was written for another property
    'C07': ['pubsub_manager.PubSubManager._thread', 'async_pubsub_manager.AsyncPubSubManager._thread'],
    'C08': ['client.Client._handle_reconnect', 'async_client.AsyncClient._handle_reconnect'],
    'C11': ['server.Server._handle_eio_message', 'async_server.AsyncServer._handle_eio_message', 'base_manager.BaseManager.connect'],
    'C12': ['base_manager.BaseManager.is_connected', 'base_manager.BaseManager.eio_sid_from_sid',
            # the half-received packets of the OTHER transports survive one transport's end (per-transport binary buffer)
            'server.Server._handle_eio_disconnect', 'async_server.AsyncServer._handle_eio_disconnect'],
    'C20': ['base_manager.BaseManager.basic_disconnect', 'base_manager.BaseManager.can_disconnect'],
    # "an acknowledgement addressed to another server never completes a local callback" (C15) is _return_callback's clause
    'C15': ['pubsub_manager.PubSubManager._return_callback', 'async_pubsub_manager.AsyncPubSubManager._return_callback'],
}


def tag(reg):
    """the contracts a property composes, beyond those that already carry its tag"""
    for prop, targets in ALSO.items():
        for t in targets:
            k = reg.by_target.get(t)
            if k is not None and prop not in k.props:
                k.props.append(prop)
