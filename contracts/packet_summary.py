"""What the server, client and managers know about Packet objects: the summaries of the Packet methods they call.
The same contracts are proved against the real method bodies in the codec world (contracts/packet_codec.py, C01/C12);
here they are used at call sites only."""
import z3
from pyvc import smt
from pyvc.smt import V, B, I, NONE
from pyvc.contract import Contract, Case
from pyvc.dsl import fget, fset, fv
from pyvc.vals import S, PySeq, Fixed, View
from pyvc.model import Schema

has_binary = z3.Function('has_binary', V, B)          # the payload tree contains a bytes leaf (nb(data) > 0)
dec_type = z3.Function('dec_type', V, V)
dec_ns = z3.Function('dec_ns', V, V)
dec_id = z3.Function('dec_id', V, V)
dec_data = z3.Function('dec_data', V, V)
dec_count = z3.Function('dec_count', V, I)
reconstructed = z3.Function('reconstructed', V, V, V)   # payload with the placeholders replaced by the attachments

PKT_WORLD = Schema('packet-summary')


def packet_param(eng, ctx, name):
    """a Packet object with arbitrary field values"""
    arr = z3.Const('p_%s_att' % name, z3.ArraySort(I, V))
    n = z3.Const('p_%s_natt' % name, I)
    cnt = z3.Const('p_%s_count' % name, I)
    ctx.assume(n >= 0, cnt >= 0)
    return ctx.alloc('rec', {
        'packet_type': S(z3.Const('p_%s_type' % name, V)), 'data': S(z3.Const('p_%s_data' % name, V)),
        'namespace': S(z3.Const('p_%s_ns' % name, V)), 'id': S(z3.Const('p_%s_id' % name, V)),
        'attachment_count': S(cnt), 'attachments': ctx.alloc('list', PySeq([View(arr, z3.IntVal(0), n)], 'list')),
    }, cls='socketio.packet.Packet')


def pkt_fields(c, pkt):
    return {'ptype': fv(c, pkt, 'packet_type'), 'ns': fv(c, pkt, 'namespace'), 'id': fv(c, pkt, 'id'), 'data': fv(c, pkt, 'data')}


def nb_facts(d):
    """facts about the spec function: scalars have no bytes leaves, a bytes value is one"""
    scalar = z3.Or(*[smt.kind(d) == k for k in (smt.K_NONE, smt.K_BOOL, smt.K_INT, smt.K_FLOAT, smt.K_STR)])
    return z3.And(z3.Implies(scalar, z3.Not(has_binary(d))), z3.Implies(smt.kind(d) == smt.K_BYTES, has_binary(d)))


def _nb_box_hook(eng, ctx, v, what, content):
    """nb (has_binary) of a container built by the code under verification is the disjunction over its items"""
    if what == 'dict':
        items = [eng.to_v(ctx, it) for it in content.values()]
        for it in items:
            ctx.assume(nb_facts(it))
        ctx.assume(has_binary(v) == (z3.Or(*[has_binary(it) for it in items]) if items else z3.BoolVal(False)))
    else:
        fl = content.fixed_len()
        if fl is not None:
            items = [eng.to_v(ctx, it) for it in content.items()]
            for it in items:
                ctx.assume(nb_facts(it))
            ctx.assume(has_binary(v) == (z3.Or(*[has_binary(it) for it in items]) if items else z3.BoolVal(False)))
        else:
            p = z3.Int('nb_p')
            n = content.length()
            ctx.assume(has_binary(v) == z3.Exists([p], z3.And(p >= 0, p < n, has_binary(eng.seq_at(ctx, content, p)))))


from pyvc import engine as _engine
if _nb_box_hook not in _engine.BOX_HOOKS:
    _engine.BOX_HOOKS.append(_nb_box_hook)


def data_is_binary_summary():
    def res(c):
        c.ctx.assume(nb_facts(c.a.data))
        return S(has_binary(c.a.data))
    return Contract(target='packet.Packet._data_is_binary', schema=PKT_WORLD, self_obj=None, params={'data': 'V'},
                    cases=[Case('nb>0', result=res)], trusted=True,
                    note='proved against the real body in the codec world (C01)')


def decode_summary():
    def upd(c):
        ep, me = c.a.encoded_packet, c.vals['self']
        fset(c, me, 'packet_type', dec_type(ep))
        fset(c, me, 'namespace', dec_ns(ep))
        fset(c, me, 'id', dec_id(ep))
        fset(c, me, 'data', dec_data(ep))
        c.ctx.assume(dec_count(ep) >= 0)
        # decoded values are JSON / msgpack values, never the private sentinel objects of the library
        for f in (dec_type, dec_ns, dec_id, dec_data):
            c.ctx.assume(smt.kind(f(ep)) != smt.K_OTHER)
    return Contract(target='packet.Packet.decode', schema=PKT_WORLD, self_obj=None, params={'encoded_packet': 'V'},
                    cases=[Case('decoded', update=upd, result=lambda c: S(dec_count(c.a.encoded_packet))),
                           Case('rejected', kind='raise', exc='ValueError', update=lambda c: None),
                           Case('undecodable', kind='raise', exc='AppException', update=lambda c: None)],
                    trusted=True, note='decode either raises or sets the four fields to functions of the frame; proved in the codec world (C12)')


def encode_summary():
    def res(c):
        enc = smt.fresh('encoded', V)
        me = c.vals['self']
        c.ctx.notes.append(('encoded', enc, pkt_fields(c, me)))
        c.ctx.assume(enc != NONE)
        return S(enc)
    return Contract(target='packet.Packet.encode', schema=PKT_WORLD, self_obj=None, params={},
                    cases=[Case('encoded', result=res, update=lambda c: None)], trusted=True,
                    note='encode() returns the text frame, or the list [text frame, *attachments]; proved in the codec world (C01)')


def add_attachment_summary():
    def n_att(c):
        return c.eng.as_seq(c.ctx, fget(c, c.vals['self'], 'attachments')).length()

    def count(c):
        return c.eng.to_i(c.ctx, fget(c, c.vals['self'], 'attachment_count'))

    def append(c):
        me = c.vals['self']
        seq = c.eng.as_seq(c.ctx, fget(c, me, 'attachments'))
        new = PySeq(seq.segs + [Fixed([c.vals['attachment']])], 'list')
        from pyvc.engine import HRef
        fset(c, me, 'attachments', c.ctx.alloc('list', new) if isinstance(me, HRef) else new)
        return new

    def complete(c):
        me = c.vals['self']
        new = append(c)
        fset(c, me, 'data', reconstructed(fv(c, me, 'data'), c.eng.to_v(c.ctx, new)))
    return Contract(
        target='packet.Packet.add_attachment', schema=PKT_WORLD, self_obj=None, params={'attachment': 'V'},
        cases=[Case('unexpected', when=lambda c: count(c) <= n_att(c), kind='raise', exc='ValueError', update=lambda c: None),
               Case('more-to-come', when=lambda c: count(c) > n_att(c) + 1, update=lambda c: append(c) and None, result=lambda c: S(z3.BoolVal(False))),
               Case('complete', when=lambda c: count(c) == n_att(c) + 1, update=complete, result=lambda c: S(z3.BoolVal(True)))],
        trusted=True, note='proved against the real body in the codec world (C01)')


def register(reg):
    for k in (data_is_binary_summary(), decode_summary(), encode_summary(), add_attachment_summary()):
        reg.add(k)
