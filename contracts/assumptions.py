"""Assumptions every evidence file repeats (DESIGN.md section 6)."""
GENERAL = [
    'A1 Python integers are mathematical integers; floats are treated as reals',
    'A2 no monkey-patching of the classes in scope (attribute lookup is static)',
    'A3 == / hash on opaque values (sids, namespaces, rooms, ids, handlers) is an equivalence that dict lookup respects; no user __eq__/__bool__ overloading',
    'A5 dict insertion order is not relied upon',
    'A6 termination is not verified',
    'the encoding of Python semantics in /verif/pyvc (engine.py, externals.py, loops.py) is trusted; it is cross-checked by canaries and reachability checks on every run',
]
PER_PROPERTY = {
    'C13': ['A4 registered handlers are truthy callables (never None)',
            "the marker '*' itself is outside the domain as an event or namespace name",
            "the client's internal pseudo-event '__disconnect_final' is outside the domain"],
}
