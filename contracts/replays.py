"""Native replays: obligations whose refutation comes with an input that can be run against the real code."""
import json
import os
import subprocess

VERIF = os.path.dirname(os.path.dirname(os.path.abspath(__file__)))


def run_codec():
    env = dict(os.environ)
    env.setdefault('VERIF_REPO_ROOT', '/repo')
    p = subprocess.run(['/venv/bin/python', os.path.join(VERIF, 'bounded', 'codec.py')], capture_output=True, text=True, env=env, timeout=600)
    if p.returncode != 0:
        raise RuntimeError('bounded/codec.py failed: %s' % p.stderr[-2000:])
    return json.loads(p.stdout)


def _codec_replay(o, root):
    name = o['name'].split('/', 1)[1]
    res = run_codec()
    f = res['checks'].get(name, {}).get('failures', [])
    return {'cmd': 'VERIF_REPO_ROOT=%s /venv/bin/python /verif/bounded/codec.py' % os.environ.get('VERIF_REPO_ROOT', '/repo'),
            'output': f, 'confirmed': bool(f)}


ROUTING_FUNCS = ('._get_event_handler/', '._get_namespace_handler/', 'Server._trigger_event/', 'Client._trigger_event/')


def _routing_replay(o, root):
    """counter-example search for a failed handler-resolution obligation: the real classes against the precedence of the
    property statement, over a small exhaustive space of registries (bounded/routing.py)"""
    env = dict(os.environ)
    env.setdefault('VERIF_REPO_ROOT', '/repo')
    p = subprocess.run(['/venv/bin/python', os.path.join(VERIF, 'bounded', 'routing.py')], capture_output=True, text=True, env=env, timeout=600)
    if p.returncode != 0:
        raise RuntimeError('bounded/routing.py failed: %s' % p.stderr[-1500:])
    res = json.loads(p.stdout)
    fn = o['name'].split('/')[0]
    cls = fn.split('.')[1] if fn.count('.') >= 2 else ''
    want = {'BaseServer': ('Server', 'AsyncServer'), 'BaseClient': ('Client', 'AsyncClient')}.get(cls, (cls,))
    f = [x for x in res['failures'] if x['class'] in want] or res['failures']
    return {'cmd': 'VERIF_REPO_ROOT=%s /venv/bin/python /verif/bounded/routing.py' % env['VERIF_REPO_ROOT'],
            'output': {'cases_tried': res['checked'], 'failing_inputs': f[:3]}, 'confirmed': bool(f)}


ACK_FUNCS = ('._handle_event_internal/', 'Client._handle_event/', 'Server.call/', 'Client.call/')


def _ack_replay(o, root):
    """counter-example search for a failed acknowledgement obligation: handler return values / acknowledged payloads against the
    packing rule of the statement, on the real classes (bounded/acks.py)"""
    env = dict(os.environ)
    env.setdefault('VERIF_REPO_ROOT', '/repo')
    p = subprocess.run(['/venv/bin/python', os.path.join(VERIF, 'bounded', 'acks.py')], capture_output=True, text=True, env=env, timeout=600)
    if p.returncode != 0:
        raise RuntimeError('bounded/acks.py failed: %s' % p.stderr[-1500:])
    res = json.loads(p.stdout)
    fn = o['name'].split('/')[0]
    is_call = fn.endswith('.call')
    is_async = 'Async' in fn
    is_client = 'lient' in fn
    def mine(x):
        c = x['cls']
        return (c.endswith('.call') == is_call) and (('Client' in c) == is_client) and (is_call or (c.startswith('Async') == is_async))
    f = [x for x in res['failures'] if mine(x)]
    return {'cmd': 'VERIF_REPO_ROOT=%s /venv/bin/python /verif/bounded/acks.py' % env['VERIF_REPO_ROOT'],
            'output': {'cases_tried': res['checked'], 'failing_inputs': f[:3]}, 'confirmed': bool(f)}


def find(name):
    if any(k in name for k in ACK_FUNCS):
        return _ack_replay
    if any(k in name for k in ROUTING_FUNCS) and not name.startswith(('admin.', 'async_admin.')):
        return _routing_replay
    if name.startswith('bounded/codec.') or name.startswith('bounded/msgpack.'):
        return _codec_replay
    return None
