"""Native replays: obligations whose refutation comes with an input that can be run against the real code."""
import json
import os
import subprocess

VERIF = os.path.dirname(os.path.dirname(os.path.abspath(__file__)))


def run_codec():
    env = dict(os.environ)
    env.setdefault('VERIF_REPO_ROOT', '/repo')
    p = subprocess.run(['/venv/bin/python', os.path.join(VERIF, 'bounded', 'codec.py')], capture_output=True, text=True, env=env, timeout=600)
    if p.returncode != 0:
        raise RuntimeError('bounded/codec.py failed: %s' % p.stderr[-2000:])
    return json.loads(p.stdout)


def _codec_replay(o, root):
    name = o['name'].split('/', 1)[1]
    res = run_codec()
    f = res['checks'].get(name, {}).get('failures', [])
    return {'cmd': 'VERIF_REPO_ROOT=%s /venv/bin/python /verif/bounded/codec.py' % os.environ.get('VERIF_REPO_ROOT', '/repo'),
            'output': f, 'confirmed': bool(f)}


def find(name):
    if name.startswith('bounded/codec.') or name.startswith('bounded/msgpack.'):
        return _codec_replay
    return None
