"""call() on server and client (C06, C09, C02): emit with a private callback, wait, shape the result."""
import z3
from pyvc import smt
from pyvc.smt import V, B, I, NONE, atom
from pyvc.contract import Contract, Case, delegated
from pyvc.vals import S, PySeq, Fixed, View, Raised, Exc
from . import worlds
from .server_events import eff_ns

EVENTS = ('g', 'events')
WAITS = ('g', 'waits')


def install_wait_hook(eng, ctx):
    """Event.wait(timeout) inside call(): either nothing acknowledges in time (returns False), or the environment (the
    thread that receives the ACK) invokes the callback that call() registered, exactly once, with the acknowledged
    arguments, which sets the event (returns True)."""
    def hook(eng2, c, obj, args, kwargs):
        eng2.ext.note('call(): while waiting, the only thing that sets the private event is the private callback, invoked with the acknowledged arguments')
        c_to = c.fork()
        yield c_to, S(z3.BoolVal(False))
        cb = c.lookup('event_callback')
        if cb is None:
            from pyvc.vals import Unsupported
            raise Unsupported('call(): the private callback is not called event_callback any more')
        arr = smt.fresh('ack_args', z3.ArraySort(I, V))
        n = smt.fresh('ack_n', I)
        c.assume(n >= 0)
        acked = PySeq([View(arr, z3.IntVal(0), n)], 'tuple')
        c.notes.append(('acked', acked))
        for c2, r in eng2.call(c, cb, acked, {}):
            if isinstance(r, Raised):
                yield c2, r
            else:
                yield c2, S(z3.BoolVal(True))
    eng.ext.wait_hook = hook


def shaped(c):
    """the value call() must return for the acknowledged arguments: None, the single value, or the tuple of values"""
    notes = [n for n in c.ctx.notes if n[0] == 'acked']
    if len(notes) != 1:
        return {'acknowledged-once': z3.BoolVal(False)}
    acked = notes[0][1]
    n = acked.length()
    res = c.result
    d = {'acknowledged-once': z3.BoolVal(True)}
    rv = c.res_v() if not isinstance(res, PySeq) else None
    first = c.eng.seq_at(c.ctx, acked, z3.IntVal(0))
    if isinstance(res, PySeq):
        d['several-values-as-a-tuple'] = z3.And(n > 1, c.eng.seq_eq(c.ctx, res, acked))
    else:
        d['none-or-the-single-value'] = z3.And(n <= 1, z3.Implies(n == 0, rv == NONE), z3.Implies(n == 1, rv == first))
    return d


def server_call_contract(world, target, emit_suffix):
    from .lifecycle import base_req
    from .views import COUNTER

    def ok(c):
        return z3.And(z3.Or(c.a.to != NONE, c.a.sid != NONE), c.pre.get('server', 'async_handlers').leaf())

    def emitted(c, kind='return'):
        room = z3.If(smt.truthy(c.a.to), c.a.to, c.a.sid)
        return delegated(c, emit_suffix, dict(event=c.a.event, data=c.a.data, namespace=eff_ns(c.a.namespace), room=room, skip_sid=NONE),
                         kind, changed_after=[EVENTS, WAITS])

    def returned(c):
        d = emitted(c)
        d.update(shaped(c))
        return d
    return Contract(
        target=target, schema=world, self_obj='server',
        params={'event': 'V', 'data': 'V', 'to': 'V', 'sid': 'V', 'namespace': 'V', 'timeout': 'R', 'ignore_queue': 'V'},
        requires=lambda c: dict(base_req(c), **{'dom.room': z3.BoolVal(True)}),
        env_hook=install_wait_hook,
        cases=[Case('broadcast-refused', when=lambda c: z3.And(c.a.to == NONE, c.a.sid == NONE), kind='raise', exc='ValueError', update=lambda c: None),
               Case('needs-async-handlers', when=lambda c: z3.And(z3.Or(c.a.to != NONE, c.a.sid != NONE), z3.Not(c.pre.get('server', 'async_handlers').leaf())),
                    kind='raise', exc='RuntimeError', update=lambda c: None),
               Case('acknowledged', when=ok, post=returned, group='r'),
               Case('timed-out', when=ok, kind='raise', exc='sio.TimeoutError', post=lambda c: emitted(c), group='x')],
        modifies=[('g', 'out'), ('g', 'raw'), ('manager', 'callbacks'), ('manager', 'ack_next'), EVENTS, WAITS], props=['C06', 'C02'],
        must_fail=lambda c: {} if c.result is None else {'acknowledged:claims-always-none': c.res_v() == NONE if not isinstance(c.result, PySeq) else z3.BoolVal(False)})


def client_call_contract(world, target, emit_suffix):
    from .client_lifecycle import base_req

    def emitted(c, kind='return'):
        return delegated(c, emit_suffix, dict(event=c.a.event, data=c.a.data, namespace=c.a.namespace), kind, changed_after=[EVENTS, WAITS])

    def returned(c):
        d = emitted(c)
        d.update(shaped(c))
        return d
    return Contract(
        target=target, schema=world, self_obj='client', params={'event': 'V', 'data': 'V', 'namespace': 'V', 'timeout': 'R'},
        requires=lambda c: dict(base_req(c), **{'namespace-is-a-string': z3.Or(c.a.namespace == NONE, smt.kind(c.a.namespace) == smt.K_STR)}),
        env_hook=install_wait_hook,
        cases=[Case('acknowledged', post=returned, group='r'),
               Case('timed-out', kind='raise', exc='sio.TimeoutError', post=lambda c: emitted(c), group='x'),
               Case('namespace-not-connected', kind='raise', exc='sio.BadNamespaceError', post=lambda c: emitted(c, 'raise'), group='x')],
        modifies=[('g', 'out'), ('g', 'raw'), ('client', 'callbacks'), ('client', 'ack_next'), EVENTS, WAITS], props=['C09', 'C02'],
        must_fail=lambda c: {} if c.result is None else {'acknowledged:claims-always-none': c.res_v() == NONE if not isinstance(c.result, PySeq) else z3.BoolVal(False)})


def register(reg):
    reg.add(server_call_contract(worlds.SERVER, 'server.Server.call', 'Manager.emit'))
    reg.add(server_call_contract(worlds.ASYNC_SERVER, 'async_server.AsyncServer.call', 'AsyncManager.emit'))
    reg.add(client_call_contract(worlds.CLIENT, 'client.Client.call', 'Client.emit'))
    reg.add(client_call_contract(worlds.ASYNC_CLIENT, 'async_client.AsyncClient.call', 'AsyncClient.emit'))
