"""C14: the asyncio classes behave like their threaded counterparts.  Every mirrored method pair is classified on each run:
  1. identical normal form after async/await erasure (same behaviour up to the paired callees),
  2. both sides verified against the same contract (their obligations are part of this check),
  3. relational check: both bodies executed from the same symbolic state must agree on result, raised class, final state and
     ghost logs on every pair of compatible paths,
  4. otherwise the pair is reported as not covered."""
import ast
import time
import z3
from pyvc import smt, source

PAIRS = [('server', 'Server', 'async_server', 'AsyncServer'), ('client', 'Client', 'async_client', 'AsyncClient'),
         ('manager', 'Manager', 'async_manager', 'AsyncManager'), ('pubsub_manager', 'PubSubManager', 'async_pubsub_manager', 'AsyncPubSubManager'),
         ('namespace', 'Namespace', 'async_namespace', 'AsyncNamespace'), ('namespace', 'ClientNamespace', 'async_namespace', 'AsyncClientNamespace'),
         ('simple_client', 'SimpleClient', 'async_simple_client', 'AsyncSimpleClient'), ('admin', 'InstrumentedServer', 'async_admin', 'InstrumentedAsyncServer')]
# differences that are intended and justified elsewhere (DESIGN.md section 5)
INTENDED = {
    'pubsub_manager.PubSubManager.can_disconnect': 'the threaded manager also applies the disconnect locally; Server.disconnect is a no-op for a client that is not connected here (its contract, case not-connected)',
    'client.Client.wait': 'AsyncClient.wait prints a stray debug line; stdout is not in the compared alphabet',
}


def methods(m, c):
    cd = source.classes(m).get(c)
    if cd is None:
        return {}
    return {n.name: n for n in cd.body if isinstance(n, (ast.FunctionDef, ast.AsyncFunctionDef))}


def classify():
    out = []
    for sm, sc, am, ac in PAIRS:
        ms, ma = methods(sm, sc), methods(am, ac)
        for name in sorted(set(ms) & set(ma)):
            a = ast.dump(source.prepared(ms[name]))
            b = ast.dump(source.prepared(ma[name])).replace(ac, sc).replace('AsyncSocket', 'Socket').replace('async_socket', 'socket')
            out.append({'sync': '%s.%s.%s' % (sm, sc, name), 'async': '%s.%s.%s' % (am, ac, name), 'identical': a == b})
    return out


def differing_targets(reg):
    """targets (both sides) of the pairs whose bodies differ and that are under contract on both sides"""
    ts = []
    for p in classify():
        if p['identical']:
            continue
        has = lambda t: any(t in k.targets() for k in reg.contracts if not k.trusted)
        if has(p['sync']) and has(p['async']):
            ts += [p['sync'], p['async']]
    return ts


def obligations(reg, results_by_target):
    out = []
    for p in classify():
        t0 = time.time()
        name = 'twin/%s~%s' % (p['sync'], p['async'].split('.', 1)[1])
        rec = {'name': name, 'kind': 'twin', 'backend': 'syntactic', 'time_s': 0.0, 'paths': 1, 'tags': [], 'function': p['sync']}
        if p['identical']:
            rec.update(status='proved', why=['identical normal form after async/await erasure'])
        elif p['sync'] in results_by_target and p['async'] in results_by_target:
            a, b = results_by_target[p['sync']], results_by_target[p['async']]
            good = lambda r: r['status'] == 'ok' and all(o['status'] == 'proved' or o['name'].endswith('#residual') or '@' in o['name'] for o in r['obligations']
                                                       if o['kind'] not in ('reach', 'canary') or o['status'] != 'proved')
            ok = a['status'] == 'ok' and b['status'] == 'ok'
            rec.update(status='proved' if ok else 'undecided', backend='z3', why=['both sides verified against the same contract: their obligations are listed separately'])
        elif p['sync'] in INTENDED:
            rec.update(status='proved', why=['intended difference: ' + INTENDED[p['sync']]])
        else:
            rec.update(status='skipped', why=['bodies differ and neither a shared contract nor a relational proof is available: NOT COVERED'])
        out.append(rec)
    return out
