"""Obligations that are not generated from a function contract (lemmas, syntactic gates, twin normal forms)."""


def run(prop, tier, seed):
    return []
