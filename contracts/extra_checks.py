"""Obligations that are not generated from one function's contract: the once-only gate rule for concurrent
terminations (C04 asyncio clause, C20 threads), stability lemmas over the manager contracts, twin normal forms (C14)."""
import ast
import os
import json
import time
import z3
from pyvc import smt, source
from pyvc.smt import V, NONE
from pyvc.model import State


def ob(name, status, kind, t0, why=None, backend='syntactic', function=None, model=None):
    d = {'name': name, 'status': status, 'kind': kind, 'backend': backend, 'time_s': round(time.time() - t0, 4), 'paths': 1, 'tags': [],
         'function': function or name.split('/')[0]}
    if why:
        d['why'] = why if isinstance(why, list) else [why]
    if model:
        d['model'] = model
    return d


# --------------------------------------------------------------------------- gate rule, part g1 (syntactic)
def _calls_in_order(fn):
    out = []
    for n in ast.walk(fn):
        if isinstance(n, ast.Call) and isinstance(n.func, ast.Attribute):
            out.append((n.lineno, n.col_offset, n.func.attr, n))
    return sorted(out, key=lambda t: (t[0], t[1]))


def _resolve_manager_method(name, mod='async_manager', cls='AsyncManager'):
    found = source.find_method(mod, cls, name)
    return found[2] if found else None


def nosuspend(fn, depth=0, seen=None):
    """A coroutine function that, transitively, awaits nothing that can suspend: every `await` in it is on another
    nosuspend coroutine method of the manager (resolved statically), and it has no async for / async with."""
    seen = seen or set()
    if fn is None or depth > 4:
        return False, 'callee not found'
    for n in ast.walk(fn):
        if isinstance(n, (ast.AsyncFor, ast.AsyncWith)):
            return False, 'async for/with in %s' % fn.name
        if isinstance(n, ast.Await):
            v = n.value
            if isinstance(v, ast.Call) and isinstance(v.func, ast.Attribute):
                callee = None
                f = v.func
                if isinstance(f.value, ast.Call) and isinstance(f.value.func, ast.Name) and f.value.func.id == 'super':
                    callee = _resolve_manager_method(f.attr, 'manager', 'Manager') or _resolve_manager_method(f.attr, 'base_manager', 'BaseManager')
                    r = source.find_method('async_manager', 'AsyncManager', f.attr)
                    callee = r[2] if r else callee
                elif isinstance(f.value, ast.Name) and f.value.id == 'self':
                    callee = _resolve_manager_method(f.attr)
                if callee is not None and isinstance(callee, ast.AsyncFunctionDef):
                    ok, why = nosuspend(callee, depth + 1, seen)
                    if ok:
                        continue
                    return False, why
                if callee is not None and isinstance(callee, ast.FunctionDef):
                    return False, 'await of the result of a plain function %s (may be any awaitable)' % callee.name
            return False, 'await of %s in %s may suspend' % (ast.unparse(v)[:60], fn.name)
    return True, ''


def gate_g1(mod, cls, fname, tests, mark, asyncio_mode):
    """(g1) the test (is_connected / can_disconnect) and the mark (pre_disconnect) lie in one atomic section."""
    t0 = time.time()
    name = '%s.%s.%s/gate.g1.check-and-mark-atomic' % (mod, cls, fname)
    found = source.find_method(mod, cls, fname)
    if not found or found[0] != mod:
        return ob(name, 'undecided', 'gate', t0, 'function not found')
    fn = found[2]
    calls = _calls_in_order(fn)
    tpos = [c for c in calls if c[2] in tests]
    mpos = [c for c in calls if c[2] == mark]
    if not tpos or not mpos:
        return ob(name, 'undecided', 'gate', t0, 'test or mark call not found in %s' % fname)
    first_test = tpos[0]
    m = mpos[0]
    if (m[0], m[1]) < (first_test[0], first_test[1]):
        return ob(name, 'refuted', 'gate', t0, 'the mark precedes the test')
    if not asyncio_mode:
        # threads: every call into the client manager is one atomic action; test and mark are two of them and no lock
        # brackets them -> another thread can run between them
        has_lock = any(isinstance(n, ast.With) for n in ast.walk(fn))
        if has_lock:
            return ob(name, 'undecided', 'gate', t0, 'a with-block (lock?) is present: the atomic section cannot be judged syntactically')
        return ob(name, 'refuted', 'gate', t0, ['threads: %s() and %s() are two separate manager calls with nothing making them one atomic section; '
                                               'schedule: both threads pass the test before either marks' % (first_test[2], mark)])
    # asyncio: every await positioned between the (first) test and the mark must be nosuspend
    between = []
    for n in ast.walk(fn):
        if isinstance(n, ast.Await):
            # an await that contains the test call itself is included: it must not suspend after the test was evaluated
            contains_test = any(c[3] is x for c in tpos for x in ast.walk(n))
            pos = (n.lineno, n.col_offset)
            if contains_test or ((first_test[0], first_test[1]) < pos < (m[0], m[1])):
                between.append(n)
    for a in between:
        v = a.value
        ok, why = False, 'await of %s may suspend between the test and the mark' % ast.unparse(v)[:80]
        if isinstance(v, ast.Call) and isinstance(v.func, ast.Attribute) and isinstance(v.func.value, ast.Attribute) \
                and v.func.value.attr == 'manager':
            callee = _resolve_manager_method(v.func.attr)
            if isinstance(callee, ast.AsyncFunctionDef):
                ok, why2 = nosuspend(callee)
                why = why2 or why
        if not ok:
            return ob(name, 'refuted', 'gate', t0, [why, 'schedule: a second terminating cause runs while this one is suspended between its test and its mark'])
    return ob(name, 'proved', 'gate', t0)


# --------------------------------------------------------------------------- gate rule, part g3 (VCs over the contracts)
def stability_lemmas(prop, seed):
    """(g3) once a session id is not connected (marked pending, or gone) no operation of another party makes it connected
    again: a Hoare triple per manager mutator, discharged from its verified contract."""
    from pyvc.run import registry
    from pyvc.contract import CallCtx, make_param
    from pyvc.engine import Engine, Ctx, Frame
    from .ext import make_externals
    from .views import connected, inv_m, issued_ok
    from . import worlds
    reg = registry()
    out = []
    targets = ['base_manager.BaseManager.basic_enter_room', 'base_manager.BaseManager.basic_leave_room', 'base_manager.BaseManager.basic_close_room',
               'base_manager.BaseManager.basic_disconnect', 'base_manager.BaseManager.connect', 'base_manager.BaseManager.pre_disconnect']
    for tgt in targets:
        k = reg.by_target.get(tgt)
        t0 = time.time()
        name = '%s/gate.g3.not-connected-is-stable' % tgt
        if k is None:
            out.append(ob(name, 'undecided', 'gate', t0, 'no contract'))
            continue
        eng = Engine(k.schema, reg, make_externals(k.schema))
        ctx = Ctx()
        ctx.st = State.fresh(k.schema, 'pre')
        fid = ctx.new_id()
        ctx.frames[fid] = Frame({}, None, k.self_obj, None, 'lemma', None)
        ctx.fid = fid
        vals = {p: make_param(eng, ctx, p, kind) for p, kind in k.params.items()}
        pre = ctx.st
        post = pre.havoc(k.modifies, 'post')
        ns, sid = z3.Consts('lm_ns lm_sid', V)
        statuses = []
        for case in k.cases:
            if case.kind != 'return' or (case.post is None and case.update is None):
                continue
            cc = CallCtx(eng, ctx, pre, post, vals, self_obj=k.self_obj)
            hyps = list(ctx.pc) + list((k.requires(cc) or {}).values())
            hyps += list(inv_m(pre).values()) + list(issued_ok(pre).values())
            hyps.append(case.when(cc) if case.when else z3.BoolVal(True))
            if case.result == 'V' or case.result == 'I':
                cc.result = __import__('pyvc.vals', fromlist=['S']).S(smt.fresh('res', V if case.result == 'V' else z3.IntSort()))
            if case.update is not None:
                cx = ctx.fork()
                cx.st = pre
                ce = CallCtx(eng, cx, pre, pre, vals, self_obj=k.self_obj)
                case.update(ce)
                thepost = cx.st
                hyps += cx.pc[len(ctx.pc):]
            else:
                thepost = post
                hyps += list(case.post(cc).values())
            # the session id in question was issued before; it is not the one this operation is about to register
            hyps.append(pre.get('g', 'issued').c['.'][sid])
            hyps.append(z3.Not(connected(pre, ns, sid)))
            if tgt.endswith('basic_enter_room'):
                # connect-mode entry registers a fresh session id (connect's contract); application-mode keeps transports
                hyps.append(z3.Implies(vals['eio_sid'].t != NONE, z3.Not(pre.get('g', 'issued').c['.'][vals['sid'].t])))
            r = smt.prove(hyps, z3.Not(connected(thepost, ns, sid)), timeout_ms=10000, seed=seed)
            statuses.append(r['status'])
        st = 'proved' if statuses and all(s == 'proved' for s in statuses) else ('refuted' if 'refuted' in statuses else 'undecided')
        out.append(ob(name, st, 'gate', t0, backend='z3'))
    return out


def consume_before_await(mod, cls, fname):
    """asyncio: a pending callback is removed from the table before the coroutine can suspend, so a duplicate ACK handled
    while the callback is running finds nothing (at-most-once under every interleaving at suspension points)."""
    t0 = time.time()
    name = '%s.%s.%s/gate.callback-consumed-before-any-await' % (mod, cls, fname)
    found = source.find_method(mod, cls, fname)
    if not found or found[0] != mod:
        return ob(name, 'undecided', 'gate', t0, 'function not found')
    fn = found[2]
    dels = [n for n in ast.walk(fn) if isinstance(n, ast.Delete) and 'callbacks' in ast.unparse(n)]
    pops = [n for n in ast.walk(fn) if isinstance(n, ast.Call) and isinstance(n.func, ast.Attribute) and n.func.attr == 'pop' and 'callbacks' in ast.unparse(n.func.value)]
    awaits = [n for n in ast.walk(fn) if isinstance(n, ast.Await)]
    consumed = dels + pops
    if not consumed:
        return ob(name, 'refuted', 'gate', t0, 'the callback entry is never removed')
    first_consume = min((n.lineno, n.col_offset) for n in consumed)
    in_finally = False
    for t in ast.walk(fn):
        if isinstance(t, ast.Try):
            for st in t.finalbody:
                if any(x in consumed for x in ast.walk(st)):
                    in_finally = True
    early = [a for a in awaits if (a.lineno, a.col_offset) < first_consume]
    if early or (in_finally and awaits):
        return ob(name, 'refuted', 'gate', t0, ['an await can suspend the coroutine while the callback is still registered',
                                               'schedule: a duplicate ACK for the same id is handled while the first invocation awaits'])
    return ob(name, 'proved', 'gate', t0)


def cluster_lemmas(seed):
    """C07 composition over abstract views, for any number of hosts: if every session id lives on one host (freshness of
    ids) and every host applies a message to its own membership exactly once (the per-function contracts), then an emit
    reaches exactly the clients a single server holding all memberships would reach, each from exactly one host."""
    out = []
    H = z3.DeclareSort('Host')
    mem = z3.Function('member_on', H, V, V, V, z3.BoolSort())          # member_h(ns, room, sid)
    skip = z3.Function('skipped', V, z3.BoolSort())
    h, h2 = z3.Consts('h h2', H)
    ns, room, s, r2 = z3.Consts('ns room s r2', V)
    own_once = z3.ForAll([h, h2, ns, s, r2, room], z3.Implies(z3.And(mem(h, ns, NONE, s), mem(h2, r2, NONE, s)), h == h2))     # I3 + freshness, cluster-wide
    i1 = z3.ForAll([h, ns, room, s], z3.Implies(mem(h, ns, room, s), mem(h, ns, NONE, s)))                                   # I1 on every host
    single = lambda n_, ro_, s_: z3.Exists([h], mem(h, n_, ro_, s_))                                                          # the reference single server
    delivers = lambda h_, n_, ro_, s_: z3.And(mem(h_, n_, ro_, s_), z3.Not(skip(s_)))                                        # _handle_emit on host h (Manager.emit contract)
    lemmas = {
        'cluster.emit-reaches-exactly-the-single-server-recipients': z3.ForAll([ns, room, s], z3.Exists([h], delivers(h, ns, room, s)) == z3.And(single(ns, room, s), z3.Not(skip(s)))),
        'cluster.emit-delivered-by-exactly-one-host': z3.ForAll([ns, room, s, h, h2], z3.Implies(z3.And(delivers(h, ns, room, s), delivers(h2, ns, room, s)), h == h2)),
        'cluster.room-change-applied-by-exactly-the-owning-host': z3.ForAll([ns, s, h, h2], z3.Implies(z3.And(mem(h, ns, NONE, s), mem(h2, ns, NONE, s)), h == h2)),
    }
    for name, goal in lemmas.items():
        t0 = time.time()
        r = smt.prove([own_once, i1], goal, timeout_ms=10000, seed=seed)
        out.append(ob('lemma/' + name, r['status'], 'lemma', t0, backend=r['backend'], function='(composition lemma over abstract views)'))
    # canary: without the ownership assumption the at-most-once lemma must not be provable
    t0 = time.time()
    r = smt.refute_qf([], lemmas['cluster.emit-delivered-by-exactly-one-host'], seed=seed)
    r2_ = smt.prove([i1], lemmas['cluster.emit-delivered-by-exactly-one-host'], timeout_ms=4000, seed=seed, quick_only=True)
    out.append(ob('lemma/cluster.canary(at-most-once needs one-host-per-sid)', 'proved' if r2_['status'] != 'proved' else 'vacuous', 'canary', t0, backend='z3',
                  function='(composition lemma over abstract views)'))
    return out


def bounded_codec(prop):
    """BOUNDED stand-in (never counted as proved): exhaustive native run of the real codec over a finite packet grammar
    against a specification-derived codec (bounded/codec.py)."""
    from . import replays
    t0 = time.time()
    want = {'C01': ('codec.',), 'C02': ('codec.roundtrip', 'codec.encode-leaves-the-payload-untouched', 'msgpack.roundtrip'),
            'C12': ('msgpack.refuses',)}[prop]
    try:
        res = replays.run_codec()
    except Exception as e:      # noqa: BLE001
        return [ob('bounded/codec', 'undecided', 'bounded', t0, str(e), backend='bounded-enumeration')]
    out = []
    for name, r in sorted(res['checks'].items()):
        if not name.startswith(want):
            continue
        d = ob('bounded/' + name, 'refuted' if r['failures'] else 'bounded', 'bounded', t0, backend='bounded-enumeration',
               function='packet.Packet.encode/decode, _deconstruct_binary_internal, _reconstruct_binary_internal' if name.startswith('codec') else 'msgpack_packet.MsgPackPacket.encode/decode',
               why=[json.dumps(f) for f in r['failures']] or None)
        d['cases'] = r['checked']
        d['bound'] = res['bound']
        if r['failures']:
            d['model'] = 'failing input (native run): %s' % json.dumps(r['failures'][0])
        out.append(d)
    return out


def lean_lemmas():
    """the arithmetic lemmas the codec contracts assume (lemmas/Lemmas.lean), re-checked by lean on every run"""
    import subprocess
    t0 = time.time()
    root = os.path.dirname(os.path.dirname(os.path.abspath(__file__)))
    try:
        p = subprocess.run(['lean', os.path.join(root, 'lemmas', 'Lemmas.lean')], capture_output=True, text=True, timeout=300)
        bad = p.returncode != 0 or 'error' in (p.stdout + p.stderr) or 'sorry' in (p.stdout + p.stderr)
        return [ob('lemma/lean.Lemmas(off_mono,dbl_closed,reachable_inv,off_pos_iff)', 'undecided' if bad else 'proved', 'lemma', t0,
                   why=(p.stdout + p.stderr)[-1500:] if bad else None, backend='lean4', function='lemmas/Lemmas.lean')]
    except Exception as e:      # noqa: BLE001
        return [ob('lemma/lean.Lemmas(off_mono,dbl_closed,reachable_inv,off_pos_iff)', 'undecided', 'lemma', t0, why=str(e), backend='lean4', function='lemmas/Lemmas.lean')]


def witnesses(prop):
    """thorough tier: the witness of every open known finding of the property is run against the real code (exit 1 = the
    defect reproduces).  Informational: the verdict stays with the obligations."""
    import subprocess
    root = os.path.dirname(os.path.dirname(os.path.abspath(__file__)))
    out = {}
    try:
        kf = json.load(open(os.path.join(root, 'known_findings.json')))['findings']
    except Exception:      # noqa: BLE001
        return out
    env = dict(os.environ)
    env['PYTHONPATH'] = os.path.join(os.environ.get('VERIF_REPO_ROOT', '/repo'), 'src')
    for k in kf:
        w = k.get('witness')
        if k.get('property') != prop or not w or w in out or k.get('status', 'open') != 'open':
            continue
        try:
            p = subprocess.run(['/venv/bin/python', os.path.join(root, w)], capture_output=True, text=True, timeout=300, env=env, cwd='/tmp')
            out[w] = {'exit': p.returncode, 'reproduces': p.returncode == 1, 'tail': (p.stdout + p.stderr)[-400:]}
        except Exception as e:      # noqa: BLE001
            out[w] = {'exit': None, 'error': str(e)}
    return out


WITNESS_RUNS = {}


def gate_g0(mod, cls, fname, tests, mark):
    """(g0) the shape the gate rule presupposes, checked on its own so that a change of shape is never mistaken for the
    recorded check-then-mark finding: the function tests the client's connection with the manager before it marks it, every
    mark is preceded by a test, and between the test and the mark nothing happens but logging."""
    t0 = time.time()
    out = []
    base = '%s.%s.%s/gate.g0.' % (mod, cls, fname)
    found = source.find_method(mod, cls, fname)
    if not found or found[0] != mod:
        return [ob(base + 'test-then-mark', 'undecided', 'gate', t0, 'function not found')]
    fn = found[2]
    calls = _calls_in_order(fn)
    tpos = [c for c in calls if c[2] in tests]
    mpos = [c for c in calls if c[2] == mark]
    ok = bool(tpos) and bool(mpos) and (tpos[0][0], tpos[0][1]) < (mpos[0][0], mpos[0][1])
    out.append(ob(base + 'tests-the-connection-before-marking', 'proved' if ok else 'refuted', 'gate', t0,
                  None if ok else 'tests found: %s, marks found: %s' % ([c[2] for c in tpos], [c[2] for c in mpos])))
    if ok:
        lo, hi = (tpos[-1][0], tpos[-1][1]) if (tpos[-1][0], tpos[-1][1]) < (mpos[0][0], mpos[0][1]) else (tpos[0][0], tpos[0][1]), (mpos[0][0], mpos[0][1])
        window = [c for c in calls if lo < (c[0], c[1]) < hi and c[2] not in tests and c[2] != mark
                  and not (isinstance(c[3].func.value, ast.Attribute) and c[3].func.value.attr == 'logger') and c[2] not in ('info', 'debug', 'warning', 'error')]
        out.append(ob(base + 'nothing-but-logging-between-test-and-mark', 'proved' if not window else 'refuted', 'gate', t0,
                      None if not window else 'between the test and the mark: %s' % ', '.join(ast.unparse(c[3])[:60] for c in window)))
    return out


def gate_g2():
    """(g2) the "being disconnected" mark outlives the membership: basic_disconnect drops the mark only after the client has left
    every room, so that at no intermediate point is the client "connected and unmarked" again (is_connected() would then
    let a second terminator through).  Syntactic, over the statement order of the real function."""
    t0 = time.time()
    name = 'base_manager.BaseManager.basic_disconnect/gate.g2.mark-dropped-only-after-leaving-every-room'
    found = source.find_method('base_manager', 'BaseManager', 'basic_disconnect')
    if not found:
        return [ob(name, 'undecided', 'gate', t0, 'function not found')]
    fn = found[2]
    leaves = [(n.lineno, n.col_offset) for n in ast.walk(fn) if isinstance(n, ast.Call) and isinstance(n.func, ast.Attribute) and n.func.attr == 'basic_leave_room']
    drops = []
    for n in ast.walk(fn):
        txt = None
        if isinstance(n, ast.Call) and isinstance(n.func, ast.Attribute) and n.func.attr in ('remove', 'pop', 'discard', 'clear'):
            txt = ast.unparse(n.func.value)
        elif isinstance(n, ast.Delete):
            txt = ' '.join(ast.unparse(t) for t in n.targets)
        elif isinstance(n, (ast.Assign, ast.AugAssign)):
            txt = ' '.join(ast.unparse(t) for t in (n.targets if isinstance(n, ast.Assign) else [n.target]))
        if txt and 'pending_disconnect' in txt:
            drops.append((n.lineno, n.col_offset))
    if not leaves or not drops:
        return [ob(name, 'undecided', 'gate', t0, 'leave calls: %d, mark removals: %d' % (len(leaves), len(drops)))]
    ok = min(drops) > max(leaves)
    return [ob(name, 'proved' if ok else 'refuted', 'gate', t0,
               None if ok else 'the mark is dropped at line %d, the client leaves its rooms at line %d: in between it is connected and unmarked' % (min(drops)[0], max(leaves)[0]))]


def run(prop, tier, seed):
    out = []
    if prop in ('C20', 'C04'):
        out += gate_g2()
    if tier == 'thorough':
        WITNESS_RUNS[prop] = witnesses(prop)
        os.environ['VERIF_BOUNDED_DEPTH'] = '3'
    if prop == 'C01':
        out += lean_lemmas()
    if prop in ('C01', 'C02', 'C12'):
        out += bounded_codec(prop)
    if prop == 'C07':
        out += cluster_lemmas(seed)
    if prop == 'C02':
        from . import transparency
        out += transparency.lemmas(seed)
    if prop == 'C19':
        from . import simple
        out += simple.lemmas(seed)
    if prop == 'C06':
        out.append(consume_before_await('async_manager', 'AsyncManager', 'trigger_callback'))
    if prop == 'C09':
        out.append(consume_before_await('async_client', 'AsyncClient', '_handle_ack'))
    if prop == 'C04':
        out.append(gate_g1('async_server', 'AsyncServer', 'disconnect', ('is_connected', 'can_disconnect'), 'pre_disconnect', True))
        out.append(gate_g1('async_server', 'AsyncServer', '_handle_disconnect', ('is_connected',), 'pre_disconnect', True))
        out += gate_g0('async_server', 'AsyncServer', 'disconnect', ('is_connected', 'can_disconnect'), 'pre_disconnect')
        out += gate_g0('async_server', 'AsyncServer', '_handle_disconnect', ('is_connected',), 'pre_disconnect')
        out += stability_lemmas(prop, seed)
    if prop == 'C20':
        g1 = [gate_g1('server', 'Server', 'disconnect', ('is_connected', 'can_disconnect'), 'pre_disconnect', False),
              gate_g1('server', 'Server', '_handle_disconnect', ('is_connected',), 'pre_disconnect', False)]
        lem = stability_lemmas(prop, seed)
        out += g1 + lem
        out += gate_g0('server', 'Server', 'disconnect', ('is_connected', 'can_disconnect'), 'pre_disconnect')
        out += gate_g0('server', 'Server', '_handle_disconnect', ('is_connected',), 'pre_disconnect')
        # what still has to hold while (g1) is a recorded finding: the rest of the gate rule, so that a different race is still reported
        for o in g1:
            t0 = time.time()
            rest_ok = all(l['status'] == 'proved' for l in lem)
            out.append(ob(o['name'] + '#residual', 'proved' if rest_ok else 'undecided', 'gate', t0, backend='z3'))
    return out
