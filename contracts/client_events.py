"""Client side of events and acknowledgements (C09, C02): _send_packet, _generate_ack_id, _handle_event, _handle_ack, emit."""
import z3
from pyvc import smt
from pyvc.smt import V, B, I, NONE, atom
from pyvc.contract import Contract, Case
from pyvc.dsl import A, prepend, log_grew, entry_is
from pyvc.model import sv_equiv
from pyvc.vals import S, PySeq, Fixed, View
from . import worlds, c13
from .views import cb_ok, cb_present, cb_val, outstanding, wire_value, COUNTER
from .sending import send_packet_contract, OUT
from .server_events import eff_ns, ack_payload, wellformed_event, out_one, out_same_at, ACK, BINARY_ACK, DISP, CALLS
from .emit import CFG_BIN, SHAPES, EVENT, BINARY_EVENT
from .packet_summary import has_binary
from .eio_model import THE_CONNECTION

CBS = ('client', 'callbacks')
NEXT = ('client', 'ack_next')
NSS = ('client', 'namespaces')
NAMES = c13.CLIENT_RESERVED + c13.CLIENT_INTERNAL
K = dict(obj='client', mod='base_client')


def ccb_ok(st):
    return cb_ok(st, **K)


def cpresent(st, ns, k):
    return cb_present(st, ns, k, 'client')


def cval(st, ns, k):
    return cb_val(st, ns, k, 'client')


def coutstanding(st, ns, k):
    return outstanding(st, ns, k, 'client')


def generate_ack_id_contract():
    def post(c):
        ns, cb = eff_ns(c.a.namespace), c.a.callback
        rid = c.res_v()
        s, k = z3.Consts('q_s q_k', V)
        d = {
            'fresh-among-outstanding': z3.Not(cpresent(c.pre, ns, rid)),
            'is-a-positive-integer': z3.And(smt.kind(rid) == smt.K_INT, smt.int_of(rid) >= 1),
            'registered': z3.And(cpresent(c.post, ns, rid), cval(c.post, ns, rid) == cb),
            'others-kept': z3.ForAll([s, k], z3.Implies(cpresent(c.pre, s, k), z3.And(cpresent(c.post, s, k), cval(c.post, s, k) == cval(c.pre, s, k)))),
            'nothing-else-added': z3.ForAll([s, k], z3.Implies(z3.And(coutstanding(c.post, s, k), z3.Not(coutstanding(c.pre, s, k))), z3.And(s == ns, k == rid))),
        }
        d.update(ccb_ok(c.post))
        return d
    return Contract(
        target='base_client.BaseClient._generate_ack_id', schema=worlds.CLIENT, self_obj='client', params={'namespace': 'V', 'callback': 'V'},
        requires=lambda c: dict(ccb_ok(c.pre), **{'callback-is-not-the-counter': c.a.callback != COUNTER,
                                                  'callback-is-truthy': z3.And(smt.truthy(c.a.callback), c.a.callback != NONE)}),
        cases=[Case('issues', result='I', post=post)],
        modifies=[CBS, NEXT], props=['C09'],
        must_fail=lambda c: {'issues:claims-id-1': c.res_v() == smt.box_int(z3.IntVal(1))})


def handle_ack_contract(world, target):
    def known(c):
        return coutstanding(c.pre, eff_ns(c.a.namespace), c.a.id)

    def invoked(c):
        ns, id_ = eff_ns(c.a.namespace), c.a.id
        pre, post_ = c.pre.get(*CALLS), c.post.get(*CALLS)
        s, k = z3.Consts('q_s q_k', V)
        args = PySeq([View(smt.vseq(c.a.data), z3.IntVal(0), smt.vlen(c.a.data))], 'tuple')
        return {'callback-invoked-once': log_grew(pre, post_, 1),
                'with-the-acknowledged-arguments': entry_is(c, post_, pre.c['len'], fn=cval(c.pre, ns, id_), args=args),
                'used-up': z3.Not(cpresent(c.post, ns, id_)),
                'others-kept': z3.ForAll([s, k], z3.Implies(z3.Not(z3.And(s == ns, k == id_)),
                                                            z3.And(cpresent(c.post, s, k) == cpresent(c.pre, s, k), cval(c.post, s, k) == cval(c.pre, s, k))))}
    return Contract(
        target=target, schema=world, self_obj='client', params={'namespace': 'V', 'id': 'V', 'data': 'V'},
        requires=lambda c: dict(ccb_ok(c.pre), **{'dom.id-came-off-the-wire': wire_value(c.a.id)}),
        cases=[Case('outstanding', when=known, post=invoked),
               Case('outstanding.callback-raises', when=known, kind='raise', exc='Exception', post=invoked),
               Case('unknown-or-repeated-id', when=lambda c: z3.Not(known(c)), update=lambda c: None)],
        modifies=[CBS, CALLS], props=['C09'],
        must_fail=lambda c: {'outstanding:claims-kept': cpresent(c.post, eff_ns(c.a.namespace), c.a.id)})


def client_event_effect(c, ns, id_, data, raised=False):
    ev = smt.vseq(data)[0]
    has = c13.target_exists(c.pre, 'client', ns, ev, NAMES)
    d0, d1 = c.pre.get(*DISP), c.post.get(*DISP)
    n = d0.c['len']
    args = PySeq([View(smt.vseq(data), z3.IntVal(1), smt.vlen(data))], 'tuple')
    ret = z3.If(has, d1.c['ret'][n], NONE)
    d = {'responsible-handler-invoked-once': z3.Implies(has, z3.And(log_grew(d0, d1, 1), entry_is(c, d1, n, event=ev, ns=ns, args=args))),
         'nobody-responsible.nothing-invoked': z3.Implies(z3.Not(has), sv_equiv(d1, d0))}
    quiet = sv_equiv(c.post.get(*OUT), c.pre.get(*OUT))
    if raised:
        d['handler-raised.no-ack'] = quiet
        return d

    def fields(get):
        D = get('data')
        return z3.And(get('ptype') == z3.If(z3.And(CFG_BIN, has_binary(D)), BINARY_ACK, ACK), get('ns') == ns, get('id') == id_, ack_payload(ret, D))
    for k_, v in out_one(c.pre, c.post, THE_CONNECTION, fields).items():
        d['ack.' + k_] = z3.Implies(id_ != NONE, v)
    d['no-id.no-ack'] = z3.Implies(id_ == NONE, quiet)
    return d


def handle_event_contract(world, target):
    def req(c):
        d = dict(c13.handlers_ok(c.pre, 'client'))
        d['dom.wellformed-event'] = wellformed_event(c.a.data)
        d['dom.event-name-not-star'] = smt.vseq(c.a.data)[0] != c13.STAR
        d['dom.ns-not-star'] = eff_ns(c.a.namespace) != c13.STAR
        for n in c13.CLIENT_INTERNAL:
            d['dom.event-not-' + n] = smt.vseq(c.a.data)[0] != A(n)
        return d
    return Contract(
        target=target, schema=world, self_obj='client', params={'namespace': 'V', 'id': 'V', 'data': 'V'},
        requires=req,
        cases=[Case('handled', post=lambda c: client_event_effect(c, eff_ns(c.a.namespace), c.a.id, c.a.data)),
               Case('handler-raises', kind='raise', exc='Exception', post=lambda c: client_event_effect(c, eff_ns(c.a.namespace), c.a.id, c.a.data, raised=True))],
        modifies=[DISP, OUT, ('g', 'raw'), CALLS], props=['C09', 'C02'],
        must_fail=lambda c: {'handled:claims-no-ack-ever': sv_equiv(c.post.get(*OUT), c.pre.get(*OUT))})


def emit_contract(world, target):
    def ns_(c):
        return eff_ns(c.a.namespace)

    def conn(c):
        return c.pre.get(*NSS).c['dom'][ns_(c)]

    def sent(shape):
        def post(c):
            ns, ev, d_, cb = ns_(c), c.a.event, c.a.data, c.a.callback
            D = c.eng.to_v(c.ctx, SHAPES[shape][1](ev, d_))
            o0, o1 = c.pre.get(*OUT), c.post.get(*OUT)
            k = o1.c['.id'][THE_CONNECTION][o0.c['.len'][THE_CONNECTION]]
            s, q = z3.Consts('em_s em_k', V)

            def fields(get):
                return z3.And(get('ptype') == z3.If(z3.And(CFG_BIN, has_binary(D)), BINARY_EVENT, EVENT), get('ns') == ns, get('data') == D)
            d = dict(out_one(c.pre, c.post, THE_CONNECTION, fields))
            d['no-callback.no-id'] = z3.Implies(cb == NONE, z3.And(k == NONE, sv_equiv(c.post.get(*CBS), c.pre.get(*CBS))))
            d['callback.id-unique-and-registered'] = z3.Implies(cb != NONE, z3.And(coutstanding(c.post, ns, k), cval(c.post, ns, k) == cb, z3.Not(cpresent(c.pre, ns, k))))
            d['callback.others-kept'] = z3.ForAll([s, q], z3.Implies(coutstanding(c.pre, s, q), z3.And(coutstanding(c.post, s, q), cval(c.post, s, q) == cval(c.pre, s, q))))
            d['callback.nothing-else-added'] = z3.ForAll([s, q], z3.Implies(z3.And(coutstanding(c.post, s, q), z3.Not(coutstanding(c.pre, s, q))), z3.And(cb != NONE, s == ns, q == k)))
            d.update(ccb_ok(c.post))
            return d
        return post
    cases = [Case('namespace-not-connected', when=lambda c: z3.Not(conn(c)), kind='raise', exc='sio.BadNamespaceError', update=lambda c: None)]
    for shape, (cond, _) in SHAPES.items():
        cases.append(Case('sends.' + shape, when=(lambda cond: lambda c: z3.And(conn(c), cond(c.a.data)))(cond), post=sent(shape)))
    return Contract(
        target=target, schema=world, self_obj='client', params={'event': 'V', 'data': 'V', 'namespace': 'V', 'callback': 'V'},
        requires=lambda c: dict(ccb_ok(c.pre), **{'callback-is-a-callable-or-none': z3.Implies(c.a.callback != NONE, z3.And(smt.truthy(c.a.callback), c.a.callback != COUNTER)),
                                                  'namespace-is-a-string': z3.Or(c.a.namespace == NONE, smt.kind(c.a.namespace) == smt.K_STR)}),
        cases=cases, modifies=[CBS, NEXT, OUT, ('g', 'raw')], props=['C09', 'C08', 'C02'],
        must_fail=lambda c: {'sends.no-payload:claims-nothing-sent': sv_equiv(c.post.get(*OUT), c.pre.get(*OUT))})


def register(reg):
    reg.add(generate_ack_id_contract())
    for w, m_, c_ in ((worlds.CLIENT, 'client', 'Client'), (worlds.ASYNC_CLIENT, 'async_client', 'AsyncClient')):
        k = send_packet_contract(w, 'client', '%s.%s._send_packet' % (m_, c_), None)
        k.props = ['C02', 'C09']
        reg.add(k)
        reg.add(handle_ack_contract(w, '%s.%s._handle_ack' % (m_, c_)))
        reg.add(handle_event_contract(w, '%s.%s._handle_event' % (m_, c_)))
        reg.add(emit_contract(w, '%s.%s.emit' % (m_, c_)))
