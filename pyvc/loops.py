"""Loops: cut by an inductive invariant from the sidecar (init / step / exit obligations), or unrolled when the
iterable has a concrete length.  Dict iteration is over an arbitrary order: ghost set `done` of processed keys."""
import ast
import z3
from . import smt
from .smt import V, B, I, R, NONE
from .model import SV, Leaf, MapT, BidictT, BagT, SeqT
from .vals import S, Ref, PySeq, Fixed, View, Raised, Exc, Unsupported, Value
from .engine import Out, HRef, HObj
from .externals import KeysView, SetV

UNROLL_MAX = 6


class LoopCtx:
    def __init__(self, eng, ctx, entry, cur, i=None, done=None, n=None, dom=None, seq=None, key=None, coll=None):
        self.eng, self.ctx, self.entry, self.cur = eng, ctx, entry, cur
        self.i, self.done, self.n, self.dom, self.seq, self.key, self.coll = i, done, n, dom, seq, key, coll

    def var(self, name):
        return self.ctx.lookup(name)

    def t(self, name):
        v = self.ctx.lookup(name)
        return v.t if isinstance(v, S) else v

    @property
    def st(self):
        return self.cur

    def map(self, name):
        """the structured value of a local dict"""
        from .externals import _snapshot
        return _snapshot(self.eng, self.ctx, self.ctx.lookup(name))


def loop_spec(eng, node):
    own = getattr(node, '_pyvc_loop_spec', None)       # a loop of an inlined callee that has its own contract: that contract's invariant
    if own is not None:
        return own, getattr(node, '_pyvc_loop_label', None)
    k = getattr(node, '_pyvc_loop', None)
    if k is None or eng.current is None:
        return None, k
    if getattr(node, '_pyvc_loop_dup', False):
        return eng.current.loops.get(k), '%d.dup' % k
    return eng.current.loops.get(k), k


def loop_sig(node):
    """what a loop iterates over, as source text: used to find a contract's loops again when loops were added or removed"""
    if isinstance(node, (ast.For, ast.AsyncFor)):
        return 'for %s in %s' % (ast.unparse(node.target), ast.unparse(node.iter))
    if isinstance(node, ast.While):
        return 'while %s' % ast.unparse(node.test)
    g = node.generators[0]
    return 'comp %s in %s' % (ast.unparse(g.target), ast.unparse(g.iter))


def number_loops(fn, recorded=None):
    """Ordinal of every loop of the function in source order (contracts address loops by ordinal, never by line).
    `recorded` = the loop signatures of the same function on the tree the contracts were written for
    (expected/loop_sigs.json).  When the loops found differ from it, ordinals are the recorded ones of the loops that are
    still there (longest common subsequence of the signatures); a loop that is new but iterates like a recorded one
    borrows that loop's invariant under the label `<k>.dup` (its own obligations are never counted as violations);
    any other new loop has no invariant."""
    found = []

    def visit(node):
        for child in ast.iter_child_nodes(node):
            if isinstance(child, (ast.For, ast.While, ast.AsyncFor, ast.ListComp, ast.DictComp, ast.GeneratorExp, ast.SetComp)):
                child._pyvc_loop = len(found)
                found.append(child)
            visit(child)
    visit(fn)
    if recorded is not None:
        cur = [loop_sig(n) for n in found]
        if cur != list(recorded):
            a, b = list(recorded), cur
            L = [[0] * (len(b) + 1) for _ in range(len(a) + 1)]
            for i in range(len(a) - 1, -1, -1):
                for j in range(len(b) - 1, -1, -1):
                    L[i][j] = L[i + 1][j + 1] + 1 if a[i] == b[j] else max(L[i + 1][j], L[i][j + 1])
            i = j = 0
            match = {}
            while i < len(a) and j < len(b):
                if a[i] == b[j] and L[i][j] == L[i + 1][j + 1] + 1:
                    match[j] = i
                    i += 1
                    j += 1
                elif L[i + 1][j] >= L[i][j + 1]:
                    i += 1
                else:
                    j += 1
            for j, n in enumerate(found):
                if j in match:
                    n._pyvc_loop = match[j]
                elif b[j] in a:
                    n._pyvc_loop = max(k for k, s_ in enumerate(a) if s_ == b[j])
                    n._pyvc_loop_dup = True
                else:
                    n._pyvc_loop = 1000 + j
    return len(found)


def havoc_value(eng, ctx, name, v, kinds):
    k = kinds.get(name)
    if k is not None:
        from .contract import make_param
        return make_param(eng, ctx, 'h_' + name, k)
    if isinstance(v, S):
        return S(smt.fresh('h_' + name, v.t.sort()))
    if isinstance(v, HRef):
        h = ctx.heap[v.id]
        if h.kind == 'list':
            arr = smt.fresh('h_%s_arr' % name, z3.ArraySort(I, V))
            n = smt.fresh('h_%s_len' % name, I)
            ctx.assume(n >= 0)
            return ctx.alloc('list', PySeq([View(arr, z3.IntVal(0), n)], 'list'))
        if h.kind == 'map' and isinstance(h.data, SV):
            return ctx.alloc('map', SV.fresh(h.data.ty, 'h_' + name), alias_of=h.alias_of)     # still (possibly) the live view it was
        if h.kind == 'map' and isinstance(h.data, dict) and not h.data:
            return ctx.alloc('map', SV.fresh(MapT(Leaf('V')), 'h_' + name))
    if isinstance(v, PySeq):
        arr = smt.fresh('h_%s_arr' % name, z3.ArraySort(I, V))
        n = smt.fresh('h_%s_len' % name, I)
        ctx.assume(n >= 0)
        return PySeq([View(arr, z3.IntVal(0), n)], v.kind)
    raise Unsupported('cannot havoc loop variable %s = %r' % (name, v))


_bundle_n = [0]


def _inv(spec, lc, k):
    try:
        return spec.inv(lc) or {}
    except Unsupported:
        raise
    except Exception as e:
        raise Unsupported('the invariant given for loop %d does not fit the loop found in the code (%s: %s)' % (k if k is not None else -1, type(e).__name__, e))


def _emit_inv(eng, ctx, spec, lc, label, k):
    lc.label = label
    if label == 'step' and isinstance(k, str) and '#' in k:
        # a loop of an inlined callee that is verified under its own contract: the inductive step was discharged there (from
        # the callee's precondition, which the call site is checked against); only the initial establishment is per call site
        return
    clauses = _inv(spec, lc, k)
    _bundle_n[0] += 1
    hyps = list(ctx.pc) + list(eng.hyps_extra)     # evaluated after the clauses: boxing facts included
    from .engine import Oblig
    for name, t in clauses.items():
        eng.obligs.append(Oblig('loop%s.%s.%s' % (k, label, name), hyps, t, (), 'loop', info={'bundle': _bundle_n[0]}))


def _assume_inv(eng, ctx, spec, lc):
    lc.label = 'assume'
    for name, t in _inv(spec, lc, None).items():
        ctx.assume(t)


def _havoc(eng, ctx, spec):
    for name in spec.mod_vars:
        v = ctx.lookup(name)
        if v is None:
            # variable first assigned inside the loop
            if name in spec.kinds:
                from .contract import make_param
                ctx.bind(name, make_param(eng, ctx, 'h_' + name, spec.kinds[name]), find=True)
            continue
        ctx.bind(name, havoc_value(eng, ctx, name, v, spec.kinds), find=True)
    if spec.mod_state:
        ctx.st = ctx.st.havoc(spec.mod_state, 'loop')


def _exec_while_unwound(eng, s, ctx, n, k):
    from .engine import Oblig
    live = [ctx]
    for it in range(n + 1):
        nxt = []
        for c in live:
            for c1, t in eng.ev(s.test, c):
                if isinstance(t, Raised):
                    yield Out('raise', c1, t.exc)
                    continue
                for c2, side in eng.branch(c1, eng.truth(c1, t)):
                    if not side:
                        yield from eng.exec_block(s.orelse, c2)
                        continue
                    if it == n:
                        # iteration n+1 must be unreachable
                        eng.obligs.append(Oblig('loop%s.unwinding-%d-suffices' % (k, n), list(c2.pc) + list(eng.hyps_extra), z3.BoolVal(False), (), 'loop', info={}))
                        continue
                    for o in eng.exec_block(s.body, c2):
                        if o.kind in ('next', 'continue'):
                            nxt.append(o.ctx)
                        elif o.kind == 'break':
                            yield Out('next', o.ctx)
                        else:
                            yield o
        live = nxt
        if not live:
            return


def exec_while(eng, s, ctx):
    spec, k = loop_spec(eng, s)
    if spec is None:
        raise Unsupported('while loop without an invariant')
    from .contract import Unwind
    if isinstance(spec, Unwind):
        yield from _exec_while_unwound(eng, s, ctx, spec.n, k)
        return
    entry = ctx.st
    _emit_inv(eng, ctx, spec, LoopCtx(eng, ctx, entry, ctx.st), 'init', k)
    c = ctx.fork()
    _havoc(eng, c, spec)
    _assume_inv(eng, c, spec, LoopCtx(eng, c, entry, c.st))
    if not eng.feasible(c):
        raise Unsupported('loop invariant of loop %d is unsatisfiable' % k)
    for c1, t in eng.ev(s.test, c):
        if isinstance(t, Raised):
            yield Out('raise', c1, t.exc)
            continue
        for c2, side in eng.branch(c1, eng.truth(c1, t)):
            if side:
                for o in eng.exec_block(s.body, c2):
                    if o.kind in ('next', 'continue'):
                        _emit_inv(eng, o.ctx, spec, LoopCtx(eng, o.ctx, entry, o.ctx.st), 'step', k)
                    elif o.kind == 'break':
                        yield Out('next', o.ctx)
                    else:
                        yield o
            else:
                yield from eng.exec_block(s.orelse, c2)


def _iterable(eng, ctx, v):
    """-> ('seq', PySeq) | ('keys'|'items'|'values', SV)"""
    if isinstance(v, KeysView):
        return v.what, v.sv
    if isinstance(v, (PySeq,)):
        return 'seq', v
    if isinstance(v, HRef):
        h = ctx.heap[v.id]
        if h.kind == 'list':
            return 'seq', h.data
        if h.kind == 'map' and isinstance(h.data, SV):
            return 'keys', h.data
    if isinstance(v, Ref):
        ty = eng.ref_type(v)
        if isinstance(ty, (MapT, BidictT)):
            return 'keys', eng.load(ctx, v)
        if isinstance(ty, SeqT):
            return 'seq', eng.as_seq(ctx, v)
    if isinstance(v, S) and v.sort == 'V':
        return 'seq', eng.as_seq(ctx, v)
    if isinstance(v, GenSeq):
        return v.what, v.sv
    from .externals import Recorder
    if isinstance(v, Recorder):
        t = eng.to_v(ctx, v)
        ctx.assume(smt.vlen(t) >= 0)
        return 'seq', PySeq([View(smt.vseq(t), z3.IntVal(0), smt.vlen(t))], 'list')
    raise Unsupported('iteration over %r' % (v,))


class GenSeq(Value):
    """The sequence a generator under contract produces (get_participants)."""
    def __init__(self, what, sv):
        self.what, self.sv = what, sv


def _bind_target(eng, ctx, tgt, item):
    res = list(eng.assign(ctx, tgt, item))
    out = []
    for c, r in res:
        if isinstance(r, Raised):
            if isinstance(item, S) and item.sort == 'V':
                eng.ext.note('the items of an opaque iterable unpack into the loop target (pairs for `for a, b in xs`)')
                continue
            raise Unsupported('raising loop target assignment')
        out.append(c)
    return out


def _map_item(eng, ctx, what, sv, k):
    """value bound by one iteration over a map snapshot at key k"""
    if what == 'keys':
        return S(k)
    ch = sv.child(('k', k))
    val = S(ch.leaf()) if isinstance(ch.ty, Leaf) else ctx.alloc('map', ch)
    if what == 'values':
        return val
    return PySeq([Fixed([S(k), val])], 'tuple')


def exec_for(eng, s, ctx):
    spec, k = loop_spec(eng, s)
    for c0, itv in eng.ev(s.iter, ctx):
        if isinstance(itv, Raised):
            yield Out('raise', c0, itv.exc)
            continue
        what, coll = _iterable(eng, c0, itv)
        if what == 'seq':
            fl = coll.fixed_len()
            if fl is not None and fl <= UNROLL_MAX:
                # a sequence of known length is unrolled whether or not an invariant is on offer
                yield from _unroll(eng, s, c0, coll.items(), spec, coll)
                continue
            if spec is None:
                raise Unsupported('for loop over a sequence of symbolic length without an invariant')
            yield from _for_seq(eng, s, c0, coll, spec, k)
        else:
            if spec is None:
                raise Unsupported('for loop over a dict without an invariant')
            yield from _for_map(eng, s, c0, what, coll, spec, k)


def _unroll(eng, s, ctx, items, spec=None, seq=None, entry=None):
    entry = entry if entry is not None else ctx.st
    if not items:
        if spec is not None and spec.on_exit:
            n = z3.IntVal(len(seq.items()))
            spec.on_exit(LoopCtx(eng, ctx, entry, ctx.st, i=n, n=n, seq=seq))
        yield from eng.exec_block(s.orelse, ctx)
        return
    for c in _bind_target(eng, ctx, s.target, items[0]):
        for o in eng.exec_block(s.body, c):
            if o.kind in ('next', 'continue'):
                yield from _unroll(eng, s, o.ctx, items[1:], spec, seq, entry)
            elif o.kind == 'break':
                yield Out('next', o.ctx)
            else:
                yield o


def _for_seq(eng, s, ctx, seq, spec, k):
    entry = ctx.st
    n = seq.length()
    ctx.assume(n >= 0)
    _emit_inv(eng, ctx, spec, LoopCtx(eng, ctx, entry, ctx.st, i=z3.IntVal(0), n=n, seq=seq), 'init', k)
    # arbitrary iteration
    c = ctx.fork()
    _havoc(eng, c, spec)
    i = smt.fresh('i', I)
    c.assume(i >= 0, i <= n)
    _assume_inv(eng, c, spec, LoopCtx(eng, c, entry, c.st, i=i, n=n, seq=seq))
    c_exit = c.fork()
    c.assume(i < n)
    if eng.feasible(c):
        item = S(eng.seq_at(c, seq, i))
        for c1 in _bind_target(eng, c, s.target, item):
            for o in eng.exec_block(s.body, c1):
                if o.kind in ('next', 'continue'):
                    _emit_inv(eng, o.ctx, spec, LoopCtx(eng, o.ctx, entry, o.ctx.st, i=i + 1, n=n, seq=seq), 'step', k)
                elif o.kind == 'break':
                    yield Out('next', o.ctx)
                else:
                    yield o
    c_exit.assume(i == n)
    if eng.feasible(c_exit):
        if spec.on_exit:
            spec.on_exit(LoopCtx(eng, c_exit, entry, c_exit.st, i=i, n=n, seq=seq))
        yield from eng.exec_block(s.orelse, c_exit)


def _for_map(eng, s, ctx, what, sv, spec, k):
    entry = ctx.st
    dom = sv.c['dom']
    ksort = dom.sort().domain()
    empty = z3.K(ksort, z3.BoolVal(False))
    _emit_inv(eng, ctx, spec, LoopCtx(eng, ctx, entry, ctx.st, done=empty, dom=dom, coll=sv), 'init', k)
    c = ctx.fork()
    _havoc(eng, c, spec)
    done = smt.fresh('done', dom.sort())
    q = z3.Const('dn_k', ksort)
    c.assume(z3.ForAll([q], z3.Implies(done[q], dom[q]), patterns=[done[q]]))
    _assume_inv(eng, c, spec, LoopCtx(eng, c, entry, c.st, done=done, dom=dom, coll=sv))
    c_exit = c.fork()
    key = smt.fresh('key', ksort)
    c.assume(dom[key], z3.Not(done[key]))
    if eng.feasible(c):
        item = _map_item(eng, c, what, sv, key)
        for c1 in _bind_target(eng, c, s.target, item):
            for o in eng.exec_block(s.body, c1):
                if o.kind in ('next', 'continue'):
                    _emit_inv(eng, o.ctx, spec, LoopCtx(eng, o.ctx, entry, o.ctx.st, done=z3.Store(done, key, z3.BoolVal(True)), dom=dom, key=key, coll=sv), 'step', k)
                elif o.kind == 'break':
                    yield Out('next', o.ctx)
                else:
                    yield o
    c_exit.assume(z3.ForAll([q], done[q] == dom[q], patterns=[done[q]]))
    if eng.feasible(c_exit):
        if spec.on_exit:
            spec.on_exit(LoopCtx(eng, c_exit, entry, c_exit.st, done=done, dom=dom, coll=sv))
        yield from eng.exec_block(s.orelse, c_exit)


def comprehension(eng, ctx, e):
    """List comprehensions over a concrete-length sequence are unrolled; over a symbolic sequence the body must be
    a non-forking expression and the result is the pointwise image (automatic invariant out[j] = body(xs[j]))."""
    if len(e.generators) != 1 or e.generators[0].is_async:
        raise Unsupported('comprehension shape')
    g = e.generators[0]
    for c0, itv in eng.ev(g.iter, ctx):
        if isinstance(itv, Raised):
            yield c0, itv
            continue
        from .externals import DictPairs
        if isinstance(itv, DictPairs) and isinstance(e, ast.DictComp):
            yield from _dictcomp_over_pairs(eng, c0, e, g, itv.t)
            continue
        what, coll = _iterable(eng, c0, itv)
        if isinstance(e, (ast.ListComp, ast.GeneratorExp)) and what == 'seq':
            fl = coll.fixed_len()
            if fl is not None and fl <= UNROLL_MAX:
                yield from _comp_unroll(eng, e, c0, coll.items(), [])
                continue
            # symbolic length: pointwise image
            if g.ifs:
                raise Unsupported('filtered comprehension over a sequence of symbolic length')
            n = coll.length()
            j = smt.fresh('cj', I)
            fid = c0.fid
            saved = dict(c0.frame.vars)
            c1 = c0.fork()
            c1.assume(j >= 0, j < n)
            outs = []
            for c2 in _bind_target(eng, c1, g.target, S(eng.seq_at(c1, coll, j))):
                outs += list(eng.ev(e.elt, c2))
            if len(outs) != 1 or isinstance(outs[0][1], Raised):
                raise Unsupported('comprehension body forks or raises over a symbolic sequence')
            c2, val = outs[0]
            if len(c2.pc) != len(c1.pc) or c2.st is not c1.st:
                # body added facts or changed the state
                extra = c2.pc[len(c1.pc):]
                if c2.st is not c1.st:
                    raise Unsupported('comprehension body with side effects over a symbolic sequence')
            else:
                extra = []
            body_t = eng.to_v(c2, val)
            extra = c2.pc[len(c1.pc):]
            arr = smt.fresh('comp', z3.ArraySort(I, V))
            jj = z3.Int('cj_q')
            fact = z3.ForAll([jj], z3.Implies(z3.And(jj >= 0, jj < n),
                                              z3.substitute(z3.And(arr[j] == body_t, *extra), (j, jj))), patterns=[arr[jj]])
            c0.assume(fact)
            yield c0, c0.alloc('list', PySeq([View(arr, z3.IntVal(0), n)], 'list'))
            continue
        raise Unsupported('comprehension over %s' % what)


def _dictcomp_over_pairs(eng, c0, e, g, t):
    """{k: f(v) for k, v in d.items()} over an opaque dict d: a dict with the same keys in the same order whose value at
    position j is f(dval(d)[j]).  The key expression must be the loop's own key variable and f must neither fork nor
    change the state (a call under contract with a single outcome is fine)."""
    if g.ifs or not (isinstance(g.target, ast.Tuple) and len(g.target.elts) == 2 and all(isinstance(x, ast.Name) for x in g.target.elts)
                     and isinstance(e.key, ast.Name) and e.key.id == g.target.elts[0].id):
        raise Unsupported('dict comprehension shape over the items of an opaque dict')
    n = smt.dlen(t)
    j = smt.fresh('dj', I)
    c1 = c0.fork()
    c1.assume(j >= 0, j < n)
    c1.bind(g.target.elts[0].id, S(smt.dkey(t)[j]))
    c1.bind(g.target.elts[1].id, S(smt.dval(t)[j]))
    outs = list(eng.ev(e.value, c1))
    if len(outs) != 1 or isinstance(outs[0][1], Raised):
        raise Unsupported('comprehension body forks or raises over a symbolic sequence')
    c2, val = outs[0]
    if c2.st is not c1.st:
        raise Unsupported('comprehension body with side effects over a symbolic sequence')
    npc0 = len(c0.pc) + 2
    extra = c2.pc[npc0:]
    body_t = eng.to_v(c2, val)
    extra = c2.pc[npc0:]
    r = smt.fresh('dictc', V)
    jj = z3.Int('dj_q')
    kk = z3.Const('dj_k', V)
    eng.ext.note('a dict comprehension over d.items() keeps the keys and their order: dkey/dlen/vhas of the result are those of d')
    c0.assume(smt.kind(r) == smt.K_DICT, smt.dlen(r) == n, smt.vlen(r) == smt.vlen(t))
    c0.assume(z3.ForAll([jj], z3.Implies(z3.And(jj >= 0, jj < n),
                                         z3.substitute(z3.And(smt.dkey(r)[j] == smt.dkey(t)[j], smt.dval(r)[j] == body_t, *extra), (j, jj))),
                        patterns=[smt.dval(r)[jj]]))
    c0.assume(z3.ForAll([kk], smt.vhas(r, kk) == smt.vhas(t, kk), patterns=[smt.vhas(r, kk)]))
    yield c0, S(r)


def _comp_unroll(eng, e, ctx, items, acc):
    if not items:
        yield ctx, ctx.alloc('list', PySeq([Fixed(acc)], 'list'))
        return
    g = e.generators[0]
    for c in _bind_target(eng, ctx, g.target, items[0]):
        def body(c):
            for c2, v in eng.ev(e.elt, c):
                if isinstance(v, Raised):
                    yield c2, v
                else:
                    yield from _comp_unroll(eng, e, c2, items[1:], acc + [v])

        def filt(c, conds):
            if not conds:
                yield from body(c)
                return
            for c2, t in eng.ev(conds[0], c):
                if isinstance(t, Raised):
                    yield c2, t
                    continue
                for c3, side in eng.branch(c2, eng.truth(c2, t)):
                    if side:
                        yield from filt(c3, conds[1:])
                    else:
                        yield from _comp_unroll(eng, e, c3, items[1:], acc)
        yield from filt(c, list(g.ifs))
