"""Contracts (sidecar), their use at call sites, and the verification of a function body against its contract."""
import os
import sys
import time
import traceback
import z3
from . import smt, source
from .smt import V, B, I, R, NONE
from .model import State, SV, Leaf
from .vals import S, Obj, PySeq, Fixed, View, Exc, Raised, Unsupported, Value
from .engine import Engine, Ctx, Frame, Oblig, HRef


class Case:
    """One specification case: when(c) -> guard over the pre-state; kind return|raise; post(c) -> {name: Bool}."""
    def __init__(self, name, when=None, kind='return', exc=None, post=None, result=None, tags=None, exc_fields=None,
                 update=None, group=None, result_fresh=None, residual=None, forbid=False, implicit_ok=False):
        self.implicit_ok = implicit_ok     # a catch-all raise case (exc='Exception') also accepts exceptions that an operation of the
        #                                    function's OWN body raised implicitly (KeyError of a subscript, TypeError of a call ...)
        self.forbid = forbid               # no path of this kind may satisfy the guard (e.g. 'must raise here')
        self.residual = residual           # c -> {clause name: weaker Bool}: what must still hold of a clause listed as a known finding
        self.result_fresh = result_fresh   # call sites: builds a fresh result value that `post` then constrains
        self.group = group        # cases of one group with overlapping guards are alternatives (nondeterminism of
        #                           application code): a path must satisfy at least one of them
        self.name, self.when, self.kind, self.exc, self.post, self.result, self.tags = name, when, kind, exc, post, result, tags
        self.exc_fields = exc_fields
        self.update = update      # constructive post-state: update(c) mutates c.ctx.st (used at call sites; the body
        #                           must end in an observationally equal state)


class LoopSpec:
    """inv(c) -> {name: Bool}; c.cur = state at the loop head, c.entry = state at loop entry, c.v = locals (Values),
    c.done = set of processed keys (dict iteration), c.i = index (sequence iteration)."""
    def __init__(self, inv, mod_vars=(), mod_state=(), kinds=None, on_exit=None):
        self.inv, self.mod_vars, self.mod_state, self.kinds = inv, list(mod_vars), list(mod_state), dict(kinds or {})
        self.on_exit = on_exit      # ghost step at loop exit: may emit obligations and update ghost state


class Unwind:
    """A loop that provably runs at most n times: it is unrolled n times and the obligation loop<k>.unwinding-<n>-suffices
    states that no execution reaches iteration n+1 (complete when that passes - an unwinding assertion, not a bound)."""
    def __init__(self, n):
        self.n = n


class Contract:
    def __init__(self, target, schema, self_obj, params, cases, requires=None, modifies=(), loops=None, props=(),
                 must_fail=None, also=(), note='', self_rec=None, app_raises=None, env_hook=None, trusted=False,
                 summary=None, abstraction='', inline=(), thin=False, abstract_calls=(), closure_vars=None):
        self.closure_vars = dict(closure_vars or {})   # free variables of a nested function (Class.method>name): name -> kind
        self.abstract_calls = tuple(abstract_calls)   # callees treated as arbitrary operations here: any state change within modifies, may raise any Exception
        self.thin = thin              # a thin wrapper whose contract speaks about the calls it makes: callers execute its body
        self.inline = set(inline)     # callees executed from their body here although they have a contract
        self.summary = summary        # cases used at call sites when they speak about an abstract effect that the
        self.abstraction = abstraction  # body cases define (stated in `abstraction`)
        self.target = target          # 'module.Class.method'
        self.schema = schema
        self.self_obj = self_obj
        self.params = params          # name -> kind spec
        self.cases = cases
        self.requires = requires or (lambda c: {})
        self.modifies = list(modifies)
        self.loops = loops or {}
        self.props = list(props)
        self.must_fail = must_fail    # c -> {name: Bool}: clauses that must be refuted (canaries)
        self.also = list(also)        # twin targets verified against the same contract
        self.note = note
        self.self_rec = self_rec
        self.app_raises = app_raises
        self.env_hook = env_hook
        self.trusted = trusted        # assumed, body not verified (listed as such)
        self.labels = {}              # target -> name used in obligation names (inherited methods verified per subclass)

    def targets(self):
        return [self.target] + self.also


class Registry:
    def __init__(self):
        self.by_target = {}
        self.contracts = []

    def add(self, c, index=True):
        self.contracts.append(c)
        if index:
            for t in c.targets():
                self.by_target[t] = c
        return c

    def lookup(self, qual, obj, schema):
        return self.by_target.get(qual)


def effect_of_call(contract, c, argvals, kind, exc_matches=None):
    """The effect of calling a function under contract with the given argument values, as a formula over (c.pre, c.post):
    some case of the given kind applies and its postcondition holds.  Lets a dispatcher's contract say 'has exactly the
    effect of f(args)' without restating f's contract."""
    sh = CallCtx(c.eng, c.ctx, c.pre, c.post, dict(argvals), result=c.result, exc=c.exc, self_obj=c.self_obj)
    alts = []
    for case in contract.cases:
        if case.kind != kind:
            continue
        g = case.when(sh) if case.when else z3.BoolVal(True)
        parts = [g]
        from .model import sv_equiv as _eqv
        if case.update is not None:
            cx = c.ctx.fork()
            cx.st = c.pre
            ce = CallCtx(c.eng, cx, c.pre, c.pre, dict(argvals), result=c.result, exc=c.exc, self_obj=c.self_obj)
            case.update(ce)
            extra = cx.pc[len(c.ctx.pc):]
            for key in contract.modifies:
                if cx.st.f[key] is c.post.f[key]:
                    continue
                e_ = _eqv(c.post.f[key], cx.st.f[key])
                parts.append(z3.Implies(z3.And(*extra), e_) if extra else e_)
        if case.post is not None:
            parts += list(case.post(sh).values())
        # the callee's frame: what it does not modify is unchanged
        for key, sv in c.post.f.items():
            if key not in contract.modifies and sv is not c.pre.f[key]:
                parts.append(_eqv(sv, c.pre.f[key]))
        alts.append(z3.And(*parts))
    return z3.Or(*alts) if alts else z3.BoolVal(False)


def delegated(c, target_suffix, expected, kind=None, allow_before=(), changed_before=(), changed_after=()):
    """The path made exactly one call to the function under contract whose name ends with target_suffix, with the expected
    argument values, from the pre-state, and ended in the state that call left (nothing else touched the state)."""
    from .model import sv_equiv as _eqv
    calls = [n for n in c.ctx.notes if n[0] == 'called' and not any(n[1].endswith(a) for a in allow_before)]
    d = {'exactly-one-call': z3.BoolVal(len(calls) == 1 and calls[0][1].endswith(target_suffix))}
    if not (len(calls) == 1 and calls[0][1].endswith(target_suffix)):
        return d
    _, tgt, vals, st0, st1, k = calls[0]
    if kind is not None:
        d['outcome-of-that-call'] = z3.BoolVal(k == kind)
    for name, exp in expected.items():
        if name not in vals:
            d['argument.' + name] = z3.BoolVal(False)
            continue
        d['argument.' + name] = c.eng.to_v(c.ctx, vals[name]) == (exp if isinstance(exp, z3.ExprRef) else c.eng.to_v(c.ctx, exp))
    before = [_eqv(st0.f[key], c.pre.f[key]) for key in st0.f if st0.f[key] is not c.pre.f[key] and key not in changed_before]
    after = [_eqv(c.post.f[key], st1.f[key]) for key in st1.f if st1.f[key] is not c.post.f[key] and key not in changed_after]
    d['called-from-the-pre-state'] = z3.And(*before) if before else z3.BoolVal(True)
    d['nothing-else-changes-the-state'] = z3.And(*after) if after else z3.BoolVal(True)
    return d


class NS:
    def __init__(self, d):
        self.__dict__.update(d)

    def __getitem__(self, k):
        return self.__dict__[k]


class CallCtx:
    """What a contract clause can talk about."""
    def __init__(self, eng, ctx, pre, post, args, result=None, exc=None, self_obj=None):
        self.eng, self.ctx, self.pre, self.post, self.vals, self.result, self.exc, self.self_obj = eng, ctx, pre, post, args, result, exc, self_obj
        self._a = None

    @property
    def a(self):
        """arguments as z3 terms where they are scalars"""
        if self._a is None:
            d = {}
            for k, v in self.vals.items():
                if isinstance(v, S):
                    d[k] = v.t
                else:
                    d[k] = v
            self._a = NS(d)
        return self._a

    def v(self, val):
        return self.eng.to_v(self.ctx, val)

    def res_v(self):
        return self.eng.to_v(self.ctx, self.result)


def make_param(eng, ctx, name, kind):
    if callable(kind):
        return kind(eng, ctx, name)
    if kind == 'V':
        return S(z3.Const('p_' + name, V))
    if kind == 'I':
        return S(z3.Const('p_' + name, I))
    if kind == 'B':
        return S(z3.Const('p_' + name, B))
    if kind == 'R':
        return S(z3.Const('p_' + name, R))
    if isinstance(kind, tuple) and kind[0] == 'obj':
        return Obj(kind[1])
    if isinstance(kind, tuple) and kind[0] == 'seq':
        arr = z3.Const('p_%s_arr' % name, z3.ArraySort(I, V))
        n = z3.Const('p_%s_len' % name, I)
        ctx.assume(n >= 0)
        seq = PySeq([View(arr, z3.IntVal(0), n)], kind[1])
        return seq if kind[1] == 'tuple' else ctx.alloc('list', seq)
    raise ValueError('param kind %r' % (kind,))


def coerce_arg(eng, ctx, val, kind):
    """At a call site: bring an actual argument to the shape the contract's clauses expect."""
    if callable(kind):
        return val
    if kind == 'V':
        return S(eng.to_v(ctx, val))
    if kind == 'I':
        return S(eng.to_i(ctx, val))
    if kind == 'B':
        return S(eng.truth(ctx, val)) if not (isinstance(val, S) and val.sort == 'B') else val
    return val


def apply_at_call(eng, ctx, contract, obj, node, args, kwargs, qual, self_val=None):
    """Modular call: assert the precondition, fork over the cases, havoc the frame, assume the postcondition."""
    eng.used_contracts.add(contract.target)
    node_p = source.prepared(node)
    b = eng.bind_params(ctx, node_p, args, kwargs, skip_self=True)
    if b[0] == 'arity':
        yield ctx, Raised(Exc('TypeError'))
        return
    if b[0] == 'symbolic-arity':
        raise Unsupported('call of %s with a symbolic number of positional arguments' % qual)
    bound, missing = b
    # defaults are evaluated in the callee's module
    if missing:
        fid = ctx.new_id()
        mod = qual.split('.')[0]
        ctx.frames[fid] = Frame({}, None, obj, None, '<defaults>', mod)
        old = ctx.fid
        ctx.fid = fid
        for p, dexpr in missing.items():
            res = list(eng.ev(dexpr, ctx))
            if len(res) != 1 or isinstance(res[0][1], Raised):
                raise Unsupported('default of %s.%s' % (qual, p))
            bound[p] = res[0][1]
        ctx.fid = old
        del ctx.frames[fid]
    vals = {}
    for p, kind in contract.params.items():
        if p not in bound:
            raise Unsupported('contract of %s names parameter %s which the function does not have' % (qual, p))
        vals[p] = coerce_arg(eng, ctx, bound[p], kind)
    for p in bound:
        if p not in vals:
            vals[p] = bound[p]
    if self_val is not None:
        vals['self'] = self_val
    c0 = CallCtx(eng, ctx, ctx.st, ctx.st, vals, self_obj=obj)
    req = contract.requires(c0) or {}
    for rn, rt in req.items():
        if rn.startswith('assume:') or rn.startswith('dom.'):
            # 'dom.*' clauses delimit the domain of the property for the body proof (names like '*' that the
            # statement excludes); the summary is used at call sites without them -- listed as an assumption
            continue
        eng.oblig('call:%s/pre.%s' % (contract.target, rn), ctx, rt, kind='callpre')
    guards = []
    site_cases = contract.summary if contract.summary is not None else contract.cases
    for case in site_cases:
        g = case.when(c0) if case.when else z3.BoolVal(True)
        guards.append(g)
    any_case = False
    for case, g in zip(site_cases, guards):
        g = z3.simplify(g) if not smt.is_quantified(g) else g
        if z3.is_false(g):
            continue
        if not eng.feasible(ctx, [g]):
            continue
        any_case = True
        c = ctx.fork()
        c.assume(g)
        pre = c.st
        cc = CallCtx(eng, c, pre, c.st, vals, self_obj=obj)
        if case.update is not None:
            case.update(cc)
        else:
            c.st = c.st.havoc(contract.modifies, 'after_' + contract.target.split('.')[-1])
        cc.post = c.st
        result = None
        if case.kind == 'return':
            if case.result is None:
                result = S(NONE)
            elif case.result == 'V':
                result = S(smt.fresh('res_' + contract.target.split('.')[-1], V))
            elif case.result == 'B':
                result = S(smt.fresh('res_' + contract.target.split('.')[-1], B))
            elif case.result == 'I':
                result = S(smt.fresh('res_' + contract.target.split('.')[-1], I))
            elif callable(case.result):
                result = case.result(cc)
            if case.result_fresh is not None:
                result = case.result_fresh(cc)
            cc.result = result
        else:
            fields = case.exc_fields(cc) if case.exc_fields else {}
            cc.exc = Exc(case.exc, [], fields)
            cc.exc.origin = 'callee-contract'
        post = case.post(cc) if case.post else {}
        for pn, pt in post.items():
            c.assume(pt)
        c.notes.append(('called', contract.target, dict(vals), pre, c.st, case.kind))
        if case.kind == 'return':
            yield c, result
        else:
            yield c, Raised(cc.exc)
    if not any_case:
        # no case applies on this path: the precondition obligation above fails, nothing continues
        return


class Result:
    """Outcome of verifying one function against one contract."""
    def __init__(self, target, contract):
        self.target = target
        self.contract = contract
        self.obligations = []     # dicts: name, status, backend, time_s, paths, kind, tags
        self.status = 'ok'        # ok | unverifiable | error
        self.reason = ''
        self.paths = 0
        self.feasible_paths = 0
        self.src_hash = ''
        self.assumed = []
        self.inlined = []
        self.callees = []
        self.time_s = 0.0
        self.stats = {}

    def to_json(self):
        d = dict(self.__dict__)
        d.pop('contract')
        return d


def find_target(target):
    inner = None
    if '>' in target:
        target, inner = target.split('>')
    mod, cname, meth = target.split('.')
    found = source.find_method(mod, cname, meth)
    if not found or found[0] != mod or found[1] != cname:
        return None
    if inner is not None:
        # a function defined inside the method (a closure over self): Class.method>name
        import ast as _ast
        for n in _ast.walk(found[2]):
            if isinstance(n, (_ast.FunctionDef, _ast.AsyncFunctionDef)) and n is not found[2] and n.name == inner:
                return (found[0], found[1], n)
        return None
    return found


_LOOP_SIGS = None


def recorded_loop_sigs():
    """expected/loop_sigs.json: per target under contract with loop invariants, the signatures of its loops on the unchanged tree"""
    global _LOOP_SIGS
    if _LOOP_SIGS is None:
        import json as _json, os as _os
        p_ = _os.path.join(_os.path.dirname(_os.path.dirname(_os.path.abspath(__file__))), 'expected', 'loop_sigs.json')
        try:
            _LOOP_SIGS = _json.load(open(p_))
        except (OSError, ValueError):
            _LOOP_SIGS = {}
    return _LOOP_SIGS


BASELINE_NAMES = set()  # obligations proved on the unchanged tree: always examined, never skipped after other failures
KNOWN_OPEN = set()      # obligation names listed as open known findings: only a short attempt is made on them


def verify(contract, target, make_engine, seed=0, timeout_ms=10000, both=False, want_models=True):
    """Verify the body of `target` against `contract`.  make_engine() -> Engine wired with registry and externals."""
    t0 = time.time()
    res = Result(target, contract)
    if contract.trusted:
        res.status = 'trusted'
        return res
    found = find_target(target)
    if found is None:
        res.status = 'missing'
        res.reason = 'function %s not found in the source tree' % target
        return res
    mod, cname, node = found
    res.src_hash = source.fn_hash(node)
    eng = make_engine()
    eng.current = contract
    eng.seed = seed
    if contract.app_raises is not None:
        eng.ext.app_raises = list(contract.app_raises)
    try:
        _verify_body(eng, contract, target, mod, cname, node, res, seed, timeout_ms, both, want_models)
    except Unsupported as e:
        res.status = 'unverifiable'
        res.reason = 'outside subset: %s' % e
    except RecursionError:
        res.status = 'unverifiable'
        res.reason = 'recursion limit'
    except Exception as e:
        res.status = 'error'
        res.reason = 'engine error: %s\n%s' % (e, traceback.format_exc())
    res.assumed = sorted(set(eng.ext.assumed) | {'domain / assumed precondition of %s (not demanded of its callers): %s' % (target, n_) for n_ in getattr(res, 'dom_clauses', [])})
    res.inlined = sorted(eng.inlined)
    res.callees = sorted(eng.used_contracts)
    res.time_s = round(time.time() - t0, 3)
    res.stats = dict(eng.stats)
    res.stats.update(getattr(res, 'stats_phases', {}))
    if getattr(res, 'cvc5_cross', None):
        res.stats['cvc5_cross'] = res.cvc5_cross
    return res


def _verify_body(eng, contract, target, mod, cname, node, res, seed, timeout_ms, both, want_models):
    _t0 = time.time()
    tname = contract.labels.get(target, target)
    fn = source.prepared(node)
    fn._pyvc_prepared = True
    from .loops import number_loops
    number_loops(fn, recorded_loop_sigs().get(target))
    schema = contract.schema
    ctx = Ctx()
    ctx.st = State.fresh(schema, 'pre')
    pos, defaults, vararg, kwonly, kwarg = source.signature(fn)
    vars = {}
    is_method = bool(pos) and pos[0] in ('self', 'cls')
    if is_method:
        if contract.self_rec is not None:
            vars[pos[0]] = None   # filled below
        else:
            vars[pos[0]] = Obj(contract.self_obj)
    if '>' in target and contract.self_obj is not None and not is_method:
        vars['self'] = Obj(contract.self_obj)      # the closure's free variable
    for cv_, ck_ in getattr(contract, 'closure_vars', {}).items():
        vars[cv_] = make_param(eng, ctx, cv_, ck_)
    eng.current_node = node
    fid = ctx.new_id()
    ctx.frames[fid] = Frame(vars, None, contract.self_obj, (mod, cname), fn.name, mod)
    from .engine import assigned_names
    ctx.frames[fid].assigned = assigned_names(fn)
    ctx.fid = fid
    if is_method and contract.self_rec is not None:
        vars[pos[0]] = contract.self_rec(eng, ctx)
    names = pos[1:] if is_method else pos
    all_params = names + ([vararg] if vararg else []) + kwonly + ([kwarg] if kwarg else [])
    import ast as _ast
    for p in all_params:
        if p not in contract.params:
            d_ = defaults.get(p)
            if isinstance(d_, _ast.Constant) and p not in (vararg, kwarg):
                # a parameter the contract does not know, with a constant default: the callers the contract describes never pass
                # it, so the body is verified with the default (a new optional parameter is not by itself a reason to give up)
                outs_ = list(eng.ev(d_, ctx))
                if len(outs_) == 1:
                    vars[p] = outs_[0][1]
                    eng.ext.note('parameter %r of %s is not in the contract; verified with its default value' % (p, tname))
                    continue
            raise Unsupported('contract of %s does not declare parameter %r (signature changed?)' % (tname, p))
        vars[p] = make_param(eng, ctx, p, contract.params[p])
    if kwarg and kwarg in vars:
        # Python binds a keyword argument to a named parameter before it reaches **kwargs
        from .engine import HRef as _HRef
        kwv_ = vars[kwarg]
        if isinstance(kwv_, _HRef) and ctx.heap[kwv_.id].kind == 'map' and isinstance(ctx.heap[kwv_.id].data, dict):
            for p in all_params:
                if p not in contract.params and smt.atom(p) in ctx.heap[kwv_.id].data:
                    vars[p] = ctx.heap[kwv_.id].data.pop(smt.atom(p))
    for p in contract.params:
        if p not in all_params:
            raise Unsupported('contract of %s declares parameter %r which the function does not have' % (tname, p))
    if contract.env_hook:
        contract.env_hook(eng, ctx)
    pre = ctx.st
    args = {p: vars[p] for p in all_params if p in contract.params}
    for cv_ in getattr(contract, 'closure_vars', {}):
        args[cv_] = vars[cv_]
    if is_method:
        args['self'] = vars[pos[0]]
    c0 = CallCtx(eng, ctx, pre, pre, args, self_obj=contract.self_obj)
    req = contract.requires(c0) or {}
    res.dom_clauses = sorted(n_ for n_ in req if n_.startswith(('dom.', 'assume:')))
    req_terms = list(req.values())
    for t in req_terms:
        ctx.assume(t)
    # vacuity of the precondition
    r = smt.check_sat(list(ctx.pc), timeout_ms=5000, seed=seed)
    res.obligations.append({'name': '%s/requires-satisfiable' % tname, 'status': 'proved' if r != 'unsat' else 'refuted',
                            'kind': 'vacuity', 'backend': 'z3', 'time_s': 0, 'paths': 1, 'note': r})
    outs = []
    for o in eng.exec_block(fn.body, ctx):
        if o.kind == 'next':
            o.kind, o.val = 'return', S(NONE)
        if o.kind in ('break', 'continue'):
            raise Unsupported('break/continue outside loop')
        outs.append(o)
    res.paths = len(outs)
    if os.environ.get('PYVC_DEBUG_OUTS'):
        for o in outs:
            print('OUT', o.kind, getattr(o.val, 'cls', o.val), len(o.ctx.pc), sorted(set(n[1].split('.')[-1] for n in o.ctx.notes if n[0] == 'called')), file=sys.stderr)
    eng.stats['paths'] = len(outs)
    if not outs:
        raise Unsupported('no feasible path through the function')
    # ---- obligations generated while executing (callee preconditions, loop invariants)
    agg = {}

    bundles = {}      # bundle key -> [(name, index in agg item list)]: obligations that share their hypotheses
    bcount = [0]

    def add(name, hyps, goal, kind, tags=(), expect='proved', bundle=None):
        it = agg.setdefault(name, {'kind': kind, 'items': [], 'tags': tuple(tags), 'expect': expect})['items']
        it.append((hyps, goal))
        if bundle is not None and expect == 'proved':
            bundles.setdefault(bundle, []).append((name, len(it) - 1))

    for ob in eng.obligs:
        add('%s/%s' % (tname, ob.name), ob.hyps, ob.goal, ob.kind, bundle=('o', ob.info.get('bundle')) if ob.info.get('bundle') else None)
    if '%s/frame.no-write-through-a-live-view' % tname not in agg:
        # no local that is a live view of a state container (a dict used without .copy()) is written to: part of every baseline
        add('%s/frame.no-write-through-a-live-view' % tname, [], z3.BoolVal(True), 'frame')
    # ---- totality of the cases
    guards = [(case.when(c0) if case.when else z3.BoolVal(True)) for case in contract.cases]
    add('%s/cases-total' % tname, list(ctx.pc[:len(ctx.pc)]) if False else req_terms + _param_facts(ctx), z3.Or(*guards), 'total')
    # ---- per path: the outcome must be allowed by some case of its kind; every such case's postcondition holds
    from .model import sv_equiv
    for o in outs:
        c = o.ctx
        okind = 'return' if o.kind == 'return' else 'raise:' + o.val.cls
        matching = []
        for case, g in zip(contract.cases, guards):
            if (case.kind == 'return' and o.kind == 'return') or \
                    (case.kind == 'raise' and o.kind == 'raise' and _exc_matches(o.val, case.exc)):
                if case.kind == 'raise' and case.exc in ('Exception', 'BaseException') and not case.implicit_ok and not case.forbid \
                        and getattr(o.val, 'origin', None) is None and not getattr(o.val, 'from_app', False):
                    # an exception that an operation of this body raised by itself is not "a handler raised": a case that
                    # means to allow it names its class or says implicit_ok
                    continue
                matching.append((case, g))
        allow = [g for cs_, g in matching if not cs_.forbid]
        add('%s/outcome.%s' % (tname, okind), list(c.pc), z3.Or(*allow) if allow else z3.BoolVal(False), 'outcome')
        groups = {}
        for case, g in matching:
            if case.forbid:
                add('%s/%s.never' % (tname, case.name), list(c.pc) + [g], z3.BoolVal(False), 'post')
                continue
            groups.setdefault(case.group or case.name, []).append((case, g))
        for gname, members in groups.items():
            alts = []
            for case, g in members:
                cname_ = case.name
                cc = CallCtx(eng, c, pre, c.st, args, self_obj=contract.self_obj)
                if o.kind == 'return':
                    cc.result = o.val
                else:
                    cc.exc = o.val
                clauses = {}
                if case.update is not None:
                    # expected state = update applied to the pre-state, on a scratch copy of this path
                    cx = c.fork()
                    cx.st = pre
                    ce = CallCtx(eng, cx, pre, pre, args, self_obj=contract.self_obj)
                    ce.result, ce.exc = cc.result, cc.exc
                    case.update(ce)
                    extra = cx.pc[len(c.pc):]
                    for key in contract.modifies:
                        if cx.st.f[key] is c.st.f[key]:
                            continue
                        eqv = sv_equiv(c.st.f[key], cx.st.f[key])
                        clauses['state[%s.%s]' % key] = z3.Implies(z3.And(*extra), eqv) if extra else eqv
                    for key in cx.st.f:
                        if key not in contract.modifies and cx.st.f[key] is not pre.f[key]:
                            raise ValueError('update of %s.%s writes %s outside modifies' % (tname, cname_, key))
                if case.result is not None and callable(case.result) and o.kind == 'return':
                    exp = case.result(cc)
                    if exp is not None:
                        clauses['result'] = eng.equal(c, o.val, exp)
                post = case.post(cc) if case.post else {}
                clauses.update(post)
                if case.residual is not None:
                    for rn, rt in (case.residual(cc) or {}).items():
                        clauses[rn + '#residual'] = rt
                alts.append((case, g, clauses))
            hyps0 = list(c.pc)
            fr = []
            for key, sv in c.st.f.items():
                if key in contract.modifies:
                    continue
                if sv is not pre.f[key]:
                    fr.append(sv_equiv(sv, pre.f[key]))
            frame = z3.And(*fr) if fr else z3.BoolVal(True)
            if len(alts) == 1:
                case, g, clauses = alts[0]
                hyps = hyps0 + [g]
                bcount[0] += 1
                for pn, pt in clauses.items():
                    add('%s/%s.%s' % (tname, case.name, pn), hyps, pt, 'post', case.tags or (), bundle=('p', bcount[0]))
                add('%s/%s.frame' % (tname, case.name), hyps, frame, 'frame', case.tags or (), bundle=('p', bcount[0]))
                add('%s/%s.reach' % (tname, case.name), hyps, z3.BoolVal(False), 'reach', expect='refuted-somewhere')
            else:
                anyg = z3.Or(*[g for _, g, _ in alts])
                goal = z3.Or(*[z3.And(g, *cl.values()) for _, g, cl in alts])
                nm_ = '%s/%s.any-of[%s]' % (tname, gname, '|'.join(cs.name for cs, _, _ in alts))
                add(nm_, hyps0 + [anyg], goal, 'post')
                # a path usually realises one fixed alternative: those are tried one by one before the disjunction
                agg[nm_].setdefault('alts', {})[len(agg[nm_]['items']) - 1] = [z3.And(g, *cl.values()) for _, g, cl in alts]
                add('%s/%s.frame' % (tname, gname), hyps0 + [anyg], frame, 'frame')
                for case, g, cl in alts:
                    # each alternative must be realised by some path (otherwise it is dead specification)
                    add('%s/%s.reach' % (tname, case.name), hyps0 + [g] + list(cl.values()), z3.BoolVal(False), 'reach', expect='refuted-somewhere')
            if contract.must_fail:
                for case, g, _ in alts:
                    cc = CallCtx(eng, c, pre, c.st, args, self_obj=contract.self_obj)
                    cc.result = o.val if o.kind == 'return' else None
                    cc.exc = o.val if o.kind == 'raise' else None
                    for mn, mt in (contract.must_fail(cc) or {}).items():
                        if mn.startswith(case.name + ':'):
                            add('%s/canary.%s' % (tname, mn), hyps0 + [g], mt, 'canary', expect='refuted-somewhere')
    # a forbidden outcome that no path produces: recorded as an (empty) obligation so that it is part of the baseline and a
    # change that makes the outcome possible is measured against it
    for case in contract.cases:
        nm_ = '%s/%s.never' % (tname, case.name)
        if case.forbid and nm_ not in agg:
            add(nm_, [], z3.BoolVal(True), 'post')
    # a case that no path of the body realises is dead specification (or a hole in the executor's model of the environment)
    for case in contract.cases:
        nm_ = '%s/%s.reach' % (tname, case.name)
        if not case.forbid and nm_ not in agg:
            add(nm_, [z3.BoolVal(False)], z3.BoolVal(False), 'reach', expect='refuted-somewhere')
            agg[nm_]['dead'] = True
    # ---- discharge (fork-parallel): phase 1 bundles (obligations sharing their hypotheses, tried as one conjunction),
    # phase 2 the remaining obligations, each name handled entirely by one worker
    import os as _os
    _t_build = time.time()
    nworkers = max(1, int(_os.environ.get('PYVC_INNER_JOBS', '1')))
    nqueries = sum(len(it['items']) for it in agg.values())
    if nqueries < 150:
        nworkers = 1

    def phase1(keys):
        out = []
        fails = 0
        for bkey in keys:
            members = bundles[bkey]
            if len(members) < 2:
                continue
            if fails >= 3:
                break
            hyps = agg[members[0][0]]['items'][members[0][1]][0]
            members = [(n, i) for n, i in members if n not in KNOWN_OPEN]
            goals = [agg[n]['items'][i][1] for n, i in members]
            goals = [g for g in goals if not z3.is_true(g)]
            if not goals:
                continue
            import zlib as _zl
            sample = both and _zl.crc32(repr(bkey).encode()) % 4 == 0        # thorough tier: every fourth bundle is re-proved by cvc5
            r = smt.prove(hyps, z3.And(*goals), timeout_ms=timeout_ms, seed=seed, quick_only=True, both=sample)
            if 'cvc5' in r:
                out.append(['#cvc5:%s:%s' % (r['cvc5'], members[0][0]), -1])
            if r['status'] == 'proved':
                out += [[n, i] for n, i in members]
            else:
                fails += 1
        return out

    pre_proved = set()
    cvc5_cross = {}
    _t_p1 = time.time()
    for part in _fork_map(phase1, _chunks(list(bundles.keys()), nworkers)):
        for n, i in part:
            if isinstance(n, str) and n.startswith('#cvc5:'):
                _, verdict, oname = n.split(':', 2)
                cvc5_cross[verdict] = cvc5_cross.get(verdict, 0) + 1
                if verdict == 'sat':
                    cvc5_cross.setdefault('disagreements', []).append(oname)
                continue
            pre_proved.add((n, i))

    SLICE = 24

    def phase2(units):
        obs = []
        failed = 0
        for name, lo, hi in units:
            full = agg[name]
            item = dict(full)
            item['items'] = full['items'][lo:hi]
            item['alts'] = {k - lo: v for k, v in full.get('alts', {}).items() if lo <= k < hi}
            base_ = lo
            t1 = time.time()
            if failed >= 3 and item['expect'] == 'proved' and name not in BASELINE_NAMES:
                # this worker already saw three failing obligations: the rest is not examined (reported as skipped)
                if all(z3.is_true(g) or (name, base_ + i_) in pre_proved for i_, (h_, g) in enumerate(item['items'])):
                    st_ = 'proved'
                else:
                    st_ = 'skipped'
                obs.append({'name': name, 'status': st_, 'kind': item['kind'], 'backend': 'z3' if st_ == 'proved' else 'none',
                            'time_s': 0, 'paths': len(item['items']), 'tags': list(item['tags'])})
                continue
            statuses = []
            cross = []
            backend = set()
            model_txt = None
            for idx_, (hyps, goal) in enumerate(item['items']):
                if z3.is_true(goal) or (name, base_ + idx_) in pre_proved:
                    statuses.append('proved')
                    backend.add('z3')
                    continue
                if item['expect'] == 'refuted-somewhere' and 'refuted' in statuses:
                    break
                if item['expect'] == 'proved':
                    r = None
                    for alt in item.get('alts', {}).get(idx_, []):
                        # an alternative one of whose quantifier-free conjuncts contradicts the path is not this path's
                        qf = [cj for cj in alt.children() if not smt.is_quantified(cj)]
                        if qf and smt.check_sat(list(hyps) + qf, timeout_ms=2000, seed=seed) == 'unsat':
                            continue
                        r = smt.prove(hyps, alt, timeout_ms=timeout_ms, seed=seed, quick_only=True)
                        if r['status'] == 'proved':
                            break
                    if r is None or r['status'] != 'proved':
                        import zlib as _zlib
                        both_here = both and idx_ == 0 and _zlib.crc32(name.encode()) % 6 == 0     # thorough tier: a fixed sample is re-proved by cvc5
                        r = smt.prove(hyps, goal, timeout_ms=timeout_ms, seed=seed, both=both_here, quick_only=(failed >= 2 or name in KNOWN_OPEN))
                        if 'cvc5' in r:
                            cross.append(r['cvc5'])
                        if r['status'] == 'undecided' and failed < 2 and name not in KNOWN_OPEN:
                            # no answer is not a refutation: one patient retry, so that a busy machine does not flip the verdict
                            r_prev = r
                            r = smt.prove(hyps, goal, timeout_ms=timeout_ms, seed=seed + 7, quick_only=True, patient=True)
                            if r['status'] == 'undecided' and r_prev.get('model') is not None:
                                r['model'], r['reason'] = r_prev['model'], r_prev.get('reason')
                else:
                    r = smt.refute_qf(hyps, goal, seed=seed)
                statuses.append(r['status'])
                backend.add(r['backend'])
                if _os.environ.get('PYVC_DEBUG') and _os.environ['PYVC_DEBUG'] in name and r['status'] != 'proved' and item['expect'] == 'proved':
                    print('=== DEBUG %s: %s' % (name, r['status']))
                    for h in hyps:
                        print('  HYP', str(h).replace('\n', ' ')[:400])
                    print('  GOAL', str(goal).replace('\n', ' ')[:800])
                    if z3.is_or(goal):
                        for di, dj in enumerate(goal.children()):
                            for ci, conj in enumerate(dj.children() if z3.is_and(dj) else [dj]):
                                rr = smt.prove(hyps, conj, timeout_ms=4000, seed=seed, quick_only=True)
                                print('   DISJUNCT', di, 'conjunct', ci, rr['status'], str(conj).replace('\n', ' ')[:140])
                    for ai, alt in enumerate(item.get('alts', {}).get(idx_, [])):
                        for ci, conj in enumerate(alt.children()):
                            rr = smt.prove(hyps, conj, timeout_ms=4000, seed=seed, quick_only=True)
                            print('   ALT', ai, 'conjunct', ci, rr['status'], str(conj).replace('\n', ' ')[:160])
                if r['status'] in ('refuted', 'undecided') and r.get('model') is not None and item['expect'] == 'proved' and model_txt is None and want_models:
                    model_txt = _model_text(r.get('model'), hyps)
                if r['status'] != 'proved' and item['expect'] == 'proved':
                    break
            if item['expect'] == 'proved':
                st = 'proved' if all(s == 'proved' for s in statuses) else ('refuted' if 'refuted' in statuses else 'undecided')
            else:
                st = 'proved' if 'refuted' in statuses else ('vacuous' if all(s == 'proved' for s in statuses) else 'undecided')
            if st != 'proved' and item['expect'] == 'proved' and name not in KNOWN_OPEN:
                failed += 1
            ob = {'name': name, 'status': st, 'kind': item['kind'], 'backend': '+'.join(sorted(backend)) or 'syntactic',
                  'time_s': round(time.time() - t1, 4), 'paths': len(item['items']), 'tags': list(item['tags'])}
            if cross:
                ob['cvc5_cross_check'] = list(cross)
            if item.get('dead'):
                ob['status'] = 'dead-case'      # no path of the body realises this case of the contract
                ob['paths'] = 0
            if 'why' in item:
                ob['why'] = sorted(item['why'])
            if model_txt:
                ob['model'] = model_txt
            obs.append(ob)
        return obs

    _t_p2 = time.time()
    order = {n: k for k, n in enumerate(agg)}
    units = []
    for n_, it_ in agg.items():
        m_ = len(it_['items'])
        if nworkers > 1 and m_ > SLICE and it_['expect'] == 'proved':
            units += [(n_, a_, min(m_, a_ + SLICE)) for a_ in range(0, m_, SLICE)]
        else:
            units.append((n_, 0, m_))
    got = []
    for part in _fork_map(phase2, _chunks(units, nworkers, interleave=True)):
        got += part
    # merge the slices of one obligation: proved iff every slice is
    merged = {}
    rank = {'refuted': 4, 'undecided': 3, 'vacuous': 2, 'skipped': 1, 'dead-case': 0, 'proved': 0}
    for o in got:
        m = merged.get(o['name'])
        if m is None:
            merged[o['name']] = o
            continue
        m['paths'] += o['paths']
        m['time_s'] = round(m['time_s'] + o['time_s'], 4)
        if rank[o['status']] > rank[m['status']]:
            m['status'] = o['status']
            for k_ in ('model', 'why'):
                if k_ in o:
                    m[k_] = o[k_]
        m['backend'] = '+'.join(sorted(set(m['backend'].split('+')) | set(o['backend'].split('+')) - {'none'})) or m['backend']
    got = sorted(merged.values(), key=lambda o: order[o['name']])
    res.obligations += got
    res.cvc5_cross = cvc5_cross
    res.stats_phases = {'exec+build_s': round(_t_build - _t0, 1), 'bundles_s': round(_t_p2 - _t_p1, 1), 'rest_s': round(time.time() - _t_p2, 1),
                        'queries': nqueries, 'workers': nworkers}
    res.feasible_paths = len(outs)


def _chunks(xs, k, interleave=False):
    if k <= 1 or len(xs) <= 1:
        return [xs]
    k = min(k, len(xs))
    if interleave:
        return [xs[i::k] for i in range(k)]
    n = (len(xs) + k - 1) // k
    return [xs[i:i + n] for i in range(0, len(xs), n)]


def _fork_map(fn, parts):
    """Run fn(part) for every part, each in a forked child (the z3 terms live in the parent's memory image); results
    come back as JSON through a pipe.  With a single part, runs in-process."""
    import json as _json
    import os as _os
    parts = [p for p in parts if p]
    if len(parts) <= 1:
        return [fn(p) for p in parts]
    kids = []
    for part in parts:
        r, w = _os.pipe()
        pid = _os.fork()
        if pid == 0:
            code = 0
            try:
                _os.close(r)
                import signal as _signal
                _signal.alarm(0)
                out = fn(part)
                data = _json.dumps({'ok': out}).encode()
            except BaseException as e:      # noqa
                import traceback as _tb
                data = _json.dumps({'err': '%s\n%s' % (e, _tb.format_exc())}).encode()
                code = 1
            try:
                with _os.fdopen(w, 'wb') as f:
                    f.write(data)
            finally:
                _os._exit(code)
        _os.close(w)
        kids.append((pid, r))
    results = []
    err = None
    for pid, r in kids:
        with _os.fdopen(r, 'rb') as f:
            data = f.read()
        _os.waitpid(pid, 0)
        try:
            d = _json.loads(data.decode())
        except Exception:
            d = {'err': 'worker died without a result'}
        if 'err' in d:
            err = d['err']
        else:
            results.append(d['ok'])
    if err is not None:
        raise RuntimeError('discharge worker failed: ' + err)
    return results


def _param_facts(ctx):
    return [c for c in ctx.pc if not smt.is_quantified(c)][:0]


def _exc_matches(exc, cls):
    from .vals import exc_isa
    return exc_isa(exc.cls, cls)


def _model_text(model, hyps, limit=60):
    if model is None:
        return 'refuted by cvc5 (no model extracted)'
    lines = []
    try:
        for d in model.decls():
            n = d.name()
            if '!' in n and not n.startswith(('p_', 'pre.')):
                continue
            lines.append('%s = %s' % (n, model[d]))
            if len(lines) >= limit:
                break
    except Exception as e:
        lines.append('model unavailable: %s' % e)
    return '\n'.join(lines)
