"""Extraction: the verified text is the code on disk.  Reads /repo/src/socketio/*.py on every run (never imports
it), finds functions by qualified name through the class hierarchy, erases async/await (DESIGN.md section 5),
and records a hash of what was handed to the executor."""
import ast
import copy
import hashlib
import os

REPO_ROOT = os.environ.get('VERIF_REPO_ROOT', '/repo')
PKG_DIR = os.path.join(REPO_ROOT, 'src', 'socketio')

_modules = {}


def module(name):
    """name like 'server' -> ast.Module of /repo/src/socketio/server.py"""
    if name not in _modules:
        path = os.path.join(PKG_DIR, name + '.py')
        with open(path) as f:
            src = f.read()
        _modules[name] = ast.parse(src, filename=path)
    return _modules[name]


def reset():
    _modules.clear()


def classes(modname):
    return {n.name: n for n in module(modname).body if isinstance(n, ast.ClassDef)}


def _imports(modname):
    """local name -> socketio module name, for `from . import x`, `from .x import Y`, `from socketio import Client`."""
    out = {}
    for n in module(modname).body:
        if isinstance(n, ast.ImportFrom) and (n.level == 1 or n.module in ('socketio',)):
            for a in n.names:
                if n.module is None or n.module == 'socketio':
                    out[a.asname or a.name] = ('module', a.name)
                else:
                    out[a.asname or a.name] = ('name', n.module.split('.')[-1], a.name)
    return out


def resolve_base(modname, base_expr):
    """A base-class expression of a class in `modname` -> (module, class) inside the package, or None."""
    imps = _imports(modname)
    if isinstance(base_expr, ast.Attribute) and isinstance(base_expr.value, ast.Name):
        m = imps.get(base_expr.value.id)
        if m and m[0] == 'module' and os.path.exists(os.path.join(PKG_DIR, m[1] + '.py')):
            return (m[1], base_expr.attr)
    if isinstance(base_expr, ast.Name):
        if base_expr.id in classes(modname):
            return (modname, base_expr.id)
        m = imps.get(base_expr.id)
        if m and m[0] == 'name':
            return (m[1], m[2])
        if m and m[0] == 'module':
            # `from socketio import Client` style
            for cand in ('client', 'async_client', 'server', 'async_server'):
                if base_expr.id in classes(cand):
                    return (cand, base_expr.id)
    return None


def mro(modname, clsname):
    """Linearised (single inheritance in this package) list of (module, class)."""
    out = []
    cur = (modname, clsname)
    while cur:
        out.append(cur)
        cdef = classes(cur[0]).get(cur[1])
        if cdef is None:
            break
        nxt = None
        for b in cdef.bases:
            r = resolve_base(cur[0], b)
            if r:
                nxt = r
                break
        cur = nxt
    return out


def find_method(modname, clsname, meth, start_after=None):
    """Method lookup through the hierarchy.  start_after=(mod, cls) implements super()."""
    chain = mro(modname, clsname)
    if start_after is not None:
        if start_after in chain:
            chain = chain[chain.index(start_after) + 1:]
        else:
            chain = mro(*start_after)[1:]
    for m, c in chain:
        cdef = classes(m).get(c)
        if cdef is None:
            continue
        for n in cdef.body:
            if isinstance(n, (ast.FunctionDef, ast.AsyncFunctionDef)) and n.name == meth:
                return (m, c, n)
    return None


def class_attr(modname, clsname, attr):
    """Class-level assignment `attr = <expr>` looked up through the hierarchy -> ast expr or None."""
    for m, c in mro(modname, clsname):
        cdef = classes(m).get(c)
        if cdef is None:
            continue
        for n in cdef.body:
            if isinstance(n, ast.Assign) and len(n.targets) == 1 and isinstance(n.targets[0], ast.Name) \
                    and n.targets[0].id == attr:
                return n.value
    return None


def module_func(modname, fname):
    for n in module(modname).body:
        if isinstance(n, (ast.FunctionDef, ast.AsyncFunctionDef)) and n.name == fname:
            return n
    return None


def module_const(modname, name):
    """Module-level constant: handles `X = <const>` and the tuple assignment of the packet types."""
    for n in module(modname).body:
        if isinstance(n, ast.Assign) and len(n.targets) == 1:
            t = n.targets[0]
            if isinstance(t, ast.Name) and t.id == name:
                return n.value
            if isinstance(t, ast.Tuple) and isinstance(n.value, ast.Tuple):
                for tt, vv in zip(t.elts, n.value.elts):
                    if isinstance(tt, ast.Name) and tt.id == name:
                        return vv
    return None


class EraseAsync(ast.NodeTransformer):
    """async def -> def, await e -> e, async for/with -> for/with.  The asyncio idioms R1-R4 are handled by the
    executor's externals (asyncio.wait_for, iscoroutinefunction, create_task, wait) -- see externals.py."""
    def visit_Await(self, n):
        return self.visit(n.value)

    def visit_AsyncFunctionDef(self, n):
        n = self.generic_visit(n)
        f = ast.FunctionDef(name=n.name, args=n.args, body=n.body, decorator_list=n.decorator_list,
                            returns=n.returns, type_comment=None)
        return ast.copy_location(f, n)

    def visit_AsyncFor(self, n):
        n = self.generic_visit(n)
        return ast.copy_location(ast.For(target=n.target, iter=n.iter, body=n.body, orelse=n.orelse), n)

    def visit_AsyncWith(self, n):
        n = self.generic_visit(n)
        return ast.copy_location(ast.With(items=n.items, body=n.body), n)


def strip_docstrings(fn):
    for n in ast.walk(fn):
        if isinstance(n, (ast.FunctionDef, ast.AsyncFunctionDef, ast.ClassDef)):
            b = n.body
            if b and isinstance(b[0], ast.Expr) and isinstance(getattr(b[0], 'value', None), ast.Constant) \
                    and isinstance(b[0].value.value, str):
                n.body = b[1:] or [ast.Pass()]
    return fn


def prepared(fn):
    """The node handed to the executor: a deep copy with docstrings dropped and async/await erased."""
    f = copy.deepcopy(fn)
    f = strip_docstrings(f)
    f = EraseAsync().visit(f)
    ast.fix_missing_locations(f)
    return f


def fn_hash(fn):
    return hashlib.sha256(ast.dump(fn, include_attributes=False).encode()).hexdigest()[:16]


def has_await(fn):
    return any(isinstance(n, (ast.Await, ast.AsyncFor, ast.AsyncWith)) for n in ast.walk(fn))


def signature(fn):
    """(positional names, defaults map name->ast expr, vararg name, kwonly names, kwarg name)"""
    a = fn.args
    pos = [x.arg for x in a.posonlyargs + a.args]
    defaults = {}
    for name, d in zip(pos[len(pos) - len(a.defaults):], a.defaults):
        defaults[name] = d
    for x, d in zip(a.kwonlyargs, a.kw_defaults):
        if d is not None:
            defaults[x.arg] = d
    return pos, defaults, (a.vararg.arg if a.vararg else None), [x.arg for x in a.kwonlyargs], \
        (a.kwarg.arg if a.kwarg else None)
