"""SMT layer of PyVC: sorts, the universal value sort V with its axioms, array helpers, query discharge.

Everything a Python value can be is an element of the uninterpreted sort V.  Python constants the code
distinguishes (None, '/', '*', 'connect', True, False, ...) are pairwise distinct *atoms* of V.  Integers are
injected by box_int.  Opaque values can be looked at as sequences through vlen / vseq.  Equality on V is SMT
equality (assumption A3 of DESIGN.md).
"""
import os
import subprocess
import tempfile
import time
import z3

V = z3.DeclareSort('V')
B = z3.BoolSort()
I = z3.IntSort()
R = z3.RealSort()

Kind, (K_NONE, K_BOOL, K_INT, K_FLOAT, K_STR, K_BYTES, K_LIST, K_TUPLE, K_DICT, K_OTHER) = z3.EnumSort(
    'Kind', ['k_none', 'k_bool', 'k_int', 'k_float', 'k_str', 'k_bytes', 'k_list', 'k_tuple', 'k_dict', 'k_other'])

truthy = z3.Function('truthy', V, B)
kind = z3.Function('kind', V, Kind)
box_int = z3.Function('box_int', I, V)
int_of = z3.Function('int_of', V, I)
box_real = z3.Function('box_real', R, V)
real_of = z3.Function('real_of', V, R)
vlen = z3.Function('vlen', V, I)
vseq = z3.Function('vseq', V, z3.ArraySort(I, V))
str_concat = z3.Function('str_concat', V, V, V)
# dict view of an opaque value (decoded payloads, pub/sub messages)
dlen = z3.Function('dlen', V, I)                       # opaque dict as a sequence of (key, value) pairs in iteration order
dkey = z3.Function('dkey', V, z3.ArraySort(I, V))
dval = z3.Function('dval', V, z3.ArraySort(I, V))
vhas = z3.Function('vhas', V, V, B)
vget = z3.Function('vget', V, V, V)

_atoms = {}          # python constant -> z3 const
_atom_order = []


def atom(pyval):
    """The V constant standing for a Python constant (None, True, False, a str, a small marker object name)."""
    key = (type(pyval).__name__, pyval)
    if key not in _atoms:
        if pyval is None:
            name = 'None'
        elif pyval is True:
            name = 'True'
        elif pyval is False:
            name = 'False'
        elif isinstance(pyval, str):
            name = 'str:' + pyval
        else:
            name = 'atom:' + repr(pyval)
        _atoms[key] = (z3.Const(name, V), pyval)
        _atom_order.append(key)
    return _atoms[key][0]


class Marker:
    """A distinguished non-constant object (e.g. Server.not_handled, the ack-id counter)."""
    def __init__(self, name, truthy=True, kind=None):
        self.name, self.truthy, self.kind = name, truthy, kind

    def __repr__(self):
        return '<' + self.name + '>'

    def __hash__(self):
        return hash(self.name)

    def __eq__(self, o):
        return isinstance(o, Marker) and o.name == self.name


NONE = atom(None)
TRUE = atom(True)
FALSE = atom(False)


_qf_ax_cache = {}


def axioms(qf_only=False):
    """Background theory, regenerated at query time so that it covers every atom created so far."""
    k = (len(_atom_order), qf_only)
    if k not in _qf_ax_cache:
        if len(_qf_ax_cache) > 4:
            _qf_ax_cache.clear()
        _qf_ax_cache[k] = _axioms(qf_only)
    return _qf_ax_cache[k]


def _axioms(qf_only=False):
    ax = []
    consts = [_atoms[k][0] for k in _atom_order]
    if len(consts) > 1:
        ax.append(z3.Distinct(*consts))
    for k in _atom_order:
        c, pv = _atoms[k]
        if isinstance(pv, Marker):
            ax.append(truthy(c) == z3.BoolVal(bool(pv.truthy)))
            ax.append(kind(c) == (pv.kind if pv.kind is not None else K_OTHER))
            continue
        ax.append(truthy(c) == z3.BoolVal(bool(pv)))
        if pv is None:
            ax.append(kind(c) == K_NONE)
        elif isinstance(pv, bool):
            ax.append(kind(c) == K_BOOL)
        elif isinstance(pv, str):
            ax.append(kind(c) == K_STR)
            ax.append(vlen(c) == len(pv))
    if qf_only:
        return ax
    i = z3.Int('ax_i')
    ax.append(z3.ForAll([i], z3.And(int_of(box_int(i)) == i, kind(box_int(i)) == K_INT,
                                    truthy(box_int(i)) == (i != 0)), patterns=[box_int(i)]))
    r = z3.Real('ax_r')
    ax.append(z3.ForAll([r], z3.And(real_of(box_real(r)) == r, kind(box_real(r)) == K_FLOAT), patterns=[box_real(r)]))
    v = z3.Const('ax_v', V)
    ax.append(z3.ForAll([v], vlen(v) >= 0, patterns=[vlen(v)]))
    ax.append(z3.ForAll([v], z3.Implies(kind(v) == K_NONE, v == NONE), patterns=[kind(v)]))
    ax.append(z3.ForAll([v], z3.Implies(kind(v) == K_BOOL, z3.Or(v == TRUE, v == FALSE)), patterns=[kind(v)]))
    ax.append(z3.ForAll([v], z3.Implies(kind(v) == K_INT, v == box_int(int_of(v))), patterns=[kind(v)]))
    ax.append(z3.ForAll([v], z3.Implies(z3.Or(kind(v) == K_LIST, kind(v) == K_TUPLE, kind(v) == K_STR, kind(v) == K_BYTES, kind(v) == K_DICT),
                                        truthy(v) == (vlen(v) > 0)), patterns=[truthy(v)]))
    return ax


def sel(t, keys):
    for k in keys:
        t = z3.Select(t, k)
    return t


def sto(t, keys, val):
    if not keys:
        return val
    return z3.Store(t, keys[0], sto(z3.Select(t, keys[0]), keys[1:], val))


def arr_sort(key_sorts, leaf):
    s = leaf
    for k in reversed(key_sorts):
        s = z3.ArraySort(k, s)
    return s


def const_array(key_sorts, leaf_val):
    t = leaf_val
    for k in reversed(key_sorts):
        t = z3.K(k, t)
    return t


_fresh_n = [0]


def fresh(name, sort):
    _fresh_n[0] += 1
    return z3.Const('%s!%d' % (name, _fresh_n[0]), sort)


_isq_cache = {}


def is_quantified(t):
    k = t.get_id()
    r = _isq_cache.get(k)
    if r is None:
        r = _is_quantified(t)
        if len(_isq_cache) > 200000:
            _isq_cache.clear()
        _isq_cache[k] = (r, t)      # keep t alive so the id is not reused
        return r
    return r[0]


def _is_quantified(t):
    seen = set()
    stack = [t]
    while stack:
        x = stack.pop()
        if x.get_id() in seen:
            continue
        seen.add(x.get_id())
        if z3.is_quantifier(x):
            return True
        stack.extend(x.children())
    return False


SOLVER_STATS = {'z3_queries': 0, 'z3_s': 0.0, 'cvc5_queries': 0, 'cvc5_s': 0.0, 'feas_queries': 0, 'feas_s': 0.0}

CVC5 = '/usr/bin/cvc5'


def _mk_solver(timeout_ms, seed):
    s = z3.Solver()
    s.set('timeout', int(timeout_ms))
    s.set('random_seed', int(seed))
    try:
        s.set('smt.random_seed', int(seed))
    except z3.Z3Exception:
        pass
    return s


def check_sat(hyps, timeout_ms=2000, seed=0):
    """Feasibility of a path condition (quantifier-free part is decisive; unknown counts as feasible)."""
    t = time.time()
    s = _mk_solver(timeout_ms, seed)
    for a in axioms(qf_only=True):
        s.add(a)
    s.add(*[h for h in hyps if not is_quantified(h)])
    r = s.check()
    SOLVER_STATS['feas_queries'] += 1
    SOLVER_STATS['feas_s'] += time.time() - t
    return str(r)


def check_branch(hyps, cond, timeout_ms=2000, seed=0):
    """(feasible(hyps + cond), feasible(hyps + not cond)) with one solver"""
    t = time.time()
    s = _mk_solver(timeout_ms, seed)
    for a in axioms(qf_only=True):
        s.add(a)
    s.add(*[h for h in hyps if not is_quantified(h)])
    res = []
    for c in (cond, z3.Not(cond)):
        if is_quantified(c):
            res.append(True)
            continue
        s.push()
        s.add(c)
        res.append(s.check() != z3.unsat)
        s.pop()
    SOLVER_STATS['feas_queries'] += 2
    SOLVER_STATS['feas_s'] += time.time() - t
    return res


def run_cvc5(smt2, timeout_s):
    with tempfile.NamedTemporaryFile('w', suffix='.smt2', delete=False, dir=os.environ.get('TMPDIR') or None) as f:
        f.write('(set-logic ALL)\n' + smt2 + '\n(check-sat)\n')
        name = f.name
    t = time.time()
    try:
        p = subprocess.run([CVC5, '--tlimit=%d' % int(timeout_s * 1000), name], capture_output=True, text=True,
                           timeout=timeout_s + 5)
        out = p.stdout.strip().splitlines()
        res = out[0].strip() if out else 'unknown'
    except Exception:
        res = 'unknown'
    finally:
        os.unlink(name)
        SOLVER_STATS['cvc5_queries'] += 1
        SOLVER_STATS['cvc5_s'] += time.time() - t
    return res if res in ('sat', 'unsat') else 'unknown'


def refute_qf(hyps, goal, timeout_ms=4000, seed=0):
    """Is the quantifier-free part of hyps consistent with not goal?  Used for reachability/canary checks (a `sat`
    is what is wanted) and to get a candidate counter-model for an obligation the full query left undecided."""
    t0 = time.time()
    s = _mk_solver(timeout_ms, seed)
    for a in axioms(qf_only=True):
        s.add(a)
    s.add(*[h for h in hyps if not is_quantified(h)])
    s.add(z3.Not(goal))
    r = s.check()
    dt = time.time() - t0
    SOLVER_STATS['z3_queries'] += 1
    SOLVER_STATS['z3_s'] += dt
    out = {'backend': 'z3', 'time_s': round(dt, 4)}
    if r == z3.sat:
        out['status'] = 'refuted'
        out['model'] = s.model()
    elif r == z3.unsat:
        out['status'] = 'proved'
    else:
        out['status'] = 'undecided'
    return out


def _ground_terms(exprs, sort, limit=400):
    """Ground subterms of the given sort occurring in exprs (outside binders)."""
    seen = set()
    out = []
    stack = list(exprs)
    while stack:
        x = stack.pop()
        i = x.get_id()
        if i in seen:
            continue
        seen.add(i)
        if z3.is_quantifier(x):
            continue
        if z3.is_app(x):
            if x.sort() == sort and not z3.is_var(x):
                out.append(x)
                if len(out) >= limit:
                    break
            stack.extend(x.children())
    return out


def _has_var(x):
    seen = set()
    stack = [x]
    while stack:
        y = stack.pop()
        if y.get_id() in seen:
            continue
        seen.add(y.get_id())
        if z3.is_var(y):
            return True
        if z3.is_quantifier(y):
            stack.append(y.body())
        else:
            stack.extend(y.children())
    return False


def refine(hyps, goal, timeout_ms=8000, seed=0, rounds=12, max_inst=6000, budget_s=25):
    """Counter-model search by model-guided instantiation of the universally quantified hypotheses over the ground
    terms of the query.  `unsat` of the instantiated set is a proof (instances are consequences); a `sat` whose
    model satisfies every instance over its own ground universe is a counter-model, exact when all quantified
    hypotheses range over V only."""
    import itertools
    t0 = time.time()
    ax = axioms()
    ax_ids = {a_.get_id() for a_ in ax}
    allh = list(ax) + list(hyps)
    ground = [h for h in allh if not is_quantified(h)]
    quant = [h for h in allh if is_quantified(h)]
    insts = []
    exact = True
    qs = []
    for q in quant:
        if z3.is_quantifier(q) and q.is_forall():
            sorts = [q.var_sort(i) for i in range(q.num_vars())]
            if all(srt == V for srt in sorts):
                qs.append(q)
                continue
            qs.append(q)     # Int-sorted variables are instantiated over the Int ground terms only: a model found this
            if q.get_id() not in ax_ids:
                exact = False    # way may still violate the hypothesis at an index that is not a ground term (finite scope)
            # (the encoding's own axioms are definitional with the pattern box_int(i) / box_real(r): instantiating them at
            # every ground box term is complete - a model of the instances extends to a model of the axiom)
            continue
        exact = False
    neg = z3.Not(goal)
    added = set()
    status = 'undecided'
    model = None
    for rnd in range(rounds):
        if time.time() - t0 > budget_s:
            break
        s = _mk_solver(timeout_ms, seed)
        s.add(*ground)
        s.add(*insts)
        s.add(neg)
        r = s.check()
        SOLVER_STATS['z3_queries'] += 1
        if r == z3.unsat:
            status = 'proved'
            break
        if r != z3.sat:
            status = 'undecided'
            break
        model = s.model()
        terms_by_sort = {}
        new = 0
        for q in qs:
            n = q.num_vars()
            if is_quantified(q.body()):
                exact = False
                continue
            cands = []
            ok = True
            for i in range(n):
                srt = q.var_sort(i)
                key = srt.name()
                if key not in terms_by_sort:
                    ts = _ground_terms(ground + insts + [neg], srt)
                    reps = {}
                    for t in ts:
                        try:
                            val = model.eval(t, model_completion=True)
                        except z3.Z3Exception:
                            continue
                        reps.setdefault(str(val), t)
                    terms_by_sort[key] = list(reps.values())
                cands.append(terms_by_sort[key])
                if not cands[-1]:
                    ok = False
            if not ok:
                continue
            total = 1
            for cnd in cands:
                total *= len(cnd)
            if total > max_inst:
                exact = False
                cands = [cnd[:max(1, int(max_inst ** (1.0 / n)))] for cnd in cands]
            for combo in itertools.product(*cands):
                inst = z3.substitute_vars(q.body(), *reversed(combo))
                try:
                    val = model.eval(inst, model_completion=True)
                except z3.Z3Exception:
                    continue
                if z3.is_false(val):
                    k = inst.get_id()
                    if k not in added:
                        added.add(k)
                        insts.append(inst)
                        new += 1
        if new == 0:
            status = 'refuted'
            break
    out = {'status': status, 'backend': 'z3-inst', 'time_s': round(time.time() - t0, 4), 'instances': len(insts), 'exact': exact}
    if status == 'refuted':
        out['model'] = model
    return out


def prove(hyps, goal, timeout_ms=10000, seed=0, use_cvc5=True, both=False, quick_only=False, patient=False):
    """Validity of hyps => goal.  Returns dict(status=proved|refuted|undecided, backend, time_s, model?).
    Stage 1: z3 with E-matching only (patterns are given by the generator).  Stage 2: model-guided instantiation
    (proves, or yields a counter-model).  Stage 3: cvc5, then z3 with MBQI and a larger budget."""
    t0 = time.time()
    s = _mk_solver((min(timeout_ms, 4000) if not both else timeout_ms) if not patient else max(timeout_ms * 4, 40000), seed)
    s.set('smt.mbqi', False)
    for a in axioms():
        s.add(a)
    s.add(*hyps)
    s.add(z3.Not(goal))
    r = s.check()
    dt = time.time() - t0
    SOLVER_STATS['z3_queries'] += 1
    SOLVER_STATS['z3_s'] += dt
    out = {'backend': 'z3', 'time_s': round(dt, 4)}
    if r == z3.unsat:
        out['status'] = 'proved'
        if both and os.path.exists(CVC5):
            out['cvc5'] = run_cvc5(s.to_smt2().replace('(check-sat)', ''), 15)
        return out
    if r == z3.sat:
        out['status'] = 'refuted'
        out['model'] = s.model()
        out['exact'] = True
        return out
    if z3.is_false(goal):
        # "this point is never reached" and the path got here under the executor's own feasibility test (the quantifier-free
        # part of the path condition): if that part is satisfiable the path is as real as every other explored one
        rq = refute_qf(hyps, goal, timeout_ms=min(timeout_ms, 8000), seed=seed)
        if rq['status'] == 'refuted':
            rq['exact'] = False
            rq['note'] = 'the quantifier-free part of the path condition is satisfiable (the executor\'s feasibility criterion)'
            rq['time_s'] = round(time.time() - t0, 4)
            return rq
    if quick_only:
        out['status'] = 'undecided'
        out['reason'] = 'budget exhausted: the function already has failing obligations'
        return out
    r2 = refine(hyps, goal, seed=seed, budget_s=max(10, timeout_ms / 400))
    SOLVER_STATS['z3_s'] += r2['time_s']
    if r2['status'] == 'proved' or (r2['status'] == 'refuted' and r2.get('exact')):
        r2['time_s'] = round(time.time() - t0, 4)
        return r2
    finite_scope = r2 if r2['status'] == 'refuted' else None     # confirm with the complete procedures before reporting it
    if use_cvc5 and os.path.exists(CVC5):
        r3 = run_cvc5(s.to_smt2().replace('(check-sat)', ''), max(10, timeout_ms // 500))
        if r3 == 'unsat':
            out.update(status='proved', backend='cvc5', time_s=round(time.time() - t0, 4))
            return out
        if r3 == 'sat':
            out.update(status='refuted', backend='cvc5', time_s=round(time.time() - t0, 4), model=None, exact=True)
            return out
    t1 = time.time()
    s2 = _mk_solver(timeout_ms * 2, seed + 1)
    for a in axioms():
        s2.add(a)
    s2.add(*hyps)
    s2.add(z3.Not(goal))
    r = s2.check()
    SOLVER_STATS['z3_queries'] += 1
    SOLVER_STATS['z3_s'] += time.time() - t1
    out['time_s'] = round(time.time() - t0, 4)
    if r == z3.unsat:
        out['status'] = 'proved'
    elif r == z3.sat:
        out['status'] = 'refuted'
        out['model'] = s2.model()
        out['exact'] = True
    elif finite_scope is not None:
        # a counter-model of the hypotheses instantiated over the ground terms only: not a refutation (an instance outside
        # that scope may rule it out) - the obligation is undecided, the candidate model is kept for the report
        finite_scope['time_s'] = out['time_s']
        finite_scope['status'] = 'undecided'
        finite_scope['reason'] = 'finite-scope counter-model only (quantified hypotheses instantiated over the ground terms of the query); cvc5 and z3/MBQI did not decide'
        return finite_scope
    else:
        out['status'] = 'undecided'
        out['reason'] = s2.reason_unknown()
    return out
