"""Replay files: every reported violation names the failed obligation and carries the solver's counter-model; where a
native replay is registered for the obligation, the counter-example is run against the real code."""
import json
import os
import re
import subprocess


def safe(name):
    return re.sub(r'[^A-Za-z0-9_.\-\[\]]+', '_', name)[:180]


def write_and_replay(prop, o, root, undecided=False):
    d = os.path.join(root, 'replays', prop)
    os.makedirs(d, exist_ok=True)
    path = os.path.join(d, safe(o['name']) + '.json')
    rec = {'property': prop, 'obligation': o['name'], 'function': o.get('function'), 'status': o['status'],
           'kind': o.get('kind'), 'backend': o.get('backend'), 'why': o.get('why'),
           'solver_output': o.get('model') or ('solver returned unknown: %s' % o.get('reason', '')),
           'replayed': False, 'confirmed': False}
    confirmed = False
    try:
        from contracts import replays
        fn = replays.find(o['name'])
    except Exception:
        fn = None
    if fn is not None:      # also for an undecided obligation: a failing input found on the real code settles it
        try:
            out = fn(o, root)
            rec['replayed'] = True
            rec['replay_output'] = out.get('output')
            rec['replay_cmd'] = out.get('cmd')
            confirmed = bool(out.get('confirmed'))
            rec['confirmed'] = confirmed
        except Exception as e:
            rec['replay_error'] = str(e)
    with open(path, 'w') as f:
        json.dump(rec, f, indent=1)
    return path, confirmed
