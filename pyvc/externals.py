"""Models of builtins, container methods and of the dependencies (engine.io, bidict, itertools, ...).

Every function here is part of the trusted base: it states the *assumed* contract of something that is not
verified (DESIGN.md section 6).  `ASSUMED` collects a one-line description of each model that was actually used
in a run; the evidence files list them.
"""
import ast
import z3
from . import smt, source
from .smt import V, B, I, R, NONE, TRUE, FALSE, atom
from .model import SV, Leaf, MapT, BidictT, BagT, SeqT, RecT, OptT, LogT
from .vals import (S, Ref, Obj, PySeq, Fixed, View, Exc, Raised, Fn, ModuleV, ClassV, Unsupported, Value, const_int)
from .engine import HRef, LenOf, Frame

meth = z3.Function('meth', V, V, V)          # bound method / attribute of an opaque object
iscoro = z3.Function('iscoroutinefunction', V, B)
isawaitable = z3.Function('iscoroutine', V, B)
is_callable = z3.Function('callable', V, B)
opaque_attr = z3.Function('attr', V, V, V)
str_of = z3.Function('str_of', V, V)
hasattr_f = z3.Function('hasattr', V, V, B)

APP_RAISES = ['TypeError', 'sio.ConnectionRefusedError', 'AppException']

KIND_OF_TYPE = {'tuple': smt.K_TUPLE, 'list': smt.K_LIST, 'dict': smt.K_DICT, 'str': smt.K_STR, 'bytes': smt.K_BYTES,
                'int': smt.K_INT, 'bool': smt.K_BOOL, 'float': smt.K_FLOAT}

EXC_BUILTINS = ['KeyError', 'IndexError', 'LookupError', 'ValueError', 'TypeError', 'AttributeError', 'RuntimeError',
                'NotImplementedError', 'Exception', 'BaseException', 'StopIteration', 'AssertionError']


def builtin(name):
    def deco(f):
        BUILTINS[name] = Fn('builtin', name=name, impl=f)
        return f
    return deco


BUILTINS = {}


class Externals:
    def __init__(self):
        self.assumed = set()
        self.app_raises = list(APP_RAISES)
        self.obj_methods = {}      # (obj class tag, method) -> impl(engine, ctx, args, kwargs)
        self.overrides = {}        # qualified name -> impl
        self.module_attrs = {}     # (module, attr) -> Value factory
        self.class_ctors = {}      # class name -> impl(engine, ctx, args, kwargs)
        self.specials = []         # functions (engine, ctx, callnode) -> generator | None
        self.obj_dynamic = {}      # obj class tag -> fn(engine, ctx, base, attr) -> Value | None
        self.counter_fields = {}   # (obj, field) of a Map[k -> Map] whose inner key 0 holds an itertools.count -> (obj, ghost field) of its next value
        self.counter_atom = None
        self.rec_classes = {}      # RecT name -> (module, class) whose methods apply to records of that type

    def rec_class_name(self, recname):
        if recname in self.rec_classes:
            return 'socketio.%s.%s' % self.rec_classes[recname]
        return recname

    def note(self, text):
        self.assumed.add(text)

    # ---------------------------------------------------------------- names
    def global_name(self, eng, ctx, name):
        if name in BUILTINS:
            return BUILTINS[name]
        if name in EXC_BUILTINS:
            return ClassV(name)
        if name in KIND_OF_TYPE or name == 'object':
            return ClassV('type:' + name)
        mod = ctx.frame.modname
        # module-level names of the defining module
        if mod:
            imp = self.module_import(mod, name)
            if imp is not None:
                return imp
            c = source.module_const(mod, name)
            if c is not None:
                if isinstance(c, ast.Call) and isinstance(c.func, ast.Name) and c.func.id == 'object' and not c.args:
                    # a module-level sentinel: one distinguished object, distinct from every value off the wire
                    return S(atom(smt.Marker('sentinel:%s.%s' % (mod, name), kind=smt.K_OTHER)))
                for c2, v in eng.ev(c, ctx):
                    return v
            if source.module_func(mod, name) is not None:
                return Fn('modfunc', module=mod, name=name)
            if name in source.classes(mod):
                return ClassV('socketio.%s.%s' % (mod, name))
        return None

    def module_import(self, mod, name):
        body = list(source.module(mod).body)
        for n in list(body):
            if isinstance(n, ast.Try):          # optional dependency: try: import x / except ImportError: x = None
                body += n.body
        for n in body:
            if isinstance(n, ast.Import):
                for a in n.names:
                    if (a.asname or a.name.split('.')[0]) == name:
                        return ModuleV(a.name if a.asname else a.name.split('.')[0])
            if isinstance(n, ast.ImportFrom):
                for a in n.names:
                    if (a.asname or a.name) == name:
                        return self.import_name(None, None, n.module, a.name, n.level)
        return None

    def import_name(self, eng, ctx, module, name, level):
        if level >= 1 and module is None:
            return ModuleV('socketio.' + name)
        full = ('socketio.' + module) if level >= 1 else module
        if full == 'socketio' and name in ('Client', 'AsyncClient', 'Server', 'AsyncServer'):
            return ClassV('socketio.' + name)
        if full in ('socketio.exceptions',):
            return ClassV('sio.' + name)
        if full == 'bidict':
            return ClassV('bidict.' + name) if name != 'ValueDuplicationError' else ClassV('ValueDuplicationError')
        if full == 'functools' and name == 'partial':
            return BUILTINS['functools.partial']
        if full == 'engineio' and name in ('packet', 'json', 'exceptions'):
            return ModuleV('engineio.' + name)
        if full.startswith('engineio.'):
            return Recorder(full + '.' + name)
        if full == 'threading' and name == 'Event':
            return ClassV('threading.Event')
        if full in ('redis.exceptions', 'aioredis.exceptions'):
            return ClassV('redis.' + name)
        if full.startswith('socketio.'):
            m = full.split('.', 1)[1]
            try:
                if name in source.classes(m):
                    return ClassV('socketio.%s.%s' % (m, name))
                if source.module_func(m, name) is not None:
                    return Fn('modfunc', module=m, name=name)
            except FileNotFoundError:
                pass
        return ModuleV(full + '.' + name)

    def obj_attr(self, eng, ctx, base, attr):
        if attr == '__class__':
            return Recorder('class:' + base.name)
        cls = eng.schema.classes.get(base.name)
        tag = cls[1] if cls else None
        impl = self.obj_methods.get((tag, attr))
        if impl is not None:
            return Fn('builtin', name='%s.%s' % (tag, attr), impl=impl)
        dyn = self.obj_dynamic.get(tag)
        if dyn is not None:
            return dyn(eng, ctx, base, attr)
        return None

    def obj_setattr(self, eng, ctx, base, attr, v):
        return None

    def method_override(self, eng, ctx, obj, qual, name):
        return self.overrides.get(qual)

    # ---------------------------------------------------------------- attributes of values
    def value_attr(self, eng, ctx, base, attr):
        if isinstance(base, Recorder):
            return iter([(ctx, Recorder(base.path + '.' + attr))])
        if isinstance(base, ModuleV):
            r = self._module_attr(eng, ctx, base, attr)
            if r is None and base.name.split('.')[0] in ('time', 'datetime', 'os', 'socket', 'engineio', 'urllib', 'functools', 'uuid', 'pickle', 'redis'):
                return iter([(ctx, Recorder(base.name + '.' + attr))])
            return r
        if isinstance(base, ClassV):
            key = ('class', base.name, attr)
            if key in self.module_attrs:
                return iter([(ctx, self.module_attrs[key](eng, ctx))])
            return None
        if isinstance(base, Exc):
            if attr in base.fields:
                return iter([(ctx, base.fields[attr])])
            if attr == 'args':
                return iter([(ctx, PySeq([Fixed(list(base.args))], 'tuple'))])
            return None
        m = CONTAINER_METHODS.get(attr)
        if m is not None and self._is_container(eng, ctx, base, attr):
            return iter([(ctx, Fn('builtin', name='.' + attr, impl=lambda e, c, a, k, _m=m, _b=base: _m(self, e, c, _b, a, k)))])
        if isinstance(base, Ref):
            ty = eng.ref_type(base)
            if isinstance(ty, BidictT) and attr in ('_fwdm', '_invm'):
                sv = eng.load(ctx, base)
                if attr == '_fwdm':
                    d = SV(MapT(Leaf('V')), {'dom': sv.c['dom'], '.': sv.c['val']})
                else:
                    d = SV(MapT(Leaf('V')), {'dom': sv.c['idom'], '.': sv.c['inv']})
                self.note('bidict: _fwdm/_invm are the forward and inverse dicts (bidict 0.24)')
                return iter([(ctx, ctx.alloc('map', d, alias_of=base))])
        if isinstance(base, HRef):
            h = ctx.heap[base.id]
            if h.kind == 'rec':
                impl = self.obj_methods.get((h.cls, attr))
                if impl is not None:
                    return iter([(ctx, Fn('builtin', name='%s.%s' % (h.cls, attr),
                                          impl=lambda e, c, a, k, _i=impl, _b=base: _i(e, c, a, k, _b)))])
                # method of a package class instantiated locally
                if h.cls and h.cls.startswith('socketio.'):
                    _, m_, c_ = h.cls.split('.')
                    if source.find_method(m_, c_, attr):
                        return iter([(ctx, Fn('builtin', name=h.cls + '.' + attr,
                                              impl=lambda e, c, a, k, _b=base, _m=m_, _c=c_, _a=attr: self.call_rec_method(e, c, _b, _m, _c, _a, a, k)))])
                    ca = source.class_attr(m_, c_, attr)
                    if ca is not None:
                        key = ('classattr', h.cls, attr)
                        if key in self.module_attrs:
                            return iter([(ctx, self.module_attrs[key](eng, ctx))])
                        return eng.ev(ca, ctx)
        if isinstance(base, Ref):
            ty = eng.ref_type(base)
            rty = ty.inner if isinstance(ty, OptT) else ty
            if isinstance(rty, RecT) and rty.name in self.rec_classes:
                m_, c_ = self.rec_classes[rty.name]
                if source.find_method(m_, c_, attr):
                    return iter([(ctx, Fn('builtin', name='%s.%s.%s' % (m_, c_, attr),
                                          impl=lambda e, c, a, k, _b=base, _m=m_, _c=c_, _a=attr: self.call_rec_method(e, c, _b, _m, _c, _a, a, k)))])
        if isinstance(base, S) and base.sort == 'V':
            # attribute of an opaque object: a method call is recorded by call_opaque on meth(obj, name)
            t = meth(base.t, atom(attr))
            return iter([(ctx, S(t))])
        return None

    def call_rec_method(self, eng, ctx, recref, mod, cname, name, args, kwargs):
        found = source.find_method(mod, cname, name)
        m, c, node = found
        qual = '%s.%s.%s' % (m, c, name)
        contract = eng.registry.lookup(qual, None, eng.schema) if eng.registry else None
        if contract is not None and not contract.thin:
            from . import contract as cmod
            yield from cmod.apply_at_call(eng, ctx, contract, None, node, args, kwargs, qual, self_val=recref)
            return
        yield from eng.inline(ctx, node, None, (m, c), m, args, kwargs, qual, self_val=recref)

    def _is_container(self, eng, ctx, base, attr):
        if isinstance(base, (PySeq, KeysView, SetV)):
            return True
        if isinstance(base, HRef) and ctx.heap[base.id].kind in ('list', 'map'):
            return True
        if isinstance(base, Ref):
            ty = eng.ref_type(base)
            return not isinstance(ty, (Leaf, RecT))
        if isinstance(base, S) and base.sort == 'V' and attr in ('get', 'items', 'keys', 'values', 'find', 'isdigit',
                                                                 'startswith', 'encode', 'decode', 'format', 'split', 'pop', 'copy', 'setdefault'):
            return True
        return False

    def _module_attr(self, eng, ctx, base, attr):
        key = (base.name, attr)
        if key in self.module_attrs:
            return iter([(ctx, self.module_attrs[key](eng, ctx))])
        name = base.name
        if name in ('exceptions', 'socketio.exceptions'):
            return iter([(ctx, ClassV('sio.' + attr))])
        if name.startswith('socketio.'):
            m = name.split('.', 1)[1]
            c = source.module_const(m, attr)
            if c is not None:
                return eng.ev(c, ctx)
            if attr in source.classes(m):
                return iter([(ctx, ClassV('socketio.%s.%s' % (m, attr)))])
            if source.module_func(m, attr) is not None:
                return iter([(ctx, Fn('modfunc', module=m, name=attr))])
            if m == 'exceptions':
                return iter([(ctx, ClassV('sio.' + attr))])
        if name == 'exceptions' or name == 'socketio.exceptions':
            return iter([(ctx, ClassV('sio.' + attr))])
        full = name + '.' + attr
        if full in BUILTINS:
            return iter([(ctx, BUILTINS[full])])
        if name in ('engineio.exceptions',):
            return iter([(ctx, ClassV('eio.' + attr))])
        if name == 'redis' and attr == 'exceptions':
            return iter([(ctx, ModuleV('redis.exceptions'))])
        if name == 'redis.exceptions':
            return iter([(ctx, ClassV('redis.' + attr))])
        if name == 'engineio' and attr in ('exceptions', 'packet', 'json'):
            return iter([(ctx, ModuleV('engineio.' + attr))])
        if name == 'asyncio' and attr in ('TimeoutError', 'CancelledError'):
            return iter([(ctx, ClassV('asyncio.' + attr))])
        if name == 'engineio.packet' and attr == 'MESSAGE':
            return iter([(ctx, S(atom('eio:MESSAGE')))])
        if name == 'engineio.packet' and attr == 'Packet':
            return iter([(ctx, ClassV('engineio.packet.Packet'))])
        return None

    # ---------------------------------------------------------------- opaque containers
    def contains(self, eng, ctx, cont, key):
        if isinstance(cont, S) and cont.sort == 'V':
            # `k in opaque`: dict view
            self.note('`k in x` on an opaque value is the dict/sequence membership predicate vhas(x, k); raises TypeError if x is not a container')
            k = eng.to_v(ctx, key)
            def gen():
                isseq = z3.Or(smt.kind(cont.t) == smt.K_LIST, smt.kind(cont.t) == smt.K_TUPLE)
                for c0, sq in eng.branch(ctx, isseq):
                    if sq:
                        p = z3.Int('in_p')
                        yield c0, z3.Exists([p], z3.And(p >= 0, p < smt.vlen(cont.t), smt.vseq(cont.t)[p] == k))
                        continue
                    iscont = z3.Or(*[smt.kind(cont.t) == kk for kk in (smt.K_DICT, smt.K_STR, smt.K_BYTES)])
                    for c, ok in eng.branch(c0, iscont):
                        if ok:
                            yield c, smt.vhas(cont.t, k)
                        else:
                            yield c, Raised(Exc('TypeError'))
            return gen()
        return None

    def getitem(self, eng, ctx, base, key):
        if isinstance(base, S) and base.sort == 'V':
            return self._opaque_getitem(eng, ctx, base, key)
        return None

    def _opaque_getitem(self, eng, ctx, base, key):
        t = base.t
        isseq = z3.Or(smt.kind(t) == smt.K_LIST, smt.kind(t) == smt.K_TUPLE)
        for c, sq in eng.branch(ctx, isseq):
            if sq:
                i = const_int(key)
                n = smt.vlen(t)
                if i is not None:
                    idx = z3.IntVal(i) if i >= 0 else n + i
                else:
                    if not (isinstance(key, S) and key.sort in ('I', 'V')):
                        yield c, Raised(Exc('TypeError'))
                        continue
                    idx = eng.to_i(c, key)
                for c2, ok in eng.branch(c, z3.And(idx >= 0, idx < n)):
                    if ok:
                        yield c2, S(smt.vseq(t)[idx])
                    else:
                        yield c2, Raised(Exc('IndexError'))
                continue
            for c2, isd in eng.branch(c, smt.kind(t) == smt.K_DICT):
                if isd:
                    k = eng.to_v(c2, key)
                    for c3, has in eng.branch(c2, smt.vhas(t, k)):
                        if has:
                            yield c3, S(smt.vget(t, k))
                        else:
                            yield c3, Raised(Exc('KeyError'))
                    continue
                for c3, isstr in eng.branch(c2, z3.Or(smt.kind(t) == smt.K_STR, smt.kind(t) == smt.K_BYTES)):
                    if isstr:
                        r = smt.fresh('chr', V)
                        c4 = c3.fork()
                        yield c3, S(r)
                        yield c4, Raised(Exc('IndexError'))
                    else:
                        yield c3, Raised(Exc('TypeError'))

    def getslice(self, eng, ctx, base, lo, hi):
        if isinstance(base, S) and base.sort == 'V':
            return self._opaque_slice(eng, ctx, base, lo, hi)
        return None

    def _opaque_slice(self, eng, ctx, base, lo, hi):
        t = base.t
        isseq = z3.Or(smt.kind(t) == smt.K_LIST, smt.kind(t) == smt.K_TUPLE)
        for c, sq in eng.branch(ctx, isseq):
            if sq:
                seq = PySeq([View(smt.vseq(t), z3.IntVal(0), smt.vlen(t))], 'list')
                l = 0 if lo is None else const_int(lo)
                h = None if hi is None else const_int(hi)
                if l is None or (hi is not None and h is None):
                    raise Unsupported('symbolic slice of opaque value')
                for c2, v in eng._slice_seq(c, seq, l, h):
                    yield c2, (c2.alloc('list', v) if isinstance(v, PySeq) else v)
            else:
                for c2, isstr in eng.branch(c, z3.Or(smt.kind(t) == smt.K_STR, smt.kind(t) == smt.K_BYTES)):
                    if isstr:
                        r = smt.fresh('substr', V)
                        c2.assume(smt.kind(r) == smt.kind(t))
                        yield c2, S(r)
                    else:
                        yield c2, Raised(Exc('TypeError'))

    def setitem(self, eng, ctx, cont, key, v):
        return None

    def delitem(self, eng, ctx, cont, key):
        return None

    def binop(self, eng, ctx, op, a, b):
        if isinstance(op, ast.Mod) or (isinstance(op, ast.Add)):
            # string formatting / concatenation on opaque values
            try:
                x, y = eng.to_v(ctx, a), eng.to_v(ctx, b)
            except Unsupported:
                return None
            r = smt.str_concat(x, y) if isinstance(op, ast.Add) else smt.fresh('fmt', V)
            return iter([(ctx, S(r))])
        return None

    def expand_kwargs(self, eng, ctx, v):
        if isinstance(v, HRef) and ctx.heap[v.id].kind == 'map' and isinstance(ctx.heap[v.id].data, dict):
            out = {}
            for k, item in ctx.heap[v.id].data.items():
                name = k.decl().name()
                assert name.startswith('str:')
                out[name[4:]] = item
            return out
        raise Unsupported('**kwargs of a non-literal mapping')

    # ---------------------------------------------------------------- exceptions
    def exc_class_names(self, eng, ctx, type_expr):
        if isinstance(type_expr, ast.Tuple):
            out = []
            for e in type_expr.elts:
                out += self.exc_class_names(eng, ctx, e)
            return out
        for c, v in eng.ev(type_expr, ctx):
            if isinstance(v, ClassV):
                return [v.name]
            raise Unsupported('except clause type %r' % (v,))
        return []

    def construct(self, eng, ctx, cls, args, kwargs):
        name = cls.name
        if name in self.class_ctors:
            yield from self.class_ctors[name](eng, ctx, args, kwargs)
            return
        if name in source_exc_classes():
            # exception classes defined in socketio/exceptions.py: run the real __init__ if there is one
            cname = name.split('.', 1)[1]
            found = source.find_method('exceptions', cname, '__init__')
            exc = Exc(name, args.items() if args.fixed_len() is not None else [])
            if found:
                rec = ctx.alloc('rec', {}, cls=name)
                for c, r in eng.inline(ctx, found[2], None, ('exceptions', cname), 'exceptions', args, kwargs,
                                       'exceptions.%s.__init__' % cname, self_val=rec):
                    if isinstance(r, Raised):
                        yield c, r
                    else:
                        e2 = Exc(name, exc.args, c.heap[rec.id].data)
                        yield c, e2
                return
            yield ctx, exc
            return
        if name in EXC_BUILTINS or name.startswith(('eio.', 'asyncio.')) or name in ('ValueDuplicationError',):
            yield ctx, Exc(name, args.items() if args.fixed_len() is not None else [])
            return
        if name == 'bidict.bidict':
            yield ctx, ctx.alloc('map', SV.empty(BidictT()))
            return
        if name.startswith('type:'):
            if name[5:] not in BUILTINS:
                raise Unsupported('call of the type %s' % name[5:])
            yield from BUILTINS[name[5:]].impl(eng, ctx, args, kwargs)
            return
        if name.startswith('socketio.') and name.count('.') == 2:
            _, m_, c_ = name.split('.')
            found = source.find_method(m_, c_, '__init__')
            rec = ctx.alloc('rec', {}, cls=name)
            if not found:
                yield ctx, rec
                return
            for c, r in self.call_rec_method(eng, ctx, rec, m_, c_, '__init__', args, kwargs):
                yield c, (r if isinstance(r, Raised) else rec)
            return
        raise Unsupported('construction of %s' % name)

    # ---------------------------------------------------------------- application code
    def call_opaque(self, eng, ctx, f, args, kwargs):
        """Call of an opaque callable (application handler / callback / method of an opaque object): recorded in
        the ghost log g.calls; may return anything and raise any Exception; state unchanged (H0)."""
        self.note('H0: application handlers and callbacks do not re-enter the server/client API; they may return anything and raise any Exception')
        ev = self._event_op(eng, ctx, f, args, kwargs)
        if ev is not None:
            yield from ev
            return
        if kwargs:
            raise Unsupported('keyword arguments to an opaque callable')
        key = ('g', 'calls')
        if key not in eng.schema.fields:
            raise Unsupported('opaque call but the schema has no g.calls log')
        for c, cal in eng.branch(ctx, self.callable_cond(eng, ctx, f.t)):
            if not cal:
                yield c, Raised(Exc('TypeError'))
                continue
            sv = c.st.get(*key)
            n = args.length()
            arr = eng.seq_to_sv(c, args, SeqT('V')).c['arr']
            r = smt.fresh('ret', V)
            c.st = c.st.set('g', 'calls', sv.log_append({'fn': f.t, 'args': (n, arr), 'ret': r}))
            for cls in self.app_raises:
                c2 = c.fork()
                fields = {}
                if cls == 'sio.ConnectionRefusedError':
                    fields['error_args'] = S(smt.fresh('error_args', V))
                ex = Exc(cls, [], fields)
                ex.from_app = True
                yield c2, Raised(ex)
            yield c, S(r)

    def _event_op(self, eng, ctx, f, args, kwargs):
        """x.set() / x.clear() / x.wait(timeout) / x.is_set() on an opaque object: a threading.Event / asyncio.Event
        (ghost flag g.events[x]).  wait() may also return True because another thread set the event meanwhile."""
        t = f.t
        if not (z3.is_app(t) and t.decl().name() == 'meth' and ('g', 'events') in eng.schema.fields):
            return None
        name = t.arg(1)
        if not (z3.is_const(name) and name.decl().name() in ('str:set', 'str:clear', 'str:wait', 'str:is_set')):
            return None
        op = name.decl().name()[4:]
        obj = t.arg(0)
        self.note('threading.Event / asyncio.Event: set() raises the flag, clear() lowers it, wait(timeout) returns True iff the flag is (or becomes) set, False on time-out')

        env = getattr(self, 'event_env', None)

        def gen():
            if env is not None and op != 'wait':
                env(eng, ctx, 'pre', op, obj)
                for c_, r_ in gen0():
                    env(eng, c_, 'post', op, obj)
                    yield c_, r_
            else:
                yield from gen0()

        def gen0():
            evs = ctx.st.get('g', 'events')
            if op == 'set':
                ctx.st = ctx.st.set('g', 'events', evs.with_child(('k', obj), SV(Leaf('B'), {'': z3.BoolVal(True)})))
                yield ctx, S(NONE)
            elif op == 'clear':
                ctx.st = ctx.st.set('g', 'events', evs.with_child(('k', obj), SV(Leaf('B'), {'': z3.BoolVal(False)})))
                yield ctx, S(NONE)
            elif op == 'is_set':
                yield ctx, S(evs.c['.'][obj])
            else:
                hook = getattr(self, 'wait_hook', None)
                if hook is not None:
                    yield from hook(eng, ctx, obj, args, kwargs)
                    return
                r = smt.fresh('woke', B)
                ctx.assume(z3.Implies(evs.c['.'][obj], r))
                if ('g', 'waits') in eng.schema.fields:
                    items = args.items() if args.fixed_len() is not None else []
                    tmo = items[0] if items else kwargs.get('timeout')
                    if tmo is None:
                        ctx.notes.append(('untimed-wait', obj, r))
                    if tmo is not None and isinstance(tmo, S) and tmo.sort in ('R', 'I'):
                        tt = tmo.t if tmo.sort == 'R' else z3.ToReal(tmo.t)
                        lg = ctx.st.get('g', 'waits')
                        ctx.st = ctx.st.set('g', 'waits', lg.log_append({'ev': obj, 'timeout': tt, 'woke': r}))
                yield ctx, S(r)
        return gen()

    def callable_cond(self, eng, ctx, t):
        return z3.BoolVal(True)

    # ---------------------------------------------------------------- misc hooks
    def special_call(self, eng, ctx, e):
        f = e.func
        # super().method(...)
        if isinstance(f, ast.Attribute) and isinstance(f.value, ast.Call) and isinstance(f.value.func, ast.Name) \
                and f.value.func.id == 'super' and not f.value.args:
            fr = ctx.frame
            fn = Fn('method', obj=fr.self_obj, name=f.attr, start_after=fr.cls)
            if fr.self_obj is None:
                raise Unsupported('super() on a local object')
            return self._call_with(eng, ctx, fn, e)
        for sp in self.specials:
            r = sp(eng, ctx, e)
            if r is not None:
                return r
        if isinstance(f, ast.Name) and f.id == 'next' and len(e.args) == 1 and isinstance(e.args[0], ast.Subscript) and self.counter_fields:
            return self._next_counter(eng, ctx, e.args[0])
        return None

    def _next_counter(self, eng, ctx, sub):
        """next(<map>[k][0]) where the slot holds the itertools.count modelled by a ghost integer."""
        for c, vals in eng.ev_many([sub.value, sub.slice], ctx):
            if isinstance(vals, Raised):
                yield c, vals
                continue
            cont, key = vals
            if not (isinstance(cont, Ref) and (cont.obj, cont.field) in self.counter_fields and len(cont.path) == 1):
                raise Unsupported('next() of something that is not a modelled counter slot')
            gobj, gfield = self.counter_fields[(cont.obj, cont.field)]
            k = eng.to_v(c, key)
            sv = eng.load(c, cont)
            for c2, pres in eng.branch(c, sv.present(k)):
                if not pres:
                    yield c2, Raised(Exc('KeyError'))
                    continue
                slot = sv.child(('k', k)).leaf()
                for c3, isc in eng.branch(c2, slot == self.counter_atom):
                    if not isc:
                        yield c3, Raised(Exc('TypeError'))
                        continue
                    owner = cont.path[0][1]
                    g = c3.st.get(gobj, gfield)
                    cur = g.c['.'][owner]
                    c3.st = c3.st.set(gobj, gfield, g.with_child(('k', owner), SV(Leaf('I'), {'': cur + 1})))
                    self.note('itertools.count(n) is a counter: next() returns n, n+1, ... (modelled by a ghost integer)')
                    yield c3, S(cur)

    def _call_with(self, eng, ctx, fval, e):
        exprs = [a.value if isinstance(a, ast.Starred) else a for a in e.args] + [k.value for k in e.keywords]
        for c2, vals in eng.ev_many(exprs, ctx):
            if isinstance(vals, Raised):
                yield c2, vals
                continue
            args, kwargs, star_kw = [], {}, None
            for a, v in zip(e.args, vals[:len(e.args)]):
                args.append(('*', v) if isinstance(a, ast.Starred) else v)
            for k, v in zip(e.keywords, vals[len(e.args):]):
                if k.arg is None:
                    star_kw = v
                else:
                    kwargs[k.arg] = v
            yield from eng.call(c2, fval, eng.flatten_args(c2, args), kwargs, star_kw, node=e)

    def local_class(self, eng, ctx, s):
        # a nested class: closure-like template; instantiation creates a rec whose methods are closures
        ctx.bind(s.name, Fn('localclass', node=s, frame=ctx.fid, name=s.name))
        return True

    def comprehension(self, eng, ctx, e):
        from . import loops
        return loops.comprehension(eng, ctx, e)


_exc_cache = {}


def source_exc_classes():
    if 'v' not in _exc_cache:
        _exc_cache['v'] = {'sio.' + c for c in source.classes('exceptions')}
    return _exc_cache['v']


# ======================================================================= builtins

def _one(ctx, v):
    yield ctx, v


def _seq_items_ref(eng, ctx, v):
    return eng.as_seq(ctx, v)


@builtin('len')
def _len(eng, ctx, args, kwargs):
    (x,) = args.items()
    if isinstance(x, PySeq):
        yield ctx, S(x.length())
    elif isinstance(x, HRef):
        h = ctx.heap[x.id]
        if h.kind == 'list':
            yield ctx, S(h.data.length())
        elif h.kind == 'map':
            if isinstance(h.data, dict):
                yield ctx, S(z3.IntVal(len(h.data)))
            else:
                yield ctx, LenOf(h.data)
        else:
            raise Unsupported('len of object')
    elif isinstance(x, Ref):
        yield ctx, LenOf(eng.load(ctx, x))
    elif isinstance(x, S) and x.sort == 'V':
        t = x.t
        ok = z3.Or(*[smt.kind(t) == k for k in (smt.K_LIST, smt.K_TUPLE, smt.K_DICT, smt.K_STR, smt.K_BYTES)])
        for c, o in eng.branch(ctx, ok):
            if o:
                yield c, S(smt.vlen(t))
            else:
                yield c, Raised(Exc('TypeError'))
    else:
        raise Unsupported('len of %r' % (x,))


@builtin('isinstance')
def _isinstance(eng, ctx, args, kwargs):
    x, t = args.items()

    def tname(v):
        n = v.name
        if isinstance(v, Fn) and n in KIND_OF_TYPE:
            return 'type:' + n
        return n
    if isinstance(t, PySeq):
        names = [tname(i) for i in t.items()]
    else:
        names = [tname(t)]
    res = []
    for n in names:
        res.append(_isinst(eng, ctx, x, n))
    yield ctx, S(z3.Or(*res) if len(res) > 1 else res[0])


def _isinst(eng, ctx, x, cname):
    if cname.startswith('type:'):
        tn = cname[5:]
        if isinstance(x, PySeq):
            return z3.BoolVal(x.kind == tn)
        if isinstance(x, HRef):
            h = ctx.heap[x.id]
            return z3.BoolVal({'list': 'list', 'map': 'dict'}.get(h.kind) == tn)
        if isinstance(x, S):
            if x.sort == 'V':
                if tn == 'int':
                    return z3.Or(smt.kind(x.t) == smt.K_INT, smt.kind(x.t) == smt.K_BOOL)
                return smt.kind(x.t) == KIND_OF_TYPE[tn]
            return z3.BoolVal({'B': ['bool', 'int'], 'I': ['int'], 'R': ['float']}[x.sort].count(tn) > 0)
        if isinstance(x, Ref):
            ty = eng.ref_type(x)
            if isinstance(ty, Leaf):
                return _isinst(eng, ctx, S(eng.load(ctx, x).leaf()), cname)
            return z3.BoolVal(tn == 'dict' and isinstance(ty, (MapT, BidictT)) or tn == 'list' and isinstance(ty, (SeqT, BagT)))
        return z3.BoolVal(False)
    # package classes on opaque objects: uninterpreted predicate
    if isinstance(x, S) and x.sort == 'V':
        f = z3.Function('isinstance:' + cname, V, B)
        return f(x.t)
    if isinstance(x, Exc):
        from .vals import exc_isa
        return z3.BoolVal(exc_isa(x.cls, cname))
    raise Unsupported('isinstance(%r, %s)' % (x, cname))


@builtin('callable')
def _callable(eng, ctx, args, kwargs):
    (x,) = args.items()
    if isinstance(x, Fn):
        yield ctx, S(z3.BoolVal(True))
    elif isinstance(x, S) and x.sort == 'V':
        yield ctx, S(is_callable(x.t))
    else:
        yield ctx, S(z3.BoolVal(False))


@builtin('hasattr')
def _hasattr(eng, ctx, args, kwargs):
    x, name = args.items()
    if isinstance(x, S) and x.sort == 'V':
        t = x.t
    elif isinstance(x, Obj):
        t = z3.Const('obj:' + x.name, V)
    elif isinstance(x, Ref):
        t = eng.to_v(ctx, x)
    elif isinstance(x, (PySeq, HRef)):
        nm = name.t.decl().name() if isinstance(name, S) and z3.is_const(name.t) else ''
        if nm == 'str:__len__':
            yield ctx, S(z3.BoolVal(True))
            return
        raise Unsupported('hasattr on local container')
    else:
        raise Unsupported('hasattr(%r)' % (x,))
    nm = eng.to_v(ctx, name)
    if z3.is_const(nm) and nm.decl().name() == 'str:__len__':
        # sized <=> one of the container kinds (strings included, as in Python)
        yield ctx, S(z3.Or(*[smt.kind(t) == k for k in (smt.K_LIST, smt.K_TUPLE, smt.K_DICT, smt.K_STR, smt.K_BYTES)]))
        return
    yield ctx, S(hasattr_f(t, nm))


@builtin('getattr')
def _getattr(eng, ctx, args, kwargs):
    items = args.items()
    x, name = items[0], items[1]
    if isinstance(x, Obj):
        t = z3.Const('obj:' + x.name, V)
    else:
        t = eng.to_v(ctx, x)
    nm = eng.to_v(ctx, name)
    if len(items) == 3:
        for c, has in eng.branch(ctx, hasattr_f(t, nm)):
            yield c, (S(meth(t, nm)) if has else items[2])
        return
    for c, has in eng.branch(ctx, hasattr_f(t, nm)):
        if has:
            yield c, S(meth(t, nm))
        else:
            yield c, Raised(Exc('AttributeError'))


@builtin('list')
def _list(eng, ctx, args, kwargs):
    items = args.items()
    if not items:
        yield ctx, ctx.alloc('list', PySeq([], 'list'))
        return
    x = items[0]
    if isinstance(x, KeysView):
        yield ctx, x
        return
    if isinstance(x, S) and x.sort == 'V':
        isseq = z3.Or(smt.kind(x.t) == smt.K_LIST, smt.kind(x.t) == smt.K_TUPLE)
        for c, ok in eng.branch(ctx, isseq):
            if ok:
                yield c, c.alloc('list', PySeq(eng.as_seq(c, x).segs, 'list'))
            else:
                r = smt.fresh('listof', V)
                c.assume(smt.kind(r) == smt.K_LIST)
                c2 = c.fork()
                yield c, S(r)
                yield c2, Raised(Exc('TypeError'))
        return
    seq = eng.as_seq(ctx, x)
    yield ctx, ctx.alloc('list', PySeq(seq.segs, 'list'))


@builtin('tuple')
def _tuple(eng, ctx, args, kwargs):
    items = args.items()
    if not items:
        yield ctx, PySeq([], 'tuple')
        return
    seq = eng.as_seq(ctx, items[0])
    yield ctx, PySeq(seq.segs, 'tuple')


@builtin('str')
def _str(eng, ctx, args, kwargs):
    (x,) = args.items()
    if isinstance(x, S) and x.sort == 'I':
        from . import strings
        yield ctx, strings.str_of_int(eng, ctx, x.t)
        return
    t = eng.to_v(ctx, x)
    r = str_of(t)
    ctx.assume(smt.kind(r) == smt.K_STR)
    yield ctx, S(r)


@builtin('functools.reduce')
def _reduce(eng, ctx, args, kwargs):
    """functools.reduce(lambda a, b: a or b, xs, False) over a list of booleans: true iff some element is true.
    (The only use in scope; any other reducer is outside the subset.)"""
    items = args.items()
    f, xs = items[0], items[1]
    init = items[2] if len(items) > 2 else None
    ok = isinstance(f, Fn) and f.kind == 'closure' and isinstance(f.node, ast.Lambda) and isinstance(f.node.body, ast.BoolOp) \
        and isinstance(f.node.body.op, ast.Or) and len(f.node.args.args) == 2 \
        and [getattr(v, 'id', None) for v in f.node.body.values] == [a.arg for a in f.node.args.args]
    if not ok or init is None or not (isinstance(init, S) and init.sort == 'B' and z3.is_false(init.t)):
        raise Unsupported('functools.reduce with a reducer other than `lambda a, b: a or b` and initial value False')
    seq = eng.as_seq(ctx, xs)
    n = seq.length()
    fl = seq.fixed_len()
    if fl is not None:
        yield ctx, S(z3.Or(*[eng.truth(ctx, it) for it in seq.items()]) if fl else z3.BoolVal(False))
        return
    p = z3.Int('rd_p')
    eng.ext.note('functools.reduce(lambda a, b: a or b, xs, False) on booleans is the disjunction of xs')
    yield ctx, S(z3.Exists([p], z3.And(p >= 0, p < n, eng.seq_at(ctx, seq, p) == smt.TRUE)))


def _any_all(eng, ctx, args, is_any):
    (xs,) = args.items()
    seq = eng.as_seq(ctx, xs)
    n = seq.length()
    fl = seq.fixed_len()
    if fl is not None:
        ts = [eng.truth(ctx, it) for it in seq.items()]
        return S((z3.Or(*ts) if is_any else z3.And(*ts)) if ts else z3.BoolVal(not is_any))
    p = z3.Int('aa_p')
    el = eng.seq_at(ctx, seq, p)
    if is_any:
        return S(z3.Exists([p], z3.And(p >= 0, p < n, smt.truthy(el))))
    return S(z3.ForAll([p], z3.Implies(z3.And(p >= 0, p < n), smt.truthy(el))))


@builtin('any')
def _any(eng, ctx, args, kwargs):
    yield ctx, _any_all(eng, ctx, args, True)


@builtin('all')
def _all(eng, ctx, args, kwargs):
    yield ctx, _any_all(eng, ctx, args, False)


def _loads(eng, ctx, args, kwargs):
    """pickle.loads / json.loads / msgpack.loads: any value, or any exception"""
    eng.ext.note('pickle.loads / json.loads / msgpack.loads return an arbitrary value or raise an arbitrary Exception')
    c2 = ctx.fork()
    r = smt.fresh('decoded', V)
    ctx.assume(smt.kind(r) != smt.K_OTHER)
    yield ctx, S(r)
    yield c2, Raised(Exc('AppException', []))


BUILTINS['pickle.loads'] = Fn('builtin', name='pickle.loads', impl=_loads)
BUILTINS['engineio.json.loads'] = Fn('builtin', name='json.loads', impl=_loads)
BUILTINS['json.loads'] = Fn('builtin', name='json.loads', impl=_loads)
BUILTINS['msgpack.loads'] = Fn('builtin', name='msgpack.loads', impl=_loads)


@builtin('min')
def _min(eng, ctx, args, kwargs):
    a, b = args.items()
    x, y = eng.num(ctx, a), eng.num(ctx, b)
    if x is None or y is None:
        raise Unsupported('min of non-numbers')
    if x.sort() != y.sort():
        x = z3.ToReal(x) if x.sort() == I else x
        y = z3.ToReal(y) if y.sort() == I else y
    yield ctx, S(z3.If(x <= y, x, y))


@builtin('max')
def _max(eng, ctx, args, kwargs):
    a, b = args.items()
    x, y = eng.num(ctx, a), eng.num(ctx, b)
    if x is None or y is None:
        raise Unsupported('max of non-numbers')
    if x.sort() != y.sort():
        x = z3.ToReal(x) if x.sort() == I else x
        y = z3.ToReal(y) if y.sort() == I else y
    yield ctx, S(z3.If(x >= y, x, y))


@builtin('functools.partial')
def _partial(eng, ctx, args, kwargs):
    items_front = args.segs[0].items if args.segs and isinstance(args.segs[0], Fixed) else None
    if not items_front:
        raise Unsupported('partial without function')
    f = items_front[0]
    rest = PySeq(eng._drop_front(args, 1), 'tuple')
    yield ctx, Fn('partial', func=f, args=rest, kwargs=dict(kwargs), name='partial')


@builtin('next')
def _next(eng, ctx, args, kwargs):
    (x,) = args.items()
    if isinstance(x, CounterRef):
        yield from x.next(eng, ctx)
        return
    raise Unsupported('next() of %r' % (x,))


@builtin('itertools.count')
def _count(eng, ctx, args, kwargs):
    (start,) = args.items()
    yield ctx, NewCounter(start)


@builtin('random.random')
def _random(eng, ctx, args, kwargs):
    r = smt.fresh('rnd', R)
    ctx.assume(r >= 0, r < 1)
    eng.ext.note('random.random() returns a real in [0, 1)')
    yield ctx, S(r)


@builtin('asyncio.iscoroutinefunction')
def _iscorofn(eng, ctx, args, kwargs):
    (x,) = args.items()
    eng.ext.note('R2: a handler is called the same way whether or not asyncio.iscoroutinefunction() holds (await erased)')
    if isinstance(x, S) and x.sort == 'V':
        yield ctx, S(iscoro(x.t))
    else:
        yield ctx, S(z3.BoolVal(False))


@builtin('asyncio.iscoroutine')
def _iscoro(eng, ctx, args, kwargs):
    (x,) = args.items()
    eng.ext.note('R2: awaiting the result of a callback when asyncio.iscoroutine() holds has no further effect (await erased)')
    if isinstance(x, S) and x.sort == 'V':
        yield ctx, S(isawaitable(x.t))
    else:
        yield ctx, S(z3.BoolVal(False))


@builtin('asyncio.create_task')
def _create_task(eng, ctx, args, kwargs):
    (x,) = args.items()
    eng.ext.note('R3: asyncio.create_task(coro) runs the coroutine at the point of creation; tasks start in creation order and a send does not suspend before queuing')
    yield ctx, x


@builtin('asyncio.wait_for')
def _wait_for(eng, ctx, args, kwargs):
    """R1: await asyncio.wait_for(E.wait(), T) == E.wait(timeout=T) returning on time, or asyncio.TimeoutError.
    The inner E.wait() was already evaluated (it logged a wait without timeout); the result of that evaluation is the
    outcome: truthy -> returns, falsy -> asyncio.TimeoutError."""
    items = args.items()
    x = items[0]
    eng.ext.note('R1: asyncio.wait_for(E.wait(), T) behaves as E.wait(timeout=T): returns when the event is (or becomes) set, raises asyncio.TimeoutError otherwise')
    tmo = items[1] if len(items) > 1 else kwargs.get('timeout')
    if isinstance(x, S) and x.sort == 'B':
        # patch the timeout into the wait that was just logged
        if tmo is not None and ('g', 'waits') in eng.schema.fields and isinstance(tmo, S) and tmo.sort in ('R', 'I') and ctx.notes and ctx.notes[-1][0] == 'untimed-wait':
            _, obj, r = ctx.notes.pop()
            tt = tmo.t if tmo.sort == 'R' else z3.ToReal(tmo.t)
            lg = ctx.st.get('g', 'waits')
            ctx.st = ctx.st.set('g', 'waits', lg.log_append({'ev': obj, 'timeout': tt, 'woke': r}))
        if isinstance(tmo, S) and tmo.sort == 'V':
            ctx.assume(z3.Implies(tmo.t == NONE, x.t))       # no timeout: wait_for returns only when the wait does
        for c, woke in eng.branch(ctx, x.t):
            if woke:
                yield c, S(z3.BoolVal(True))
            else:
                yield c, Raised(Exc('asyncio.TimeoutError'))
        return
    yield ctx, x


@builtin('dict')
def _dict(eng, ctx, args, kwargs):
    """dict() / dict(mapping): a NEW dictionary with the same items (not the object given: nothing equates the two)"""
    items = args.items()
    if kwargs:
        raise Unsupported('dict(**kwargs)')
    if not items:
        yield ctx, ctx.alloc('map', {})
        return
    x = items[0]
    snap = _snapshot(eng, ctx, x) if not isinstance(x, S) else None
    if snap is not None:
        yield ctx, ctx.alloc('map', snap)
        return
    if isinstance(x, S) and x.sort == 'V':
        r = smt.fresh('dictcopy', V)
        k = z3.Const('dc_k', V)
        ctx.assume(smt.kind(r) == smt.K_DICT, smt.vlen(r) == smt.vlen(x.t))
        ctx.assume(z3.ForAll([k], z3.And(smt.vhas(r, k) == smt.vhas(x.t, k), smt.vget(r, k) == smt.vget(x.t, k)), patterns=[smt.vhas(r, k)]))
        yield ctx, S(r)
        return
    raise Unsupported('dict(%r)' % (x,))


@builtin('asyncio.sleep')
def _aio_sleep(eng, ctx, args, kwargs):
    """await asyncio.sleep(t): recorded like time.sleep(t)"""
    ctx.notes.append(('api', 'asyncio.sleep', args, dict(kwargs), None, None))
    yield ctx, S(NONE)


@builtin('asyncio.wait')
def _aio_wait(eng, ctx, args, kwargs):
    yield ctx, S(NONE)


@builtin('set')
def _set(eng, ctx, args, kwargs):
    items = args.items()
    if not items:
        yield ctx, ctx.alloc('map', SV.empty(MapT(Leaf('B'))))
        return
    x = items[0]
    if isinstance(x, KeysView):
        yield ctx, SetV(x.sv.c['dom'])
        return
    if isinstance(x, Ref):
        sv = eng.load(ctx, x)
        if isinstance(sv.ty, (MapT, BidictT)):
            yield ctx, SetV(sv.c['dom'])
            return
        if isinstance(sv.ty, SeqT):
            k = z3.Const('set_k', V)
            p = z3.Int('set_p')
            arr = smt.fresh('setof', z3.ArraySort(V, B))
            ctx.assume(z3.ForAll([k], arr[k] == z3.Exists([p], z3.And(p >= 0, p < sv.c['len'], sv.c['arr'][p] == k)), patterns=[arr[k]]))
            yield ctx, SetV(arr)
            return
    if isinstance(x, HRef) and ctx.heap[x.id].kind == 'map' and isinstance(ctx.heap[x.id].data, SV):
        yield ctx, SetV(ctx.heap[x.id].data.c['dom'])
        return
    if isinstance(x, (PySeq, HRef)) or (isinstance(x, S) and x.sort == 'V'):
        seq = eng.as_seq(ctx, x)
        fl = seq.fixed_len()
        if fl is not None:
            arr = z3.K(V, z3.BoolVal(False))
            for it in seq.items():
                arr = z3.Store(arr, eng.to_v(ctx, it), z3.BoolVal(True))
            yield ctx, SetV(arr)
            return
        k = z3.Const('set_k', V)
        p = z3.Int('set_p')
        n = seq.length()
        arr = smt.fresh('setof', z3.ArraySort(V, B))
        ctx.assume(z3.ForAll([k], arr[k] == z3.Exists([p], z3.And(p >= 0, p < n, eng.seq_at(ctx, seq, p) == k)), patterns=[arr[k]]))
        yield ctx, SetV(arr)
        return
    raise Unsupported('set(%r)' % (x,))


class Recorder(Value):
    """An object outside the verified code whose every use is recorded (ctx.notes): attribute chains name a path, a call
    records ('api', path, bound/positional args, kwargs, result), an attribute assignment records ('apiset', path, value)."""
    def __init__(self, path):
        self.path = path

    def __repr__(self):
        return 'Recorder(%s)' % self.path


class SetV(Value):
    """A set of opaque values as a characteristic array."""
    def __init__(self, arr):
        self.arr = arr


class KeysView(Value):
    """dict.keys() / dict.items() / dict.values() of a snapshot map."""
    def __init__(self, sv, what, live_ref=None):
        self.sv, self.what, self.live_ref = sv, what, live_ref


class NewCounter(Value):
    def __init__(self, start):
        self.start = start


class CounterRef(Value):
    """A reference to the per-key counter slot of a map whose schema attaches a counter (callbacks[sid][0])."""
    def __init__(self, nxt):
        self.next = nxt


# ======================================================================= container methods

def _snapshot(eng, ctx, base):
    """by-value SV of a map-like value"""
    if isinstance(base, Ref):
        return eng.load(ctx, base)
    if isinstance(base, HRef) and ctx.heap[base.id].kind == 'map' and isinstance(ctx.heap[base.id].data, SV):
        return ctx.heap[base.id].data
    if isinstance(base, HRef) and ctx.heap[base.id].kind == 'map' and isinstance(ctx.heap[base.id].data, dict) and not ctx.heap[base.id].data:
        return SV.empty(MapT(Leaf('V')))      # an empty dict literal
    return None


def m_get(ext, eng, ctx, base, args, kwargs):
    items = args.items()
    key = items[0]
    default = items[1] if len(items) > 1 else kwargs.get('default', S(NONE))
    sv = _snapshot(eng, ctx, base)
    if sv is not None and isinstance(sv.ty, (MapT, BidictT)):
        k = eng.to_v(ctx, key)
        for c, pres in eng.branch(ctx, sv.present(k)):
            if pres:
                if isinstance(base, Ref):
                    yield c, eng.ref_value(c, Ref(base.obj, base.field, base.path + (('k', k),)))
                else:
                    ch = sv.child(('k', k))
                    yield c, (S(ch.leaf()) if isinstance(ch.ty, Leaf) else c.alloc('map', ch))
            else:
                yield c, default
        return
    if isinstance(base, HRef) and ctx.heap[base.id].kind == 'map' and isinstance(ctx.heap[base.id].data, dict):
        k = eng.to_v(ctx, key)
        d = ctx.heap[base.id].data
        for kk, vv in d.items():
            if z3.eq(kk, k):
                yield ctx, vv
                return
        if z3.is_const(k) and k.decl().name().startswith('str:'):
            yield ctx, default
            return
        raise Unsupported('get on dict literal with symbolic key')
    if isinstance(base, S) and base.sort == 'V':
        ext.note('x.get(k) on an opaque value: dict lookup through vhas/vget; AttributeError if x is not a dict')
        t = base.t
        for c, isd in eng.branch(ctx, smt.kind(t) == smt.K_DICT):
            if not isd:
                yield c, Raised(Exc('AttributeError'))
                continue
            k = eng.to_v(c, key)
            for c2, has in eng.branch(c, smt.vhas(t, k)):
                yield c2, (S(smt.vget(t, k)) if has else default)
        return
    raise Unsupported('.get on %r' % (base,))


def m_copy(ext, eng, ctx, base, args, kwargs):
    sv = _snapshot(eng, ctx, base)
    if sv is not None:
        yield ctx, ctx.alloc('map', sv)
        return
    if isinstance(base, KeysView):
        yield ctx, base
        return
    if isinstance(base, HRef) and ctx.heap[base.id].kind == 'list':
        yield ctx, ctx.alloc('list', ctx.heap[base.id].data)
        return
    if isinstance(base, HRef) and ctx.heap[base.id].kind == 'map':
        yield ctx, ctx.alloc('map', dict(ctx.heap[base.id].data))
        return
    raise Unsupported('.copy on %r' % (base,))


def _opaque_dict_view(ext, eng, ctx, base, what):
    t = base.t
    ext.note('an opaque dict is iterated as its sequence of (key, value) pairs dkey/dval[0..dlen)')
    for c, isd in eng.branch(ctx, smt.kind(t) == smt.K_DICT):
        if not isd:
            yield c, Raised(Exc('AttributeError'))
            continue
        c.assume(smt.dlen(t) >= 0)
        if what == 'values':
            yield c, PySeq([View(smt.dval(t), z3.IntVal(0), smt.dlen(t))], 'list')
        elif what == 'keys':
            yield c, PySeq([View(smt.dkey(t), z3.IntVal(0), smt.dlen(t))], 'list')
        else:
            yield c, DictPairs(t)


class DictPairs(Value):
    """dict.items() of an opaque dict"""
    def __init__(self, t):
        self.t = t


def m_items(ext, eng, ctx, base, args, kwargs):
    if isinstance(base, S) and base.sort == 'V':
        yield from _opaque_dict_view(ext, eng, ctx, base, 'items')
        return
    sv = _snapshot(eng, ctx, base)
    if sv is None:
        raise Unsupported('.items on %r' % (base,))
    yield ctx, KeysView(sv, 'items', base if isinstance(base, Ref) else None)


def m_keys(ext, eng, ctx, base, args, kwargs):
    sv = _snapshot(eng, ctx, base)
    if sv is None:
        raise Unsupported('.keys on %r' % (base,))
    yield ctx, KeysView(sv, 'keys', base if isinstance(base, Ref) else None)


def m_values(ext, eng, ctx, base, args, kwargs):
    if isinstance(base, S) and base.sort == 'V':
        yield from _opaque_dict_view(ext, eng, ctx, base, 'values')
        return
    sv = _snapshot(eng, ctx, base)
    if sv is None:
        raise Unsupported('.values on %r' % (base,))
    yield ctx, KeysView(sv, 'values', base if isinstance(base, Ref) else None)


def m_append(ext, eng, ctx, base, args, kwargs):
    (x,) = args.items()
    if isinstance(base, HRef) and ctx.heap[base.id].kind == 'list':
        h = ctx.heap[base.id]
        h.data = PySeq(h.data.segs + [Fixed([x])], 'list')
        yield ctx, S(NONE)
        return
    if isinstance(base, Ref):
        ty = eng.ref_type(base)
        sv = eng.load(ctx, base)
        if isinstance(ty, BagT):
            k = eng.to_v(ctx, x)
            cnt = sv.c['cnt']
            eng.store(ctx, base, SV(ty, {'cnt': z3.Store(cnt, k, cnt[k] + 1)}))
            yield ctx, S(NONE)
            return
        if isinstance(ty, SeqT):
            n = sv.c['len']
            eng.store(ctx, base, SV(ty, {'len': n + 1, 'arr': z3.Store(sv.c['arr'], n, eng.to_v(ctx, x))}))
            yield ctx, S(NONE)
            return
    raise Unsupported('.append on %r' % (base,))


def m_remove(ext, eng, ctx, base, args, kwargs):
    (x,) = args.items()
    if isinstance(base, Ref):
        ty = eng.ref_type(base)
        sv = eng.load(ctx, base)
        if isinstance(ty, BagT):
            k = eng.to_v(ctx, x)
            cnt = sv.c['cnt']
            for c, pres in eng.branch(ctx, cnt[k] > 0):
                if pres:
                    sv2 = eng.load(c, base)
                    eng.store(c, base, SV(ty, {'cnt': z3.Store(sv2.c['cnt'], k, sv2.c['cnt'][k] - 1)}))
                    yield c, S(NONE)
                else:
                    yield c, Raised(Exc('ValueError'))
            return
    if isinstance(base, HRef) and ctx.heap[base.id].kind == 'list':
        h = ctx.heap[base.id]
        fl = h.data.fixed_len()
        if fl is not None:
            items = h.data.items()

            def go(c, i):
                if i == len(items):
                    yield c, Raised(Exc('ValueError'))
                    return
                for c2, eq in eng.branch(c, eng.equal(c, items[i], x)):
                    if eq:
                        hh = c2.heap[base.id]
                        hh.data = PySeq([Fixed(items[:i] + items[i + 1:])], 'list')
                        yield c2, S(NONE)
                    else:
                        yield from go(c2, i + 1)
            yield from go(ctx, 0)
            return
    raise Unsupported('.remove on %r' % (base,))


def _no_alias_write(eng, ctx, base, what):
    if isinstance(base, HRef) and ctx.heap[base.id].alias_of is not None:
        eng.alias_write(ctx, ctx.heap[base.id], what)


def m_update(ext, eng, ctx, base, args, kwargs):
    (x,) = args.items()
    _no_alias_write(eng, ctx, base, 'update')
    if isinstance(base, HRef) and ctx.heap[base.id].kind == 'map' and isinstance(ctx.heap[base.id].data, dict) and not ctx.heap[base.id].data:
        ctx.heap[base.id].data = SV.empty(MapT(Leaf('V')))
    if isinstance(base, HRef) and ctx.heap[base.id].kind == 'map' and isinstance(ctx.heap[base.id].data, SV):
        sv = ctx.heap[base.id].data
        other = _snapshot(eng, ctx, x)
        if other is None and isinstance(x, HRef) and isinstance(ctx.heap[x.id].data, dict) and not ctx.heap[x.id].data:
            yield ctx, S(NONE)
            return
        if other is not None and isinstance(sv.ty, MapT) and isinstance(sv.ty.val, Leaf) and isinstance(other.ty, MapT):
            # pointwise: dom' = dom | odom ; val' = odom ? oval : val   (arrays defined by a quantified fact)
            k = z3.Const('upd_k', V)
            dom = smt.fresh('upd_dom', sv.c['dom'].sort())
            val = smt.fresh('upd_val', sv.c['.'].sort())
            ctx.assume(z3.ForAll([k], dom[k] == z3.Or(sv.c['dom'][k], other.c['dom'][k]), patterns=[dom[k]]))
            ctx.assume(z3.ForAll([k], val[k] == z3.If(other.c['dom'][k], other.c['.'][k], sv.c['.'][k]), patterns=[val[k]]))
            ctx.heap[base.id].data = SV(sv.ty, {'dom': dom, '.': val})
            ext.note('dict.update(other): keys of other overwrite, all other keys kept')
            yield ctx, S(NONE)
            return
    raise Unsupported('.update on %r with %r' % (base, x))


def m_setdefault(ext, eng, ctx, base, args, kwargs):
    key, default = args.items()
    if isinstance(base, Ref):
        ty = eng.ref_type(base)
        if isinstance(ty, MapT):
            k = eng.to_v(ctx, key)
            sv = eng.load(ctx, base)
            for c, pres in eng.branch(ctx, sv.present(k)):
                if not pres:
                    eng.store(c, Ref(base.obj, base.field, base.path + (('k', k),)), eng.sv_of(c, default, ty.val))
                yield c, eng.ref_value(c, Ref(base.obj, base.field, base.path + (('k', k),)))
            return
    raise Unsupported('.setdefault on %r' % (base,))


def m_pop(ext, eng, ctx, base, args, kwargs):
    items = args.items()
    _no_alias_write(eng, ctx, base, 'pop')
    if isinstance(base, HRef) and ctx.heap[base.id].kind == 'map' and isinstance(ctx.heap[base.id].data, dict):
        k = eng.to_v(ctx, items[0])
        d = ctx.heap[base.id].data
        for kk in list(d):
            if z3.eq(kk, k):
                v = d[kk]
                nd = dict(d)
                del nd[kk]
                ctx.heap[base.id].data = nd
                yield ctx, v
                return
        if len(items) > 1:
            yield ctx, items[1]
            return
        yield ctx, Raised(Exc('KeyError'))
        return
    if isinstance(base, Ref):
        ty = eng.ref_type(base)
        sv = eng.load(ctx, base)
        if isinstance(ty, SeqT) and len(items) == 1 and const_int(items[0]) == 0:
            for c, ne in eng.branch(ctx, sv.c['len'] > 0):
                if not ne:
                    yield c, Raised(Exc('IndexError'))
                    continue
                sv2 = eng.load(c, base)
                head = sv2.c['arr'][0]
                arr = smt.fresh('popped', sv2.c['arr'].sort())
                p = z3.Int('pop_p')
                c.assume(z3.ForAll([p], arr[p] == sv2.c['arr'][p + 1], patterns=[arr[p]]))
                eng.store(c, base, SV(ty, {'len': sv2.c['len'] - 1, 'arr': arr}))
                yield c, S(head)
            return
        if isinstance(ty, (MapT,)):
            k = eng.to_v(ctx, items[0])
            for c, pres in eng.branch(ctx, sv.present(k)):
                if pres:
                    val = eng.ref_value(c, Ref(base.obj, base.field, base.path + (('k', k),)))
                    if isinstance(val, Ref):
                        val = c.alloc('map', eng.load(c, val))
                    eng.store(c, base, eng.load(c, base).without(k))
                    yield c, val
                elif len(items) > 1:
                    yield c, items[1]
                else:
                    yield c, Raised(Exc('KeyError'))
            return
    raise Unsupported('.pop on %r' % (base,))


def m_union(ext, eng, ctx, base, args, kwargs):
    (x,) = args.items()
    if isinstance(base, SetV) and isinstance(x, SetV):
        k = z3.Const('un_k', V)
        arr = smt.fresh('union', base.arr.sort())
        ctx.assume(z3.ForAll([k], arr[k] == z3.Or(base.arr[k], x.arr[k]), patterns=[arr[k]]))
        yield ctx, SetV(arr)
        return
    raise Unsupported('.union')


def m_set_add(ext, eng, ctx, base, args, kwargs):
    """set.add / set.discard on a module-level or local set that no contract speaks about"""
    if isinstance(base, HRef) and ctx.heap[base.id].kind == 'map':
        yield ctx, S(NONE)
        return
    raise Unsupported('.add/.discard on %r' % (base,))


def m_format(ext, eng, ctx, base, args, kwargs):
    """str.format / str % args: an opaque string (used for log and error messages only)"""
    r = smt.fresh('fmt', V)
    ctx.assume(smt.kind(r) == smt.K_STR)
    yield ctx, S(r)


CONTAINER_METHODS = {'get': m_get, 'copy': m_copy, 'items': m_items, 'keys': m_keys, 'values': m_values,
                     'append': m_append, 'remove': m_remove, 'update': m_update, 'setdefault': m_setdefault,
                     'pop': m_pop, 'union': m_union, 'add': m_set_add, 'discard': m_set_add, 'format': m_format}
