"""Types, structured values and the symbolic state.

A container type is flattened into *components*: one SMT array per (field, depth) -- never arrays of datatypes
(DESIGN.md 3.3 / experiment E2).  A structured value SV(ty, comps) is a by-value snapshot; a Ref is a borrowed
path into the state, written through on mutation.
"""
import z3
from . import smt
from .smt import V, B, I, R

SORTS = {'V': V, 'B': B, 'I': I, 'R': R}


class Ty:
    pass


class Leaf(Ty):
    def __init__(self, sort='V'):
        self.sort = sort

    def comps(self):
        return [('', [], SORTS[self.sort])]

    def __repr__(self):
        return self.sort


class MapT(Ty):
    def __init__(self, val, key='V', total=False):
        self.key, self.val, self.total = key, val, total      # total: every key present (ghost maps)

    def comps(self):
        k = SORTS[self.key]
        return [('dom', [k], B)] + [('.' + n, [k] + ks, s) for n, ks, s in self.val.comps()]

    def __repr__(self):
        return 'Map[%s,%r]' % (self.key, self.val)


class BidictT(Ty):
    def comps(self):
        return [('dom', [V], B), ('val', [V], V), ('idom', [V], B), ('inv', [V], V)]

    def __repr__(self):
        return 'Bidict'


class BagT(Ty):
    """A list used as a multiset of opaque values (pending_disconnect[ns])."""
    def comps(self):
        return [('cnt', [V], I)]

    def __repr__(self):
        return 'Bag'


class SeqT(Ty):
    def __init__(self, elem='V'):
        self.elem = elem

    def comps(self):
        return [('len', [], I), ('arr', [I], SORTS[self.elem])]

    def __repr__(self):
        return 'Seq[%s]' % self.elem


class LogT(Ty):
    """Append-only ghost log of records.  fields: name -> 'V' | 'I' | 'B' | 'R' | 'seq' (a sequence of V)."""
    def __init__(self, fields):
        self.fields = dict(fields)

    def comps(self):
        out = [('len', [], I)]
        for f, k in self.fields.items():
            if k == 'seq':
                out += [(f + '#len', [I], I), (f + '#arr', [I, I], V)]
            else:
                out.append((f, [I], SORTS[k]))
        return out

    def __repr__(self):
        return 'Log[%s]' % ','.join(self.fields)


class RecT(Ty):
    def __init__(self, name, fields):
        self.name, self.fields = name, fields

    def comps(self):
        out = []
        for f, t in self.fields.items():
            out += [(f + '/' + n, ks, s) for n, ks, s in t.comps()]
        return out

    def __repr__(self):
        return 'Rec:' + self.name


class OptT(Ty):
    def __init__(self, inner):
        self.inner = inner

    def comps(self):
        return [('some', [], B)] + [('?' + n, ks, s) for n, ks, s in self.inner.comps()]

    def __repr__(self):
        return 'Opt[%r]' % self.inner


class SV:
    """Structured value: type + one term per component."""
    __slots__ = ('ty', 'c')

    def __init__(self, ty, c):
        self.ty, self.c = ty, c

    @staticmethod
    def fresh(ty, name):
        return SV(ty, {n: smt.fresh(name + ':' + n, smt.arr_sort(ks, s)) for n, ks, s in ty.comps()})

    @staticmethod
    def named(ty, name):
        return SV(ty, {n: z3.Const(name + ':' + n, smt.arr_sort(ks, s)) for n, ks, s in ty.comps()})

    @staticmethod
    def empty(ty):
        """An empty container of this type (components other than the domain are arbitrary but fixed)."""
        c = {}
        for n, ks, s in ty.comps():
            if isinstance(ty, (MapT, BidictT)) and n in ('dom', 'idom'):
                c[n] = smt.const_array(ks, z3.BoolVal(False))
            elif isinstance(ty, BagT):
                c[n] = smt.const_array(ks, z3.IntVal(0))
            elif isinstance(ty, (SeqT, LogT)) and n == 'len':
                c[n] = z3.IntVal(0)
            elif isinstance(ty, OptT) and n == 'some':
                c[n] = z3.BoolVal(False)
            else:
                c[n] = z3.Const('dflt:%r:%s' % (ty, n), smt.arr_sort(ks, s))
        return SV(ty, c)

    # --- navigation (one step) ---
    def child(self, step):
        """step = ('k', term) | ('f', name) | ('?',) ; returns the sub-value (no presence check)."""
        ty = self.ty
        if step[0] == 'k':
            k = step[1]
            if isinstance(ty, MapT):
                return SV(ty.val, {n: self.c['.' + n][k] for n, _, _ in ty.val.comps()})
            if isinstance(ty, BidictT):
                return SV(Leaf('V'), {'': self.c['val'][k]})
            if isinstance(ty, SeqT):
                return SV(Leaf(ty.elem), {'': self.c['arr'][k]})
        elif step[0] == 'f' and isinstance(ty, RecT):
            f = step[1]
            return SV(ty.fields[f], {n: self.c[f + '/' + n] for n, _, _ in ty.fields[f].comps()})
        elif step[0] == '?' and isinstance(ty, OptT):
            return SV(ty.inner, {n: self.c['?' + n] for n, _, _ in ty.inner.comps()})
        raise TypeError('cannot navigate %r by %r' % (ty, step))

    def present(self, key):
        ty = self.ty
        if isinstance(ty, MapT) and ty.total:
            return z3.BoolVal(True)
        if isinstance(ty, (MapT, BidictT)):
            return self.c['dom'][key]
        if isinstance(ty, BagT):
            return self.c['cnt'][key] > 0
        if isinstance(ty, SeqT):
            return z3.And(key >= 0, key < self.c['len'])
        raise TypeError('no membership on %r' % ty)

    def with_child(self, step, child):
        """Functional update: the value at `step` replaced by `child` (for maps: key made present)."""
        ty = self.ty
        c = dict(self.c)
        if step[0] == 'k':
            k = step[1]
            if isinstance(ty, MapT):
                c['dom'] = z3.Store(c['dom'], k, z3.BoolVal(True))
                for n, _, _ in ty.val.comps():
                    c['.' + n] = z3.Store(c['.' + n], k, child.c[n])
                return SV(ty, c)
            if isinstance(ty, SeqT):
                c['arr'] = z3.Store(c['arr'], k, child.c[''])
                return SV(ty, c)
        elif step[0] == 'f' and isinstance(ty, RecT):
            for n, _, _ in ty.fields[step[1]].comps():
                c[step[1] + '/' + n] = child.c[n]
            return SV(ty, c)
        elif step[0] == '?' and isinstance(ty, OptT):
            c['some'] = z3.BoolVal(True)
            for n, _, _ in ty.inner.comps():
                c['?' + n] = child.c[n]
            return SV(ty, c)
        raise TypeError('cannot update %r at %r' % (ty, step))

    def without(self, key):
        ty = self.ty
        c = dict(self.c)
        if isinstance(ty, MapT):
            c['dom'] = z3.Store(c['dom'], key, z3.BoolVal(False))
            return SV(ty, c)
        if isinstance(ty, BidictT):
            c['dom'] = z3.Store(c['dom'], key, z3.BoolVal(False))
            c['idom'] = z3.Store(c['idom'], self.c['val'][key], z3.BoolVal(False))
            return SV(ty, c)
        raise TypeError('cannot delete from %r' % ty)

    def log_append(self, rec):
        """rec: field -> term, or (len term, Array Int V) for 'seq' fields"""
        ty = self.ty
        assert isinstance(ty, LogT)
        c = dict(self.c)
        n = self.c['len']
        for f, k in ty.fields.items():
            if k == 'seq':
                ln, arr = rec[f]
                c[f + '#len'] = z3.Store(c[f + '#len'], n, ln)
                c[f + '#arr'] = z3.Store(c[f + '#arr'], n, arr)
            else:
                c[f] = z3.Store(c[f], n, rec[f])
        c['len'] = n + 1
        return SV(ty, c)

    def get_path(self, path):
        v = self
        for st in path:
            v = v.child(st)
        return v

    def set_path(self, path, child):
        if not path:
            return child
        return self.with_child(path[0], self.child(path[0]).set_path(path[1:], child))

    def del_path(self, path, key):
        if not path:
            return self.without(key)
        return self.with_child_nodom(path[0], self.child(path[0]).del_path(path[1:], key))

    def with_child_nodom(self, step, child):
        # like with_child, but an existing key stays as it is (used for writes *through* a key known present)
        return self.with_child(step, child)

    def is_empty(self):
        ty = self.ty
        if isinstance(ty, (MapT, BidictT)):
            k = SORTS[ty.key] if isinstance(ty, MapT) else V
            return self.c['dom'] == z3.K(k, z3.BoolVal(False))
        if isinstance(ty, BagT):
            kk = z3.Const('bag_k', V)
            return z3.ForAll([kk], self.c['cnt'][kk] <= 0)
        if isinstance(ty, SeqT):
            return self.c['len'] <= 0
        if isinstance(ty, OptT):
            return z3.Not(self.c['some'])
        raise TypeError('no emptiness on %r' % ty)

    def leaf(self):
        return self.c['']

    def eq(self, other):
        return z3.And(*[self.c[n] == other.c[n] for n in self.c]) if self.c else z3.BoolVal(True)

    def __repr__(self):
        return 'SV<%r>' % (self.ty,)


class State:
    """Symbolic heap of the singleton objects in scope: (object, field) -> SV."""
    def __init__(self, fields=None, schema=None):
        self.f = dict(fields or {})
        self.schema = schema

    def copy(self):
        return State(self.f, self.schema)

    def get(self, obj, field):
        return self.f[(obj, field)]

    def set(self, obj, field, sv):
        s = self.copy()
        s.f[(obj, field)] = sv
        return s

    def has(self, obj, field):
        return (obj, field) in self.f

    @staticmethod
    def fresh(schema, tag):
        st = State(schema=schema)
        for (obj, fld), ty in schema.fields.items():
            st.f[(obj, fld)] = SV.named(ty, '%s.%s.%s' % (tag, obj, fld))
        return st

    def havoc(self, keys, tag):
        if not keys:
            return self
        st = self.copy()
        for k in keys:
            st.f[k] = SV.fresh(self.schema.fields[k], '%s.%s.%s' % (tag, k[0], k[1]))
        return st


class Schema:
    """The world a family of functions lives in: singleton objects, their typed fields, links between them,
    and per-object class (for method lookup)."""
    def __init__(self, name):
        self.name = name
        self.fields = {}      # (obj, field) -> Ty
        self.links = {}       # (obj, attr) -> obj
        self.classes = {}     # obj -> qualified class name ('socketio.server.Server')
        self.consts = {}      # (obj, attr) -> python-level Value factory (configuration constants)

    def obj(self, name, cls, fields=None, links=None, consts=None):
        self.classes[name] = cls
        for f, t in (fields or {}).items():
            self.fields[(name, f)] = t
        for a, o in (links or {}).items():
            self.links[(name, a)] = o
        for a, v in (consts or {}).items():
            self.consts[(name, a)] = v
        return self

    def derive(self, name, **class_overrides):
        s = Schema(name)
        s.fields, s.links, s.consts = dict(self.fields), dict(self.links), dict(self.consts)
        s.classes = dict(self.classes)
        s.classes.update(class_overrides)
        return s


def sv_equiv(a, b, depth=0):
    """Observational equality of two structured values of the same type (used for 'state == expected state'
    obligations): logs are compared up to their length, maps on their domain, the rest component-wise."""
    ty = a.ty
    if isinstance(ty, LogT):
        i = z3.Int('eq_i%d' % depth)
        parts = []
        for f, k in ty.fields.items():
            if k == 'seq':
                p = z3.Int('eq_p%d' % depth)
                la, lb = a.c[f + '#len'][i], b.c[f + '#len'][i]
                parts.append(la == lb)
                parts.append(z3.ForAll([p], z3.Implies(z3.And(p >= 0, p < la), a.c[f + '#arr'][i][p] == b.c[f + '#arr'][i][p])))
            else:
                parts.append(a.c[f][i] == b.c[f][i])
        return z3.And(a.c['len'] == b.c['len'],
                      z3.ForAll([i], z3.Implies(z3.And(i >= 0, i < a.c['len']), z3.And(*parts))))
    if isinstance(ty, MapT) and not isinstance(ty.val, Leaf):
        k = z3.Const('eq_k%d' % depth, SORTS[ty.key])
        inner = sv_equiv(a.child(('k', k)), b.child(('k', k)), depth + 1)
        if ty.total:
            return z3.ForAll([k], inner)
        return z3.ForAll([k], z3.And(a.c['dom'][k] == b.c['dom'][k], z3.Implies(a.c['dom'][k], inner)))
    if isinstance(ty, MapT):
        k = z3.Const('eq_k%d' % depth, SORTS[ty.key])
        if ty.total:
            return a.c['.'] == b.c['.']
        return z3.ForAll([k], z3.And(a.c['dom'][k] == b.c['dom'][k], z3.Implies(a.c['dom'][k], a.c['.'][k] == b.c['.'][k])))
    if isinstance(ty, SeqT):
        p = z3.Int('eq_s%d' % depth)
        return z3.And(a.c['len'] == b.c['len'],
                      z3.ForAll([p], z3.Implies(z3.And(p >= 0, p < a.c['len']), a.c['arr'][p] == b.c['arr'][p])))
    if isinstance(ty, BidictT):
        k = z3.Const('eq_k%d' % depth, V)
        return z3.ForAll([k], z3.And(a.c['dom'][k] == b.c['dom'][k], z3.Implies(a.c['dom'][k], a.c['val'][k] == b.c['val'][k])))
    if isinstance(ty, BagT):
        return a.c['cnt'] == b.c['cnt']
    if isinstance(ty, RecT):
        return z3.And(*[sv_equiv(a.child(('f', f)), b.child(('f', f)), depth + 1) for f in ty.fields])
    if isinstance(ty, OptT):
        return z3.And(a.c['some'] == b.c['some'], z3.Implies(a.c['some'], sv_equiv(a.child(('?',)), b.child(('?',)), depth + 1)))
    return a.eq(b)
