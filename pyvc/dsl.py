"""Small helpers for writing contracts."""
import z3
from . import smt
from .smt import V, B, I, NONE, atom
from .model import SV, SeqT
from .vals import S, PySeq, Fixed, View, Ref


def A(pyconst):
    return atom(pyconst)


def tup(*items):
    return PySeq([Fixed([S(i) if isinstance(i, z3.ExprRef) else i for i in items])], 'tuple')


def prepend(prefix_terms, seq, kind=None):
    """tuple (p1, ..., *seq)"""
    return PySeq([Fixed([S(t) if isinstance(t, z3.ExprRef) else t for t in prefix_terms])] + list(seq.segs), kind or seq.kind)


def log_append(c, obj, field, key=None, **rec):
    """Append a record to a ghost log (optionally the log stored under `key` of a map of logs)."""
    eng, ctx = c.eng, c.ctx
    sv = ctx.st.get(obj, field)
    path = [('k', key)] if key is not None else []
    log = sv.get_path(path)
    r = {}
    for f, k in log.ty.fields.items():
        v = rec[f]
        if k == 'seq':
            seq = eng.as_seq(ctx, v)
            r[f] = (seq.length(), eng.seq_to_sv(ctx, seq, SeqT('V')).c['arr'])
        else:
            r[f] = v.t if isinstance(v, S) else (eng.to_v(ctx, v) if not isinstance(v, z3.ExprRef) else v)
    ctx.st = ctx.st.set(obj, field, sv.set_path(path, log.log_append(r)))


def first_match(cands):
    """cands: [(cond, payload)] -> [(guard = cond_i and no earlier cond, payload)] + (none-guard)"""
    out = []
    prev = []
    for cond, payload in cands:
        out.append((z3.And(cond, *[z3.Not(p) for p in prev]), payload))
        prev.append(cond)
    none = z3.And(*[z3.Not(p) for p in prev]) if prev else z3.BoolVal(True)
    return out, none


def m2(sv, a, b):
    """presence of sv[a][b] in a two-level map"""
    return z3.And(sv.c['dom'][a], sv.c['.dom'][a][b])


def v2(sv, a, b):
    return sv.c['..'][a][b]


def m1(sv, a):
    return sv.c['dom'][a]


def v1(sv, a):
    return sv.c['.'][a]


# ---------------------------------------------------------------- ghost logs in clauses
def seq_matches(c, ln_term, arr_term, seq):
    """the (len, array) pair equals the PySeq `seq` elementwise"""
    eng, ctx = c.eng, c.ctx
    n = seq.length()
    fl = seq.fixed_len()
    if fl is not None:
        return z3.And(ln_term == fl, *[arr_term[i] == eng.to_v(ctx, it) for i, it in enumerate(seq.items())])
    p = z3.Int('sm_p')
    return z3.And(ln_term == n, z3.ForAll([p], z3.Implies(z3.And(p >= 0, p < n), arr_term[p] == eng.seq_at(ctx, seq, p)),
                                          patterns=[arr_term[p]]))


def entry_is(c, log, idx, **fields):
    """record `idx` of a log has the given fields (PySeq for 'seq' fields; fields left out are unconstrained)"""
    parts = []
    for f, v in fields.items():
        k = log.ty.fields[f]
        if k == 'seq':
            parts.append(seq_matches(c, log.c[f + '#len'][idx], log.c[f + '#arr'][idx], c.eng.as_seq(c.ctx, v)))
        else:
            t = v.t if isinstance(v, S) else (v if isinstance(v, z3.ExprRef) else c.eng.to_v(c.ctx, v))
            parts.append(log.c[f][idx] == t)
    return z3.And(*parts)


def log_grew(pre_log, post_log, k):
    """post has exactly k more records than pre, the earlier ones untouched"""
    i = z3.Int('lg_i')
    parts = [post_log.c['len'] == pre_log.c['len'] + k]
    same = []
    for n in pre_log.c:
        if n == 'len':
            continue
        same.append(post_log.c[n][i] == pre_log.c[n][i])
    parts.append(z3.ForAll([i], z3.Implies(z3.And(i >= 0, i < pre_log.c['len']), z3.And(*same))))
    return z3.And(*parts)


def drop_last_matches(c, ln_term, arr_term, seq):
    """(len, array) equals seq[:-1]"""
    n = seq.length()
    p = z3.Int('dl_p')
    m = z3.If(n >= 1, n - 1, 0)
    return z3.And(ln_term == m, z3.ForAll([p], z3.Implies(z3.And(p >= 0, p < m), arr_term[p] == c.eng.seq_at(c.ctx, seq, p))))


def FA(vs, body, patterns=None):
    """ForAll with patterns when z3 accepts them (patterns over post-state terms may contain store/ite and be rejected)."""
    if patterns:
        try:
            return z3.ForAll(vs, body, patterns=patterns)
        except z3.Z3Exception:
            pass
    return z3.ForAll(vs, body)


# ---------------------------------------------------------------- fields of a record (local object or state path)
def fget(c, obj, name):
    from .engine import HRef
    if isinstance(obj, HRef):
        return c.ctx.heap[obj.id].data[name]
    res = list(c.eng.getattr(c.ctx, obj, name))
    assert len(res) == 1
    return res[0][1]


def fset(c, obj, name, value):
    from .engine import HRef
    if isinstance(value, z3.ExprRef):
        value = S(value)
    if isinstance(obj, HRef):
        c.ctx.heap[obj.id].data[name] = value
        return
    res = list(c.eng.setattr(c.ctx, obj, name, value))
    assert len(res) == 1 and res[0][1] is None


def fv(c, obj, name):
    """field as a V term"""
    return c.eng.to_v(c.ctx, fget(c, obj, name))
