"""Small helpers for writing contracts."""
import z3
from . import smt
from .smt import V, B, I, NONE, atom
from .model import SV, SeqT
from .vals import S, PySeq, Fixed, View, Ref


def A(pyconst):
    return atom(pyconst)


def tup(*items):
    return PySeq([Fixed([S(i) if isinstance(i, z3.ExprRef) else i for i in items])], 'tuple')


def prepend(prefix_terms, seq, kind=None):
    """tuple (p1, ..., *seq)"""
    return PySeq([Fixed([S(t) if isinstance(t, z3.ExprRef) else t for t in prefix_terms])] + list(seq.segs), kind or seq.kind)


def log_append(c, obj, field, key=None, **rec):
    """Append a record to a ghost log (optionally the log stored under `key` of a map of logs)."""
    eng, ctx = c.eng, c.ctx
    sv = ctx.st.get(obj, field)
    path = [('k', key)] if key is not None else []
    log = sv.get_path(path)
    r = {}
    for f, k in log.ty.fields.items():
        v = rec[f]
        if k == 'seq':
            seq = eng.as_seq(ctx, v)
            r[f] = (seq.length(), eng.seq_to_sv(ctx, seq, SeqT('V')).c['arr'])
        else:
            r[f] = v.t if isinstance(v, S) else (eng.to_v(ctx, v) if not isinstance(v, z3.ExprRef) else v)
    ctx.st = ctx.st.set(obj, field, sv.set_path(path, log.log_append(r)))


def first_match(cands):
    """cands: [(cond, payload)] -> [(guard = cond_i and no earlier cond, payload)] + (none-guard)"""
    out = []
    prev = []
    for cond, payload in cands:
        out.append((z3.And(cond, *[z3.Not(p) for p in prev]), payload))
        prev.append(cond)
    none = z3.And(*[z3.Not(p) for p in prev]) if prev else z3.BoolVal(True)
    return out, none


def m2(sv, a, b):
    """presence of sv[a][b] in a two-level map"""
    return z3.And(sv.c['dom'][a], sv.c['.dom'][a][b])


def v2(sv, a, b):
    return sv.c['..'][a][b]


def m1(sv, a):
    return sv.c['dom'][a]


def v1(sv, a):
    return sv.c['.'][a]
