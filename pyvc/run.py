"""Driver: ./check <property> [--tier quick|thorough] -- verifies every function under contract that the property
depends on, from the current /repo source, writes evidence/<id>.json, prints VIOLATION / KNOWN-FINDING lines.

Exit codes: 0 held; 1 violation (replayed input or no-failing-input-found); 2 undecided / function outside the
subset or not found; 3 engine self-check failed (vacuous case, canary verified, engine error)."""
import argparse
import importlib
import json
import multiprocessing
import os
import pkgutil
import subprocess
import sys
import time

sys.setrecursionlimit(20000)
ROOT = os.path.dirname(os.path.dirname(os.path.abspath(__file__)))
sys.path.insert(0, ROOT)

from pyvc import smt, source                         # noqa: E402
from pyvc.contract import Registry, verify           # noqa: E402
from pyvc.engine import Engine                       # noqa: E402

_REG = None
NORECORD = False
ONLY = None


def registry():
    global _REG
    if _REG is None:
        _REG = Registry()
        import contracts
        for m in sorted(pkgutil.iter_modules(contracts.__path__), key=lambda m: m.name):
            mod = importlib.import_module('contracts.' + m.name)
            if hasattr(mod, 'register'):
                mod.register(_REG)
        from contracts import transparency
        transparency.tag(_REG)
    return _REG


def make_engine_factory(schema):
    from contracts import ext as cext

    def mk():
        return Engine(schema, registry(), cext.make_externals(schema))
    return mk


def _job(args):
    idx, target, seed, timeout_ms, both = args
    reg = registry()
    c = reg.contracts[idx]
    t0 = time.time()
    import signal
    from pyvc import contract as _cm
    _cm.KNOWN_OPEN = {k['obligation'] for k in load_known() if k.get('status', 'open') == 'open'}
    if not _cm.BASELINE_NAMES:
        for _l in load_baseline().values():
            _cm.BASELINE_NAMES.update(_l)

    class Budget(BaseException):
        pass

    def on_alarm(signum, frame):
        raise Budget()
    budget = int(os.environ.get('PYVC_FN_BUDGET', '900' if not both else '2400'))
    signal.signal(signal.SIGALRM, on_alarm)
    signal.alarm(budget)
    try:
        r = verify(c, target, make_engine_factory(c.schema), seed=seed, timeout_ms=timeout_ms, both=both)
        d = r.to_json()
    except Budget:
        d = {'target': target, 'status': 'unverifiable', 'reason': 'time budget of %d s for one function exhausted (path explosion or slow solver)' % budget,
             'obligations': [], 'paths': 0, 'feasible_paths': 0, 'src_hash': '', 'assumed': [], 'inlined': [], 'callees': [], 'time_s': budget, 'stats': {}}
    except Exception as e:      # engine crash
        import traceback
        d = {'target': target, 'status': 'error', 'reason': '%s\n%s' % (e, traceback.format_exc()), 'obligations': [],
             'paths': 0, 'feasible_paths': 0, 'src_hash': '', 'assumed': [], 'inlined': [], 'callees': [], 'time_s': 0, 'stats': {}}
    signal.alarm(0)
    d['solver'] = dict(smt.SOLVER_STATS)
    d['contract'] = c.target
    d['props'] = c.props
    d['abstraction'] = c.abstraction
    d['wall_s'] = round(time.time() - t0, 3)
    return d


def extra_checks_mod():
    from contracts import extra_checks
    return extra_checks


def dead_before(name):
    """the contract case was already unrealised on the unchanged tree (recorded in some evidence file at rebaseline time)"""
    p = os.path.join(ROOT, 'expected', 'dead_cases.json')
    try:
        return name in json.load(open(p))
    except Exception:
        return False


def load_known():
    p = os.path.join(ROOT, 'known_findings.json')
    if not os.path.exists(p):
        return []
    return json.load(open(p)).get('findings', [])


def load_baseline():
    p = os.path.join(ROOT, 'expected', 'obligations.json')
    if not os.path.exists(p):
        return {}
    return json.load(open(p))


def run_property(prop, tier='quick', seed=0, jobs=None, rebaseline=False, only=None, verbose=False):
    t0 = time.time()
    reg = registry()
    todo = []
    twin_targets = None
    if prop == 'C14':
        from contracts import twins
        twin_targets = set(twins.differing_targets(reg))
    for i, c in enumerate(reg.contracts):
        if twin_targets is not None:
            if c.trusted:
                continue
            for t in c.targets():
                if t in twin_targets and not (only and only not in t):
                    todo.append((i, t, seed, 10000 if tier == 'quick' else 30000, tier == 'thorough'))
            continue
        if prop in c.props and not c.trusted:
            for t in c.targets():
                if only and only not in t:
                    continue
                todo.append((i, t, seed, 10000 if tier == 'quick' else 30000, tier == 'thorough'))
    # callee closure: the proofs of a property's functions use the contracts of the functions they call; those contracts are
    # part of the property's check too (recorded at the last rebaseline in expected/callees.json), so that a change inside a
    # callee is measured by every property that relies on it
    if twin_targets is None and not only and not os.environ.get('PYVC_NO_CLOSURE'):
        try:
            cal = json.load(open(os.path.join(ROOT, 'expected', 'callees.json')))
        except Exception:
            cal = {}
        have = {t_[1] for t_ in todo}
        frontier = list(have)
        idx_of = {}
        for i, c in enumerate(reg.contracts):
            for t in c.targets():
                idx_of.setdefault(t, i)
        while frontier:
            t = frontier.pop()
            for cname in cal.get(t, []):
                k = reg.by_target.get(cname)
                if k is None or k.trusted or cname in have or cname not in idx_of:
                    continue
                have.add(cname)
                frontier.append(cname)
                todo.append((idx_of[cname], cname, seed, 10000 if tier == 'quick' else 30000, tier == 'thorough'))
    trusted = [c.target for c in reg.contracts if prop in c.props and c.trusted]
    if not todo:
        print('no function under contract serves %s' % prop)
        return 3
    # longest first: the functions that took longest when the baseline was recorded start first, so that they are not starved
    # at the end of the queue (hints only order the work; they are never a verdict)
    try:
        hints = json.load(open(os.path.join(ROOT, 'expected', 'cost_hints.json')))
    except Exception:
        hints = {}
    todo.sort(key=lambda t_: -hints.get(t_[1], 0))
    nproc = jobs or min(16, len(todo), os.cpu_count() or 4)
    os.environ['PYVC_INNER_JOBS'] = str(max(1, min(8, (os.cpu_count() or 4) // 2)))     # only functions with many queries fork
    if nproc > 1:
        ctx = multiprocessing.get_context('fork')
        with ctx.Pool(nproc) as pool:
            results = pool.map(_job, todo, chunksize=1)
    else:
        results = [_job(t) for t in todo]
    from contracts import extra_checks
    extra = extra_checks.run(prop, tier, seed) if hasattr(extra_checks, 'run') else []
    if prop == 'C14':
        from contracts import twins
        extra += twins.obligations(reg, {r['target']: r for r in results})
    return report(prop, tier, seed, results, extra, trusted, t0, rebaseline, verbose)


def report(prop, tier, seed, results, extra, trusted, t0, rebaseline, verbose):
    known_all = load_known()
    known = [k for k in known_all if k['property'] == prop]
    foreign = []
    _allb = load_baseline()
    baseline = _allb.get(prop)
    # an obligation proved on the unchanged tree under ANY property counts as baseline (C14 adds functions whose twins diverge)
    proved_somewhere = set()
    for _l in _allb.values():
        proved_somewhere.update(_l)
    obligations = []
    problems = {'refuted': [], 'undecided': [], 'unverifiable': [], 'selfcheck': [], 'missing': []}
    functions = []
    assumptions = set()
    by_backend = {}
    cvc5_cross = {}
    solver_s = 0.0
    for r in results:
        functions.append({'function': r['target'], 'contract': r['contract'], 'status': r['status'], 'source_sha256_16': r['src_hash'],
                          'paths': r['paths'], 'obligations': len(r['obligations']), 'wall_s': r['wall_s'],
                          'callee_contracts_used': r['callees'], 'inlined': r['inlined'],
                          'abstraction': r.get('abstraction', '')})
        for a in r['assumed']:
            assumptions.add(a)
        for k_, v_ in (r.get('stats', {}).get('cvc5_cross') or {}).items():
            if k_ == 'disagreements':
                for n_ in v_:
                    problems['selfcheck'].append((n_, 'second back end disagrees: z3 proved the bundle, cvc5 reports a counter-model'))
            else:
                cvc5_cross[k_] = cvc5_cross.get(k_, 0) + v_
        solver_s += r['solver'].get('z3_s', 0) + r['solver'].get('cvc5_s', 0) + r['solver'].get('feas_s', 0)
        if r['status'] == 'unverifiable':
            problems['unverifiable'].append((r['target'], r['reason']))
        elif r['status'] == 'missing':
            problems['missing'].append((r['target'], r['reason']))
        elif r['status'] == 'error':
            problems['selfcheck'].append((r['target'], r['reason']))
        for o in r['obligations']:
            o = dict(o)
            o['function'] = r['target']
            import re as _re
            m_ = _re.search(r'@(C[0-9]{2,3})', o['name'])
            if m_ and m_.group(1) != prop:
                continue          # a clause that serves another property only
            obligations.append(o)
    for o in extra:
        obligations.append(o)
    names = {o['name'] for o in obligations}
    res_status = {o['name']: o['status'] for o in obligations}
    violations = []
    unreachable = []
    dead_cases = []
    bounded = []
    skipped = []
    known_lines = []
    discharged = 0
    counted = 0
    for o in obligations:
        if o['name'].endswith('#residual'):
            continue        # counted through its parent
        counted += 1
        for b in (o.get('backend') or 'syntactic').split('+'):
            by_backend[b] = by_backend.get(b, 0) + 1
        st = o['status']
        for cx in o.get('cvc5_cross_check', []):
            cvc5_cross[cx] = cvc5_cross.get(cx, 0) + 1
            if cx == 'sat' and st == 'proved':
                problems['selfcheck'].append((o['name'], 'second back end disagrees: z3 proved the obligation, cvc5 reports a counter-model'))
        if st == 'proved':
            discharged += 1
            continue
        if st == 'bounded':
            counted -= 1          # a bounded stand-in: held on every case of its finite grammar, never counted as proved
            bounded.append({'check': o['name'], 'cases': o.get('cases'), 'bound': o.get('bound'), 'functions': o.get('function')})
            continue
        if st == 'dead-case':
            counted -= 1
            if baseline is not None and o['name'] in proved_somewhere and not rebaseline:
                unreachable.append(o['name'])       # was realised on the unchanged tree, is not any more
            else:
                dead_cases.append(o['name'])
            continue
        if st == 'vacuous':
            if baseline is not None and o['kind'] == 'reach' and (o['name'] in proved_somewhere or dead_before(o['name'])):
                # the case was reachable on the unchanged tree: the code changed so that it no longer occurs (the contract
                # over-approximates); reported, not a failure
                unreachable.append(o['name'])
                discharged += 1
                continue
            problems['selfcheck'].append((o['name'], 'vacuous: %s' % o['kind']))
            continue
        if st == 'skipped':
            skipped.append(o['name'])
            counted -= 1          # not examined: neither an obligation discharged nor one failed (listed in the evidence)
            continue
        kf = [k for k in known if k['obligation'] == o['name'] and k.get('status', 'open') == 'open']
        if not kf:
            elsewhere = [k for k in known_all if k['obligation'] == o['name'] and k.get('status', 'open') == 'open' and k['property'] != prop]
            if elsewhere:
                # a recorded finding of another property, met here only because this check includes the function as a callee or
                # through an anchor tag: it is reported (KNOWN-FINDING) by the property it belongs to, not counted here
                foreign.append({'obligation': o['name'], 'belongs_to': sorted({k['property'] for k in elsewhere})})
                counted -= 1
                continue
        if kf and res_status.get(o['name'] + '#residual') == 'proved':
            known_lines.append((kf[0], o))
            discharged += 1      # the residual obligation stands in for it
            continue
        if st == 'refuted' and '.dup.' not in o['name']:
            problems['refuted'].append(o)
        else:
            problems['undecided'].append(o)
    # baseline: every obligation that was proved on the unchanged tree must still exist
    missing_names = []
    if baseline is not None and not rebaseline and not ONLY:
        for n in baseline:
            if n not in names:
                missing_names.append(n)
    exit_code = 0
    lines = []
    out_root = ROOT if not NORECORD else os.path.join(os.environ.get('TMPDIR', '/tmp'), 'pyvc_scratch')
    os.makedirs(os.path.join(out_root, 'replays', prop), exist_ok=True)
    for k, o in known_lines:
        lines.append('KNOWN-FINDING: property=%s %s' % (prop, k['what']))
    from pyvc import replay
    for o in problems['refuted']:
        path, confirmed = replay.write_and_replay(prop, o, out_root)
        tail = '' if confirmed else ' no-failing-input-found'
        lines.append('VIOLATION property=%s replay=%s%s' % (prop, path, tail))
        violations.append(o['name'])
        exit_code = 1
    for o in problems['undecided']:
        if baseline is not None and o['name'] in proved_somewhere:
            path, confirmed_ = replay.write_and_replay(prop, o, out_root, undecided=True)
            lines.append('VIOLATION property=%s replay=%s%s' % (prop, path, '' if confirmed_ else ' no-failing-input-found'))
            violations.append(o['name'])
            exit_code = 1
        else:
            lines.append('UNDECIDED %s (%s)' % (o['name'], o.get('reason', 'solver gave no answer')))
            exit_code = max(exit_code, 2) if exit_code != 1 else 1
    for t, why in problems['unverifiable'] + problems['missing']:
        lines.append('UNVERIFIABLE %s: %s' % (t, why.splitlines()[0] if why else ''))
        if exit_code == 0:
            exit_code = 2
    for n in missing_names:
        fn = n.split('/')[0]
        if any(fn == t for t, _ in problems['unverifiable'] + problems['missing']):
            continue
        lines.append('MISSING-OBLIGATION %s' % n)
        if exit_code == 0:
            exit_code = 2
    for t, why in problems['selfcheck']:
        lines.append('SELF-CHECK-FAILED %s: %s' % (t, why[:2000]))
        if exit_code in (0, 2):
            exit_code = 3
    wall = round(time.time() - t0, 2)
    samples = []
    for o in obligations[:]:
        if o['kind'] in ('post', 'loop', 'frame') and len(samples) < 8:
            samples.append({'obligation': o['name'], 'status': o['status'], 'backend': o.get('backend'), 'paths': o.get('paths'),
                            'solver_s': o.get('time_s')})
    ev = {
        'property_id': prop, 'tier': tier, 'seed': seed, 'level': 'proof',
        'coverage': {
            'obligations': counted, 'discharged': discharged,
            'checker_cmd': 'cd /verif && ./check %s --tier %s' % (prop, tier),
            'trusted_base': sorted(assumptions) + ['assumed contract (not verified): ' + t for t in trusted],
            'functions_under_contract': functions,
            'by_backend': by_backend, 'solver_s': round(solver_s, 2),
            'cvc5_cross_check_of_a_fixed_sample(thorough tier)': cvc5_cross,
            'samples': samples,
            'known_findings': [{'obligation': k['obligation'], 'what': k['what']} for k, _ in known_lines],
            'unverifiable': [{'function': t, 'reason': why} for t, why in problems['unverifiable'] + problems['missing']],
            'undecided': [o['name'] for o in problems['undecided']],
            'refuted': [o['name'] for o in problems['refuted']],
            'not_examined_after_three_failures_in_the_function': skipped,
            'specification_cases_no_longer_reachable': unreachable,
            'specification_cases_no_path_realises': dead_cases,
            'known_findings_of_other_properties_met_in_shared_functions(not counted here)': foreign,
            'known_finding_witnesses_run_natively(thorough tier)': getattr(extra_checks_mod(), 'WITNESS_RUNS', {}).get(prop, {}),
            'bounded_stand_ins_not_counted_as_proved': bounded,
            'extraction': 'functions are read from %s on every run with ast; dropped: docstrings, comments, the effect of logging '
                          'calls (arguments still evaluated), the keywords async/await' % source.PKG_DIR,
            'obligation_list': sorted(names),
        },
        'assumptions': sorted(assumptions) + extra_assumptions(prop),
        'wall_s': wall, 'violations': len(violations),
    }
    if not NORECORD:
        os.makedirs(os.path.join(ROOT, 'evidence'), exist_ok=True)
        with open(os.path.join(ROOT, 'evidence', prop + '.json'), 'w') as f:
            json.dump(ev, f, indent=1)
    if rebaseline:
        p = os.path.join(ROOT, 'expected', 'obligations.json')
        os.makedirs(os.path.dirname(p), exist_ok=True)
        allb = load_baseline()
        allb[prop] = sorted(n for n in names if res_status[n] == 'proved' or
                            any(k['obligation'] == n for k, _ in known_lines))
        with open(p, 'w') as f:
            json.dump(allb, f, indent=0, sort_keys=True)
        pc = os.path.join(ROOT, 'expected', 'callees.json')
        try:
            cc = json.load(open(pc))
        except Exception:
            cc = {}
        for f_ in functions:
            cc[f_['function']] = sorted(set(f_.get('callee_contracts_used') or []))
        with open(pc, 'w') as f:
            json.dump(cc, f, indent=0, sort_keys=True)
        ph = os.path.join(ROOT, 'expected', 'cost_hints.json')
        try:
            hh = json.load(open(ph))
        except Exception:
            hh = {}
        for f_ in functions:
            hh[f_['function']] = round(max(hh.get(f_['function'], 0) * 0.5, f_['wall_s']), 1)
        with open(ph, 'w') as f:
            json.dump(hh, f, indent=0, sort_keys=True)
        pd = os.path.join(ROOT, 'expected', 'dead_cases.json')
        try:
            dc = json.load(open(pd))
        except Exception:
            dc = []
        dc = sorted(set(n for n in dc if not n.startswith(tuple(f['function'] + '/' for f in functions))) | set(dead_cases))
        with open(pd, 'w') as f:
            json.dump(dc, f, indent=0)
    for l in lines:
        print(l)
    if verbose:
        for o in sorted(obligations, key=lambda o: -o.get('time_s', 0))[:8]:
            print('   slow: %.2fs %s [%s] paths=%s' % (o.get('time_s', 0), o['name'], o.get('backend'), o.get('paths')))
        for r in results:
            print('   fn: %.2fs %s paths=%s %s' % (r['wall_s'], r['target'], r['paths'], r['stats']))
        for o in obligations:
            if o['status'] != 'proved':
                print('  ', o['status'], o['name'], o.get('why', ''))
                if o.get('model'):
                    print('      ' + o['model'][:1500].replace('\n', '\n      '))
    print('%s: %d functions, %d obligations, %d discharged, %s%d known findings, %d violations, exit %d, %.1fs'
          % (prop, len(functions), counted, discharged, ('%d bounded stand-ins held (not proofs), ' % len(bounded)) if bounded else '',
             len(known_lines), len(violations), exit_code, wall))
    return exit_code


def extra_assumptions(prop):
    from contracts import assumptions as A
    return list(A.GENERAL) + list(A.PER_PROPERTY.get(prop, []))


def selftest():
    """setup_cmd: tools present, one proof, one refutation, one function verified from the real source."""
    import z3
    x = z3.Int('x')
    assert smt.prove([x > 0], x >= 0)['status'] == 'proved'
    assert smt.prove([x >= 0], x > 0)['status'] == 'refuted'
    assert os.path.exists(smt.CVC5), 'cvc5 missing'
    assert smt.run_cvc5('(declare-const x Int)(assert (and (> x 0) (< x 0)))', 10) == 'unsat'
    reg = registry()
    c = reg.by_target['base_server.BaseServer._get_namespace_handler']
    r = verify(c, c.target, make_engine_factory(c.schema))
    assert r.status == 'ok' and all(o['status'] == 'proved' for o in r.obligations), r.to_json()
    print('selftest ok: z3 %s, cvc5 present, %d contracts registered' % (z3.get_version_string(), len(reg.contracts)))
    return 0


def main():
    if '--selftest' in sys.argv:
        sys.exit(selftest())
    ap = argparse.ArgumentParser()
    ap.add_argument('prop')
    ap.add_argument('--tier', default=os.environ.get('VERIF_TIER', 'quick'))
    ap.add_argument('--jobs', type=int, default=None)
    ap.add_argument('--rebaseline', action='store_true')
    ap.add_argument('--only', default=None)
    ap.add_argument('-v', '--verbose', action='store_true')
    ap.add_argument('--norecord', action='store_true', help='do not write evidence/replays (scratch runs)')
    a = ap.parse_args()
    global NORECORD, ONLY
    NORECORD = a.norecord
    ONLY = a.only
    seed = int(os.environ.get('VERIF_SEED', '0') or 0)
    if a.prop == 'all':
        rc = 0
        props = sorted({p for c in registry().contracts for p in c.props})
        for p in props:
            rc = max(rc, run_property(p, a.tier, seed, a.jobs, a.rebaseline, a.only, a.verbose))
        sys.exit(rc)
    sys.exit(run_property(a.prop, a.tier, seed, a.jobs, a.rebaseline, a.only, a.verbose))


if __name__ == '__main__':
    main()
