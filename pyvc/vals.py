"""Executor-level values."""
import z3
from . import smt
from .smt import V, B, I, R
from .model import SV, Leaf


class Unsupported(Exception):
    """A construct outside the supported subset: the function is reported unverifiable, never silently skipped."""


class Value:
    pass


class S(Value):
    """Scalar: a z3 term of sort V, Bool, Int or Real."""
    __slots__ = ('t',)

    def __init__(self, t):
        self.t = t

    @property
    def sort(self):
        s = self.t.sort()
        return 'V' if s == V else 'B' if s == B else 'I' if s == I else 'R' if s == R else str(s)

    def __repr__(self):
        return 'S(%s)' % self.t


class Ref(Value):
    """Borrowed path into the state: (object, field, steps)."""
    __slots__ = ('obj', 'field', 'path')

    def __init__(self, obj, field, path=()):
        self.obj, self.field, self.path = obj, field, tuple(path)

    def __repr__(self):
        return 'Ref(%s.%s%s)' % (self.obj, self.field, ''.join('[%s]' % (s[1] if len(s) > 1 else '?') for s in self.path))


class Obj(Value):
    """One of the singleton objects of the schema (self, self.manager, self.eio, ...)."""
    __slots__ = ('name',)

    def __init__(self, name):
        self.name = name

    def __repr__(self):
        return 'Obj(%s)' % self.name


class Fixed:
    __slots__ = ('items',)

    def __init__(self, items):
        self.items = list(items)


class View:
    """arr[lo:hi] of an Array Int V; hi - lo >= 0 is a fact the creator adds."""
    __slots__ = ('arr', 'lo', 'hi')

    def __init__(self, arr, lo, hi):
        self.arr, self.lo, self.hi = arr, lo, hi


class PySeq(Value):
    """list / tuple as a concatenation of fixed segments and array views."""
    __slots__ = ('segs', 'kind')

    def __init__(self, segs, kind='list'):
        out = []
        for s in segs:
            if isinstance(s, Fixed):
                if not s.items:
                    continue
                if out and isinstance(out[-1], Fixed):
                    out[-1] = Fixed(out[-1].items + s.items)
                    continue
            out.append(s)
        self.segs, self.kind = out, kind

    def length(self):
        n = z3.IntVal(0)
        for s in self.segs:
            n = n + (len(s.items) if isinstance(s, Fixed) else (s.hi - s.lo))
        return z3.simplify(n)

    def fixed_len(self):
        if all(isinstance(s, Fixed) for s in self.segs):
            return sum(len(s.items) for s in self.segs)
        return None

    def items(self):
        assert self.fixed_len() is not None
        out = []
        for s in self.segs:
            out += s.items
        return out

    def __repr__(self):
        return 'PySeq<%s,%d segs>' % (self.kind, len(self.segs))


class Rec(Value):
    """A local object (a Packet being built, an exception, an Event, a closure cell holder)."""
    def __init__(self, cls, fields=None):
        self.cls, self.fields = cls, dict(fields or {})

    def __repr__(self):
        return 'Rec(%s)' % self.cls


class Exc(Value):
    def __init__(self, cls, args=(), fields=None):
        self.cls, self.args, self.fields = cls, list(args), dict(fields or {})

    def __repr__(self):
        return 'Exc(%s)' % self.cls


class Raised:
    def __init__(self, exc):
        self.exc = exc


class Fn(Value):
    """Callable known to the executor."""
    def __init__(self, kind, **kw):
        self.kind = kind
        self.__dict__.update(kw)

    def __repr__(self):
        return 'Fn(%s,%s)' % (self.kind, getattr(self, 'name', ''))


class ModuleV(Value):
    def __init__(self, name):
        self.name = name

    def __repr__(self):
        return 'Module(%s)' % self.name


class ClassV(Value):
    def __init__(self, name):
        self.name = name

    def __repr__(self):
        return 'Class(%s)' % self.name


class Cell:
    """Mutable binding shared between a function and its closures."""
    __slots__ = ('v',)

    def __init__(self, v):
        self.v = v


def const_int(v):
    """python int if the value is a concrete integer, else None"""
    if isinstance(v, S) and v.sort == 'I':
        t = z3.simplify(v.t)
        if z3.is_int_value(t):
            return t.as_long()
    return None


EXC_PARENT = {
    'KeyError': 'LookupError', 'IndexError': 'LookupError', 'LookupError': 'Exception',
    'ValueError': 'Exception', 'TypeError': 'Exception', 'AttributeError': 'Exception',
    'UnboundLocalError': 'NameError', 'NameError': 'Exception',
    'RuntimeError': 'Exception', 'NotImplementedError': 'RuntimeError', 'StopIteration': 'Exception',
    'ValueDuplicationError': 'BidictException', 'BidictException': 'Exception',
    'sio.SocketIOError': 'Exception', 'sio.ConnectionError': 'sio.SocketIOError',
    'sio.ConnectionRefusedError': 'sio.ConnectionError', 'sio.TimeoutError': 'sio.SocketIOError',
    'sio.BadNamespaceError': 'sio.SocketIOError', 'sio.DisconnectedError': 'sio.SocketIOError',
    'eio.EngineIOError': 'Exception', 'eio.ConnectionError': 'eio.EngineIOError',
    'asyncio.TimeoutError': 'Exception', 'asyncio.CancelledError': 'BaseException',
    'redis.RedisError': 'Exception',
    'AppException': 'Exception',        # any other Exception raised by application code or an unmodelled callee
    'Exception': 'BaseException', 'BaseException': None,
}


def exc_isa(cls, target):
    while cls is not None:
        if cls == target:
            return True
        cls = EXC_PARENT.get(cls)
    return False
