"""Symbolic executor over the real AST (DESIGN.md section 3).

Paths fork on branches and on every raising operation; a path whose condition is unsatisfiable is dropped at the
fork (vacuity rule of experiment E6).  Calls to functions under contract use the contract (modular); other
package functions are inlined; everything else goes through externals.py or is Unsupported.
"""
import ast
import z3
from . import smt, source
from .smt import V, B, I, R, NONE, TRUE, FALSE, atom
from .model import SV, Leaf, MapT, BidictT, BagT, SeqT, RecT, OptT, State
from .vals import (S, Ref, Obj, PySeq, Fixed, View, Exc, Raised, Fn, ModuleV, ClassV, Unsupported, Value,
                   const_int, exc_isa)


BOX_HOOKS = []     # fn(engine, ctx, v, 'seq'|'dict', content): facts about spec functions over a freshly boxed container


class HObj:
    """Heap cell for a local mutable object: kind in {'list','map','rec'}.  alias_of: the state path this value is a
    live view of (a write through it cannot be modelled by value: outside the subset)."""
    __slots__ = ('kind', 'data', 'cls', 'alias_of')

    def __init__(self, kind, data, cls=None, alias_of=None):
        self.kind, self.data, self.cls, self.alias_of = kind, data, cls, alias_of

    def copy(self):
        d = dict(self.data) if self.kind == 'rec' else self.data
        return HObj(self.kind, d, self.cls, self.alias_of)


class HRef(Value):
    __slots__ = ('id',)

    def __init__(self, id):
        self.id = id

    def __repr__(self):
        return 'HRef(%d)' % self.id


class Frame:
    __slots__ = ('vars', 'parent', 'self_obj', 'cls', 'fname', 'modname', 'assigned')

    def __init__(self, vars, parent, self_obj, cls, fname, modname):
        self.vars, self.parent, self.self_obj, self.cls, self.fname, self.modname = vars, parent, self_obj, cls, fname, modname
        self.assigned = ()

    def copy(self):
        f = Frame(dict(self.vars), self.parent, self.self_obj, self.cls, self.fname, self.modname)
        f.assigned = self.assigned
        return f


class Ctx:
    """One execution path."""
    _next = [0]

    def __init__(self):
        self.pc = []
        self.st = None
        self.frames = {}
        self.fid = None
        self.heap = {}
        self.depth = 0
        self.notes = []
        self.boxcache = {}

    def fork(self):
        c = Ctx()
        c.pc = list(self.pc)
        c.st = self.st
        c.frames = {k: f.copy() for k, f in self.frames.items()}
        c.fid = self.fid
        c.heap = {k: h.copy() for k, h in self.heap.items()}
        c.depth = self.depth
        c.notes = list(self.notes)
        c.boxcache = dict(self.boxcache)
        return c

    @property
    def frame(self):
        return self.frames[self.fid]

    def new_id(self):
        Ctx._next[0] += 1
        return Ctx._next[0]

    def alloc(self, kind, data, cls=None, alias_of=None):
        i = self.new_id()
        self.heap[i] = HObj(kind, data, cls, alias_of)
        return HRef(i)

    def lookup(self, name):
        f = self.frames[self.fid]
        while True:
            if name in f.vars:
                return f.vars[name]
            if f.parent is None:
                return None
            f = self.frames[f.parent]

    def bind(self, name, val, find=False):
        f = self.frames[self.fid]
        if find:
            g = f
            while g is not None:
                if name in g.vars:
                    g.vars[name] = val
                    return
                g = self.frames[g.parent] if g.parent is not None else None
        f.vars[name] = val

    def assume(self, *conds):
        for c in conds:
            if z3.is_true(c):
                continue
            self.pc.append(c)


class Out:
    """Outcome of executing statements: kind in next|return|raise|break|continue."""
    __slots__ = ('kind', 'ctx', 'val')

    def __init__(self, kind, ctx, val=None):
        self.kind, self.ctx, self.val = kind, ctx, val


class Oblig:
    def __init__(self, name, hyps, goal, tags=(), kind='post', expect='proved', info=None):
        self.name, self.hyps, self.goal, self.tags, self.kind, self.expect, self.info = name, list(hyps), goal, tuple(tags), kind, expect, info or {}


LOGGER_ROOTS = ('logger',)


def is_logging_call(call):
    """self.logger.x(...), self._get_logger().x(...), logger.x(...), self.server.logger.x(...), default_logger.x(...)"""
    f = call.func
    if not isinstance(f, ast.Attribute):
        return False
    if f.attr not in ('debug', 'info', 'warning', 'error', 'exception', 'critical', 'log'):
        return False
    v = f.value
    if isinstance(v, ast.Call) and isinstance(v.func, ast.Attribute) and v.func.attr == '_get_logger':
        return True
    if isinstance(v, ast.Attribute) and v.attr == 'logger':
        return True
    if isinstance(v, ast.Name) and v.id in ('logger', 'default_logger'):
        return True
    return False


def assigned_names(fn):
    """names that some statement of the function binds (its locals, besides the parameters)"""
    out = set()
    for n in ast.walk(fn):
        if isinstance(n, ast.Name) and isinstance(n.ctx, ast.Store):
            out.add(n.id)
        elif isinstance(n, ast.ExceptHandler) and n.name:
            out.add(n.name)
    return out


class Engine:
    def __init__(self, schema, registry=None, externals=None, seed=0):
        self.schema = schema
        self.registry = registry          # contract registry (lookup by qualified name)
        self.ext = externals              # Externals instance
        self.obligs = []
        self.assumptions = set()
        self.inlined = set()
        self.used_contracts = set()
        self.seed = seed
        self.stats = {'forks': 0, 'infeasible': 0, 'paths': 0}
        self.current = None               # contract under verification (for loop specs)
        self.loop_counter = {}
        self.max_depth = 6
        self.hyps_extra = []              # quantified hypotheses (requires / invariants) kept out of feasibility checks

    # ------------------------------------------------------------------ helpers
    def feasible(self, ctx, extra=()):
        self.stats['forks'] += 1
        qf = [c for c in list(ctx.pc) + list(extra) if not smt.is_quantified(c)]
        r = smt.check_sat(qf, timeout_ms=3000, seed=self.seed)
        if r == 'unsat':
            self.stats['infeasible'] += 1
            return False
        return True

    def branch(self, ctx, cond):
        """Fork on a condition; yields (ctx, bool) for each feasible side."""
        cond = z3.simplify(cond)
        if z3.is_true(cond):
            yield ctx, True
            return
        if z3.is_false(cond):
            yield ctx, False
            return
        self.stats['forks'] += 2
        t, f = smt.check_branch(ctx.pc, cond, timeout_ms=3000, seed=self.seed)
        self.stats['infeasible'] += (not t) + (not f)
        if t and f:
            c2 = ctx.fork()
            ctx.assume(cond)
            c2.assume(z3.Not(cond))
            yield ctx, True
            yield c2, False
        elif t:
            ctx.assume(cond)
            yield ctx, True
        elif f:
            ctx.assume(z3.Not(cond))
            yield ctx, False

    def raise_(self, ctx, cls, *args):
        return ctx, Raised(Exc(cls, args))

    def alias_write(self, ctx, h, what):
        """A write through a local that is a live view of a state field (a dict obtained without .copy()).  If the function's
        frame does not allow that field to change, this is a frame violation on every execution that gets here; if it does,
        the by-value container model cannot follow the write."""
        a = h.alias_of
        key = (a.obj, a.field) if hasattr(a, 'obj') else None
        if self.current is not None and key is not None and key not in self.current.modifies:
            self.oblig('frame.no-write-through-a-live-view', ctx, z3.BoolVal(False), kind='frame')
            self.ext.note('a write through a live view of %s.%s was met (frame obligation raised)' % key)
            return
        raise Unsupported('%s through a live view of %r (aliasing write: outside the by-value container model)' % (what, a))

    def oblig(self, name, ctx, goal, tags=(), kind='assert'):
        self.obligs.append(Oblig(name, list(ctx.pc) + list(self.hyps_extra), goal, tags, kind))

    # ------------------------------------------------------------------ coercions
    def to_v(self, ctx, val):
        """Box a value into sort V."""
        if isinstance(val, S):
            s = val.sort
            if s == 'V':
                return val.t
            if s == 'I':
                return smt.box_int(val.t)
            if s == 'B':
                return z3.If(val.t, TRUE, FALSE)
            if s == 'R':
                return smt.box_real(val.t)
        if isinstance(val, PySeq):
            # structurally equal sequences box to the same constant on a path (V is not extensional)
            key = [val.kind]
            for sg in val.segs:
                if isinstance(sg, Fixed):
                    key.append(('F',) + tuple(self.to_v(ctx, it).get_id() for it in sg.items))
                else:
                    key.append(('V', sg.arr.get_id(), z3.simplify(sg.lo).get_id(), z3.simplify(sg.hi).get_id()))
            key = tuple(key)
            if key in ctx.boxcache:
                return ctx.boxcache[key]
            v = smt.fresh('seq', V)
            ctx.boxcache[key] = v
            ctx.assume(smt.kind(v) == (smt.K_TUPLE if val.kind == 'tuple' else smt.K_LIST))
            n = val.length()
            ctx.assume(smt.vlen(v) == n)
            fl = val.fixed_len()
            if fl is not None:
                for i, it in enumerate(val.items()):
                    ctx.assume(smt.vseq(v)[i] == self.to_v(ctx, it))
            else:
                p = z3.Int('bx_p')
                ctx.assume(z3.ForAll([p], z3.Implies(z3.And(p >= 0, p < n), smt.vseq(v)[p] == self.seq_at(ctx, val, p)),
                                     patterns=[smt.vseq(v)[p]]))
            for hook in BOX_HOOKS:
                hook(self, ctx, v, 'seq', val)
            return v
        if isinstance(val, HRef):
            h = ctx.heap[val.id]
            if h.kind == 'list':
                return self.to_v(ctx, h.data)
            if h.kind == 'rec' and '$v' in h.data:
                return h.data['$v']
            if h.kind == 'map' and isinstance(h.data, dict):
                # dict literal with constant keys -> opaque dict value with known items
                v = smt.fresh('dict', V)
                ctx.assume(smt.kind(v) == smt.K_DICT, smt.vlen(v) == len(h.data))
                for k, item in h.data.items():
                    ctx.assume(smt.vhas(v, k))
                    ctx.assume(smt.vget(v, k) == self.to_v(ctx, item))
                for hook in BOX_HOOKS:
                    hook(self, ctx, v, 'dict', h.data)
                return v
            v = smt.fresh('obj', V)
            ctx.assume(smt.kind(v) == smt.K_OTHER, smt.truthy(v))
            if h.kind == 'rec':
                h.data['$v'] = v
            return v
        if isinstance(val, Fn):
            if getattr(val, 'vterm', None) is None:
                val.vterm = smt.fresh('fn', V)
            ctx.assume(smt.truthy(val.vterm), val.vterm != NONE)
            if self.ext is not None and self.ext.counter_atom is not None:
                ctx.assume(val.vterm != self.ext.counter_atom)
            return val.vterm
        if isinstance(val, Ref):
            sv = self.load(ctx, val)
            if isinstance(sv.ty, Leaf):
                return self.to_v(ctx, S(sv.leaf()))
            if isinstance(sv.ty, MapT) and isinstance(sv.ty.val, Leaf) and sv.ty.val.sort == 'V':
                v = smt.fresh('dictv', V)
                ctx.assume(smt.kind(v) == smt.K_DICT)
                k = z3.Const('dv_k', V)
                ctx.assume(z3.ForAll([k], z3.And(smt.vhas(v, k) == sv.c['dom'][k], smt.vget(v, k) == sv.c['.'][k]),
                                     patterns=[smt.vhas(v, k)]))
                return v
        if isinstance(val, Exc):
            v = smt.fresh('exc', V)
            return v
        from .externals import Recorder
        if isinstance(val, Recorder):
            return z3.Const('api:' + val.path, V)
        if isinstance(val, Obj):
            t = smt.atom(smt.Marker('object:' + val.name))     # one of the world's singleton objects handed to code outside the proof
            ctx.assume(smt.truthy(t), t != NONE)
            return t
        raise Unsupported('cannot box %r' % (val,))

    def to_i(self, ctx, val):
        if isinstance(val, S):
            if val.sort == 'I':
                return val.t
            if val.sort == 'V':
                return smt.int_of(val.t)
            if val.sort == 'B':
                return z3.If(val.t, 1, 0)
        raise Unsupported('not an int: %r' % (val,))

    def truth(self, ctx, val):
        if isinstance(val, S):
            s = val.sort
            if s == 'B':
                return val.t
            if s == 'I':
                return val.t != 0
            if s == 'R':
                return val.t != 0
            return smt.truthy(val.t)
        if isinstance(val, PySeq):
            return val.length() > 0
        if isinstance(val, HRef):
            h = ctx.heap[val.id]
            if h.kind == 'list':
                return h.data.length() > 0
            if h.kind == 'map':
                if isinstance(h.data, dict):
                    return z3.BoolVal(len(h.data) > 0)
                return z3.Not(h.data.is_empty())
            return z3.BoolVal(True)
        if isinstance(val, Ref):
            sv = self.load(ctx, val)
            if isinstance(sv.ty, Leaf):
                return self.truth(ctx, S(sv.leaf()))
            if isinstance(sv.ty, RecT):
                return z3.BoolVal(True)
            return z3.Not(sv.is_empty())
        if isinstance(val, (Fn, Obj, ClassV, ModuleV, Exc)):
            return z3.BoolVal(True)
        from .externals import Recorder
        if isinstance(val, Recorder):
            return smt.truthy(z3.Const('api:' + val.path, V))
        raise Unsupported('truth of %r' % (val,))

    def is_none(self, ctx, val):
        if isinstance(val, S):
            if val.sort == 'V':
                return val.t == NONE
            return z3.BoolVal(False)
        if isinstance(val, Ref):
            sv = self.load(ctx, val)
            if isinstance(sv.ty, Leaf):
                return self.is_none(ctx, S(sv.leaf()))
            if isinstance(sv.ty, OptT):
                return z3.Not(sv.c['some'])
        return z3.BoolVal(False)

    def load(self, ctx, ref):
        return ctx.st.get(ref.obj, ref.field).get_path(ref.path)

    def store(self, ctx, ref, sv):
        root = ctx.st.get(ref.obj, ref.field)
        ctx.st = ctx.st.set(ref.obj, ref.field, root.set_path(ref.path, sv))

    def ref_value(self, ctx, ref):
        """A Ref whose type is a leaf is read eagerly."""
        ty = self.ref_type(ref)
        if isinstance(ty, Leaf):
            return S(self.load(ctx, ref).leaf())
        return ref

    def ref_type(self, ref):
        ty = self.schema.fields[(ref.obj, ref.field)]
        for st in ref.path:
            if st[0] == 'k':
                if isinstance(ty, MapT):
                    ty = ty.val
                elif isinstance(ty, BidictT):
                    ty = Leaf('V')
                elif isinstance(ty, SeqT):
                    ty = Leaf(ty.elem)
                else:
                    raise Unsupported('navigate %r' % ty)
            elif st[0] == 'f':
                ty = ty.fields[st[1]]
            elif st[0] == '?':
                ty = ty.inner
        return ty

    def sv_of(self, ctx, val, ty):
        """Convert a value to a structured value of type ty (for storing into the state)."""
        from .externals import NewCounter
        if isinstance(val, NewCounter) and isinstance(ty, Leaf) and ty.sort == 'V' and self.ext.counter_atom is not None:
            ctx.notes.append(('counter_init', val.start))
            return SV(ty, {'': self.ext.counter_atom})
        if isinstance(ty, Leaf):
            if ty.sort == 'V':
                return SV(ty, {'': self.to_v(ctx, val)})
            if ty.sort == 'I':
                return SV(ty, {'': self.to_i(ctx, val)})
            if ty.sort == 'B':
                return SV(ty, {'': self.truth(ctx, val) if not (isinstance(val, S) and val.sort == 'B') else val.t})
            if ty.sort == 'R':
                if isinstance(val, S) and val.sort == 'R':
                    return SV(ty, {'': val.t})
                if isinstance(val, S) and val.sort == 'I':
                    return SV(ty, {'': z3.ToReal(val.t)})
                if isinstance(val, S) and val.sort == 'V':
                    return SV(ty, {'': smt.real_of(val.t)})
        if isinstance(val, Ref):
            sv = self.load(ctx, val)
            if repr(sv.ty) == repr(ty):
                return sv
        if isinstance(val, HRef):
            h = ctx.heap[val.id]
            if h.kind == 'map':
                if isinstance(h.data, dict) and not h.data:
                    return SV.empty(ty)
                if isinstance(h.data, dict) and isinstance(ty, MapT):
                    sv = SV.empty(ty)
                    for k, item in h.data.items():
                        sv = sv.with_child(('k', k), self.sv_of(ctx, item, ty.val))
                    return sv
                if isinstance(h.data, SV) and repr(h.data.ty) == repr(ty):
                    return h.data
            if h.kind == 'list':
                if isinstance(ty, BagT) and h.data.fixed_len() == 0:
                    return SV.empty(ty)
                if isinstance(ty, SeqT):
                    return self.seq_to_sv(ctx, h.data, ty)
            if h.kind == 'rec' and isinstance(ty, RecT):
                return self.rec_to_sv(ctx, h, ty)
        if isinstance(ty, OptT):
            if isinstance(val, S) and val.sort == 'V' and z3.eq(val.t, NONE):
                return SV.empty(ty)
            inner = self.sv_of(ctx, val, ty.inner)
            return SV.empty(ty).with_child(('?',), inner)
        if isinstance(val, PySeq) and isinstance(ty, SeqT):
            return self.seq_to_sv(ctx, val, ty)
        raise Unsupported('cannot store %r as %r' % (val, ty))

    def seq_to_sv(self, ctx, seq, ty):
        n = seq.length()
        fl = seq.fixed_len()
        if fl is not None:
            arr = z3.Const('dflt_arr', z3.ArraySort(I, V))
            for i, it in enumerate(seq.items()):
                arr = z3.Store(arr, i, self.to_v(ctx, it))
            return SV(ty, {'len': z3.IntVal(fl), 'arr': arr})
        if len(seq.segs) == 1 and isinstance(seq.segs[0], View) and z3.is_int_value(z3.simplify(seq.segs[0].lo)) \
                and z3.simplify(seq.segs[0].lo).as_long() == 0:
            return SV(ty, {'len': n, 'arr': seq.segs[0].arr})
        arr = smt.fresh('arr', z3.ArraySort(I, V))
        p = z3.Int('sq_p')
        ctx.assume(z3.ForAll([p], z3.Implies(z3.And(p >= 0, p < n), arr[p] == self.seq_at(ctx, seq, p)), patterns=[arr[p]]))
        return SV(ty, {'len': n, 'arr': arr})

    def rec_to_sv(self, ctx, h, ty):
        sv = SV.empty(ty) if False else SV(ty, {})
        c = {}
        for f, fty in ty.fields.items():
            child = self.sv_of(ctx, h.data[f], fty)
            for n, _, _ in fty.comps():
                c[f + '/' + n] = child.c[n]
        return SV(ty, c)

    def seq_at(self, ctx, seq, idx):
        """Element (as V term) of a PySeq at a symbolic, in-range, non-negative index."""
        off = z3.IntVal(0)
        cases = []
        for s in seq.segs:
            if isinstance(s, Fixed):
                for j, it in enumerate(s.items):
                    cases.append((idx == off + j, self.to_v(ctx, it)))
                off = off + len(s.items)
            else:
                ln = s.hi - s.lo
                cases.append((z3.And(idx >= off, idx < off + ln), s.arr[s.lo + (idx - off)]))
                off = off + ln
        res = z3.Const('seq_oob', V)
        for c, v in reversed(cases):
            res = z3.If(c, v, res)
        return z3.simplify(res)

    # ------------------------------------------------------------------ expressions
    def ev(self, e, ctx):
        """Evaluate an expression: generator of (ctx, Value | Raised)."""
        m = getattr(self, 'ev_' + type(e).__name__, None)
        if m is None:
            raise Unsupported('expression %s' % type(e).__name__)
        return m(e, ctx)

    def ev_many(self, exprs, ctx):
        """Evaluate a list of expressions left to right: yields (ctx, [values]) or (ctx, Raised)."""
        if not exprs:
            yield ctx, []
            return
        for c, v in self.ev(exprs[0], ctx):
            if isinstance(v, Raised):
                yield c, v
                continue
            for c2, rest in self.ev_many(exprs[1:], c):
                if isinstance(rest, Raised):
                    yield c2, rest
                else:
                    yield c2, [v] + rest

    def ev_Constant(self, e, ctx):
        v = e.value
        if v is None or isinstance(v, (bool, str)):
            if isinstance(v, bool):
                yield ctx, S(z3.BoolVal(v))
            else:
                yield ctx, S(atom(v))
        elif isinstance(v, int):
            yield ctx, S(z3.IntVal(v))
        elif isinstance(v, float):
            yield ctx, S(z3.RealVal(repr(v)))
        elif isinstance(v, bytes):
            yield ctx, S(atom('bytes:' + v.decode('latin1')))
        else:
            raise Unsupported('constant %r' % (v,))

    def ev_Name(self, e, ctx):
        v = ctx.lookup(e.id)
        if v is not None:
            yield ctx, v
            return
        v = self.ext.global_name(self, ctx, e.id)
        if v is None:
            if e.id in getattr(ctx.frame, 'assigned', ()):
                # a local of this function that no executed statement has bound yet
                yield ctx, Raised(Exc('UnboundLocalError'))
                return
            raise Unsupported('unknown name %s' % e.id)
        yield ctx, v

    def ev_Attribute(self, e, ctx):
        for c, base in self.ev(e.value, ctx):
            if isinstance(base, Raised):
                yield c, base
                continue
            yield from self.getattr(c, base, e.attr)

    def getattr(self, ctx, base, attr):
        if isinstance(base, Obj):
            key = (base.name, attr)
            if key in self.schema.fields:
                rh = getattr(self.ext, 'read_env', None)
                if rh is not None:
                    rh(self, ctx, key)       # a shared variable is read: whatever other threads did up to now becomes visible
                yield ctx, self.ref_value(ctx, Ref(base.name, attr))
                return
            if key in self.schema.links:
                yield ctx, Obj(self.schema.links[key])
                return
            if key in self.schema.consts:
                yield ctx, self.schema.consts[key](self, ctx)
                return
            cls = self.schema.classes.get(base.name)
            if cls and not cls[0].startswith('$'):
                mod, cname = cls
                found = source.find_method(mod, cname, attr)
                if found:
                    yield ctx, Fn('method', obj=base.name, name=attr, start_after=None)
                    return
                ca = source.class_attr(mod, cname, attr)
                if ca is not None:
                    fr = ctx.frame
                    tmp = Frame({}, None, base.name, cls, '<classattr>', mod)
                    fid = ctx.new_id()
                    ctx.frames[fid] = tmp
                    old = ctx.fid
                    ctx.fid = fid
                    res = list(self.ev(ca, ctx))
                    for c2, v in res:
                        c2.fid = old
                        yield c2, v
                    return
            r = self.ext.obj_attr(self, ctx, base, attr)
            if r is not None:
                yield ctx, r
                return
            raise Unsupported('attribute %s.%s' % (base.name, attr))
        if isinstance(base, Ref):
            ty = self.ref_type(base)
            if isinstance(ty, RecT) and attr in ty.fields:
                yield ctx, self.ref_value(ctx, Ref(base.obj, base.field, base.path + (('f', attr),)))
                return
            if isinstance(ty, OptT) and isinstance(ty.inner, RecT) and attr in ty.inner.fields:
                yield ctx, self.ref_value(ctx, Ref(base.obj, base.field, base.path + (('?',), ('f', attr))))
                return
        if isinstance(base, HRef):
            h = ctx.heap[base.id]
            if h.kind == 'rec' and attr in h.data:
                yield ctx, h.data[attr]
                return
        r = self.ext.value_attr(self, ctx, base, attr)
        if r is None:
            raise Unsupported('attribute .%s of %r' % (attr, base))
        yield from r

    def ev_Tuple(self, e, ctx):
        yield from self._seq_literal(e, ctx, 'tuple')

    def ev_List(self, e, ctx):
        for c, v in self._seq_literal(e, ctx, 'list'):
            if isinstance(v, Raised):
                yield c, v
            else:
                yield c, c.alloc('list', v)

    def _seq_literal(self, e, ctx, kind):
        exprs = [x.value if isinstance(x, ast.Starred) else x for x in e.elts]
        for c, vals in self.ev_many(exprs, ctx):
            if isinstance(vals, Raised):
                yield c, vals
                continue
            segs = []
            for x, v in zip(e.elts, vals):
                if isinstance(x, ast.Starred):
                    segs += self.as_seq(c, v).segs
                else:
                    segs.append(Fixed([v]))
            yield c, PySeq(segs, kind)

    def as_seq(self, ctx, v):
        """View a value as a PySeq (for *args, list(), tuple(), concatenation)."""
        if isinstance(v, PySeq):
            return v
        if isinstance(v, HRef) and ctx.heap[v.id].kind == 'list':
            return ctx.heap[v.id].data
        if isinstance(v, S) and v.sort == 'V':
            n = smt.vlen(v.t)
            return PySeq([View(smt.vseq(v.t), z3.IntVal(0), n)], 'list')
        if isinstance(v, Ref):
            ty = self.ref_type(v)
            if isinstance(ty, SeqT):
                sv = self.load(ctx, v)
                ctx.assume(sv.c['len'] >= 0)
                return PySeq([View(sv.c['arr'], z3.IntVal(0), sv.c['len'])], 'list')
        raise Unsupported('not a sequence: %r' % (v,))

    def ev_Dict(self, e, ctx):
        if any(k is None for k in e.keys):
            raise Unsupported('dict unpacking')
        for c, vals in self.ev_many(list(e.keys) + list(e.values), ctx):
            if isinstance(vals, Raised):
                yield c, vals
                continue
            n = len(e.keys)
            d = {}
            for k, v in zip(vals[:n], vals[n:]):
                d[self.to_v(c, k)] = v
            yield c, c.alloc('map', d)

    def ev_JoinedStr(self, e, ctx):
        exprs = [v.value for v in e.values if isinstance(v, ast.FormattedValue)]
        for c, vals in self.ev_many(exprs, ctx):
            if isinstance(vals, Raised):
                yield c, vals
                continue
            t = smt.fresh('fstr', V)
            c.assume(smt.kind(t) == smt.K_STR)
            yield c, S(t)

    def ev_IfExp(self, e, ctx):
        for c, t in self.ev(e.test, ctx):
            if isinstance(t, Raised):
                yield c, t
                continue
            for c2, side in self.branch(c, self.truth(c, t)):
                yield from self.ev(e.body if side else e.orelse, c2)

    def ev_BoolOp(self, e, ctx):
        yield from self._boolop(e.op, e.values, ctx)

    def _boolop(self, op, values, ctx):
        for c, v in self.ev(values[0], ctx):
            if isinstance(v, Raised) or len(values) == 1:
                yield c, v
                continue
            t = self.truth(c, v)
            for c2, side in self.branch(c, t):
                stop = (not side) if isinstance(op, ast.And) else side
                if stop:
                    yield c2, v
                else:
                    yield from self._boolop(op, values[1:], c2)

    def ev_UnaryOp(self, e, ctx):
        for c, v in self.ev(e.operand, ctx):
            if isinstance(v, Raised):
                yield c, v
            elif isinstance(e.op, ast.Not):
                yield c, S(z3.Not(self.truth(c, v)))
            elif isinstance(e.op, ast.USub):
                if isinstance(v, S) and v.sort in ('I', 'R'):
                    yield c, S(-v.t)
                else:
                    raise Unsupported('unary minus')
            else:
                raise Unsupported('unary op')

    def ev_Compare(self, e, ctx):
        if len(e.ops) != 1:
            raise Unsupported('comparison chain')
        for c, vals in self.ev_many([e.left, e.comparators[0]], ctx):
            if isinstance(vals, Raised):
                yield c, vals
                continue
            yield from self.compare(c, e.ops[0], vals[0], vals[1])

    def compare(self, ctx, op, a, b):
        if isinstance(op, (ast.In, ast.NotIn)):
            for c, t in self.contains(ctx, b, a):
                if isinstance(t, Raised):
                    yield c, t
                else:
                    yield c, S(t if isinstance(op, ast.In) else z3.Not(t))
            return
        if isinstance(op, (ast.Is, ast.IsNot, ast.Eq, ast.NotEq)):
            t = self.equal(ctx, a, b, identity=isinstance(op, (ast.Is, ast.IsNot)))
            yield ctx, S(t if isinstance(op, (ast.Is, ast.Eq)) else z3.Not(t))
            return
        from .externals import DictPairs, Recorder
        if isinstance(a, DictPairs) and isinstance(b, DictPairs):
            # dict.items() views compare as sets of pairs
            k = z3.Const('dp_k', V)
            sub = lambda x_, y_: z3.ForAll([k], z3.Implies(smt.vhas(x_, k), z3.And(smt.vhas(y_, k), smt.vget(x_, k) == smt.vget(y_, k))))
            t = {ast.LtE: sub(a.t, b.t), ast.GtE: sub(b.t, a.t), ast.Lt: z3.And(sub(a.t, b.t), z3.Not(sub(b.t, a.t))),
                 ast.Gt: z3.And(sub(b.t, a.t), z3.Not(sub(a.t, b.t)))}[type(op)]
            yield ctx, S(t)
            return
        # ordering on numbers
        x, y = self.num(ctx, a), self.num(ctx, b)
        if x is None or y is None:
            raise Unsupported('ordering of non-numbers')
        t = {ast.Lt: x < y, ast.LtE: x <= y, ast.Gt: x > y, ast.GtE: x >= y}[type(op)]
        yield ctx, S(t)

    def num(self, ctx, v):
        if isinstance(v, S):
            if v.sort in ('I', 'R'):
                return v.t
            if v.sort == 'B':
                return z3.If(v.t, 1, 0)
        if isinstance(v, LenOf):
            return v.term(ctx)
        return None

    def equal(self, ctx, a, b, identity=False):
        if isinstance(a, LenOf) or isinstance(b, LenOf):
            x, y = (a, b) if isinstance(a, LenOf) else (b, a)
            n = const_int(y)
            if n == 0:
                return x.empty()
            return x.term(ctx) == self.num(ctx, y)
        if isinstance(a, S) and isinstance(b, S):
            if a.sort == b.sort:
                return a.t == b.t
            if 'V' in (a.sort, b.sort):
                if identity and not (a.sort == 'B' or b.sort == 'B'):
                    # `x is 5` is not used by the code in scope
                    pass
                return self.to_v(ctx, a) == self.to_v(ctx, b)
            if {a.sort, b.sort} <= {'I', 'R', 'B'}:
                return self.num(ctx, a) == self.num(ctx, b)
        # None against a structured value
        for x, y in ((a, b), (b, a)):
            if isinstance(x, S) and x.sort == 'V' and z3.eq(x.t, NONE):
                return self.is_none(ctx, y)
        if isinstance(a, (PySeq, HRef)) or isinstance(b, (PySeq, HRef)):
            if identity:
                if isinstance(a, HRef) and isinstance(b, HRef):
                    return z3.BoolVal(a.id == b.id)
                return z3.BoolVal(False)
            return self.to_v(ctx, a) == self.to_v(ctx, b) if not (self._is_seq(ctx, a) and self._is_seq(ctx, b)) \
                else self.seq_eq(ctx, self.as_seq(ctx, a), self.as_seq(ctx, b))
        if isinstance(a, Obj) and isinstance(b, Obj):
            return z3.BoolVal(a.name == b.name)
        from .externals import Recorder as _Rec
        if isinstance(a, _Rec) or isinstance(b, _Rec):
            return self.to_v(ctx, a) == self.to_v(ctx, b)
        from .externals import SetV
        if isinstance(a, SetV) and isinstance(b, SetV):
            return a.arr == b.arr
        if isinstance(a, Ref) or isinstance(b, Ref):
            return self.to_v(ctx, a) == self.to_v(ctx, b)
        raise Unsupported('equality of %r and %r' % (a, b))

    def _is_seq(self, ctx, v):
        return isinstance(v, PySeq) or (isinstance(v, HRef) and ctx.heap[v.id].kind == 'list')

    def seq_eq(self, ctx, a, b):
        la, lb = a.length(), b.length()
        fa, fb = a.fixed_len(), b.fixed_len()
        if fa is not None and fb is not None:
            if fa != fb:
                return z3.BoolVal(False)
            return z3.And(*[self.equal(ctx, x, y) for x, y in zip(a.items(), b.items())]) if fa else z3.BoolVal(True)
        p = z3.Int('sq_i')
        return z3.And(la == lb, z3.ForAll([p], z3.Implies(z3.And(p >= 0, p < la), self.seq_at(ctx, a, p) == self.seq_at(ctx, b, p))))

    def contains(self, ctx, cont, key):
        """`key in cont` -> generator of (ctx, z3 Bool | Raised)"""
        if isinstance(cont, Ref):
            sv = self.load(ctx, cont)
            ty = sv.ty
            if isinstance(ty, (MapT, BidictT, BagT)):
                yield ctx, sv.present(self.to_v(ctx, key))
                return
            if isinstance(ty, SeqT):
                p = z3.Int('in_p')
                kv = self.to_v(ctx, key)
                yield ctx, z3.Exists([p], z3.And(p >= 0, p < sv.c['len'], sv.c['arr'][p] == kv))
                return
            if isinstance(ty, Leaf):
                cont = S(sv.leaf())
        if isinstance(cont, HRef):
            h = ctx.heap[cont.id]
            if h.kind == 'map':
                if isinstance(h.data, dict):
                    kv = self.to_v(ctx, key)
                    yield ctx, z3.Or(*[kv == k for k in h.data]) if h.data else z3.BoolVal(False)
                    return
                yield ctx, h.data.present(self.to_v(ctx, key))
                return
            if h.kind == 'list':
                cont = h.data
        if isinstance(cont, PySeq):
            fl = cont.fixed_len()
            if fl is not None:
                yield ctx, z3.Or(*[self.equal(ctx, key, it) for it in cont.items()]) if fl else z3.BoolVal(False)
                return
            p = z3.Int('in_p')
            kv = self.to_v(ctx, key)
            n = cont.length()
            yield ctx, z3.Exists([p], z3.And(p >= 0, p < n, self.seq_at(ctx, cont, p) == kv))
            return
        from .externals import Recorder as _RecM
        if isinstance(cont, _RecM):
            ctx.notes.append(('apicontains', cont.path, key))
            yield ctx, smt.fresh('in_external', smt.B)      # membership in a container of the external object: either answer
            return
        r = self.ext.contains(self, ctx, cont, key)
        if r is None:
            raise Unsupported('membership in %r' % (cont,))
        yield from r

    def ev_BinOp(self, e, ctx):
        for c, vals in self.ev_many([e.left, e.right], ctx):
            if isinstance(vals, Raised):
                yield c, vals
                continue
            yield from self.binop(c, e.op, vals[0], vals[1])

    def binop(self, ctx, op, a, b):
        if isinstance(op, ast.Add):
            if self._is_seq(ctx, a) and (self._is_seq(ctx, b) or (isinstance(b, S) and b.sort == 'V')):
                sa, sb = self.as_seq(ctx, a), self.as_seq(ctx, b)
                res = PySeq(sa.segs + sb.segs, sa.kind)
                yield ctx, (ctx.alloc('list', res) if sa.kind == 'list' else res)
                return
            if isinstance(a, S) and isinstance(b, S) and a.sort == 'V' and b.sort == 'V':
                # string concatenation on opaque strings
                yield ctx, S(smt.str_concat(a.t, b.t))
                return
        x, y = self.num(ctx, a), self.num(ctx, b)
        if x is not None and y is not None:
            if isinstance(op, ast.Div) or x.sort() == R or y.sort() == R:
                x = z3.ToReal(x) if x.sort() == I else x
                y = z3.ToReal(y) if y.sort() == I else y
            if isinstance(op, ast.Add):
                yield ctx, S(x + y)
            elif isinstance(op, ast.Sub):
                yield ctx, S(x - y)
            elif isinstance(op, ast.Mult):
                yield ctx, S(x * y)
            elif isinstance(op, ast.Div):
                for c2, z in self.branch(ctx, y == 0):
                    if z:
                        yield self.raise_(c2, 'ZeroDivisionError')
                    else:
                        yield c2, S(x / y)
            else:
                raise Unsupported('binop %s' % type(op).__name__)
            return
        r = self.ext.binop(self, ctx, op, a, b)
        if r is None:
            # arithmetic on an opaque value (a decoded payload item): decided where the value is known to be an int
            opq = [v for v, n_ in ((a, x), (b, y)) if n_ is None]
            if isinstance(op, (ast.Add, ast.Sub, ast.Mult)) and all(isinstance(v, S) and v.sort == 'V' for v in opq) \
                    and all(n_ is not None or (isinstance(v, S) and v.sort == 'V') for v, n_ in ((a, x), (b, y))):
                isint = z3.And(*[smt.kind(v.t) == smt.K_INT for v in opq])
                for c2, ok in self.branch(ctx, isint):
                    if not ok:
                        raise Unsupported('binop %s on an opaque value that need not be an int' % type(op).__name__)
                    xi = x if x is not None else smt.int_of(a.t)
                    yi = y if y is not None else smt.int_of(b.t)
                    if xi.sort() == R or yi.sort() == R:
                        xi = z3.ToReal(xi) if xi.sort() == I else xi
                        yi = z3.ToReal(yi) if yi.sort() == I else yi
                    yield c2, S(xi + yi if isinstance(op, ast.Add) else xi - yi if isinstance(op, ast.Sub) else xi * yi)
                return
            raise Unsupported('binop %s on %r, %r' % (type(op).__name__, a, b))
        yield from r

    def ev_Subscript(self, e, ctx):
        for c, base in self.ev(e.value, ctx):
            if isinstance(base, Raised):
                yield c, base
                continue
            if isinstance(e.slice, ast.Slice):
                parts = [e.slice.lower, e.slice.upper]
                if e.slice.step is not None:
                    raise Unsupported('slice step')
                exprs = [p for p in parts if p is not None]
                for c2, vals in self.ev_many(exprs, c):
                    if isinstance(vals, Raised):
                        yield c2, vals
                        continue
                    it = iter(vals)
                    lo = next(it) if parts[0] is not None else None
                    hi = next(it) if parts[1] is not None else None
                    yield from self.getslice(c2, base, lo, hi)
            else:
                for c2, k in self.ev(e.slice, c):
                    if isinstance(k, Raised):
                        yield c2, k
                        continue
                    yield from self.getitem(c2, base, k)

    def getitem(self, ctx, base, key):
        if isinstance(base, Ref):
            ty = self.ref_type(base)
            if isinstance(ty, (MapT, BidictT)):
                k = self.to_v(ctx, key)
                sv = self.load(ctx, base)
                for c, pres in self.branch(ctx, sv.present(k)):
                    if pres:
                        yield c, self.ref_value(c, Ref(base.obj, base.field, base.path + (('k', k),)))
                    else:
                        yield self.raise_(c, 'KeyError', key)
                return
            if isinstance(ty, SeqT):
                base = self.as_seq(ctx, base)
        if isinstance(base, HRef):
            h = ctx.heap[base.id]
            if h.kind == 'list':
                base = h.data
            elif h.kind == 'map':
                k = self.to_v(ctx, key)
                if isinstance(h.data, dict):
                    for kk, vv in h.data.items():
                        if z3.eq(kk, k):
                            yield ctx, vv
                            return
                    raise Unsupported('dict literal lookup with symbolic key')
                sv = h.data
                for c, pres in self.branch(ctx, sv.present(k)):
                    if pres:
                        ch = sv.child(('k', k))
                        yield c, (S(ch.leaf()) if isinstance(ch.ty, Leaf) else c.alloc('map', ch))
                    else:
                        yield self.raise_(c, 'KeyError', key)
                return
        if isinstance(base, PySeq):
            i = const_int(key)
            n = base.length()
            if i is not None:
                idx = z3.IntVal(i) if i >= 0 else n + i
                for c, ok in self.branch(ctx, z3.And(idx >= 0, idx < n)):
                    if not ok:
                        yield self.raise_(c, 'IndexError')
                        continue
                    yield c, self._seq_item(c, base, i, idx)
                return
            idx = self.to_i(ctx, key)
            for c, ok in self.branch(ctx, z3.And(idx >= 0, idx < n)):
                if ok:
                    yield c, S(self.seq_at(c, base, idx))
                else:
                    for c3, neg in self.branch(c, z3.And(idx < 0, idx >= -n)):
                        if neg:
                            yield c3, S(self.seq_at(c3, base, n + idx))
                        else:
                            yield self.raise_(c3, 'IndexError')
            return
        from .externals import Recorder
        if isinstance(base, Recorder):
            ctx.notes.append(('apigetitem', base.path, key))
            if getattr(self.ext, 'recorder_lookup_fails', False):
                # a lookup in a container of the external object may miss: the function under proof then raises by itself
                c_ = ctx.fork()
                yield c_, Raised(Exc('KeyError'))
            yield ctx, Recorder(base.path + '[]')
            return
        r = self.ext.getitem(self, ctx, base, key)
        if r is None:
            raise Unsupported('subscript of %r' % (base,))
        yield from r

    def _seq_item(self, ctx, seq, i, idx):
        """item at concrete python index i (idx = its non-negative symbolic form, known in range)"""
        if i >= 0:
            off = 0
            for s in seq.segs:
                if isinstance(s, Fixed):
                    if i < off + len(s.items):
                        return s.items[i - off]
                    off += len(s.items)
                else:
                    break
        else:
            off = 0
            for s in reversed(seq.segs):
                if isinstance(s, Fixed):
                    if -i <= off + len(s.items):
                        return s.items[len(s.items) - (-i - off)]
                    off += len(s.items)
                else:
                    break
        return S(self.seq_at(ctx, seq, idx))

    def getslice(self, ctx, base, lo, hi):
        if isinstance(base, HRef) and ctx.heap[base.id].kind == 'list':
            for c, v in self.getslice(ctx, ctx.heap[base.id].data, lo, hi):
                yield c, (c.alloc('list', v) if isinstance(v, PySeq) else v)
            return
        if isinstance(base, PySeq):
            l = 0 if lo is None else const_int(lo)
            h = None if hi is None else const_int(hi)
            if l is None or (hi is not None and h is None) or l < 0:
                raise Unsupported('symbolic slice bounds on a sequence')
            yield from self._slice_seq(ctx, base, l, h)
            return
        r = self.ext.getslice(self, ctx, base, lo, hi)
        if r is None:
            raise Unsupported('slice of %r' % (base,))
        yield from r

    def _slice_seq(self, ctx, seq, l, h):
        """seq[l:h] with concrete l >= 0 and h None or a concrete int (possibly negative)."""
        segs = list(seq.segs)
        # drop l items from the front
        out = []
        need = l
        for idx, s in enumerate(segs):
            if need == 0:
                out.append(s)
                continue
            if isinstance(s, Fixed):
                if len(s.items) <= need:
                    need -= len(s.items)
                else:
                    out.append(Fixed(s.items[need:]))
                    need = 0
            else:
                ln = s.hi - s.lo
                rest_empty = all(isinstance(x, Fixed) and not x.items for x in segs[idx + 1:])
                if not rest_empty:
                    raise Unsupported('slice start inside a view followed by more segments')
                k = z3.If(ln >= need, z3.IntVal(need), ln)
                out.append(View(s.arr, s.lo + k, s.hi))
                need = 0
        res = PySeq(out, seq.kind)
        if h is None:
            yield ctx, res
            return
        if h < 0:
            yield from self._drop_back(ctx, list(res.segs), -h, seq.kind)
            return
        fl = res.fixed_len()
        if fl is not None:
            yield ctx, PySeq([Fixed(res.items()[:max(0, h - l)])], seq.kind)
            return
        raise Unsupported('positive slice end on symbolic sequence')

    def _drop_back(self, ctx, segs, need, kind):
        """drop `need` items from the end of a segment list (forks on the length of a trailing view)"""
        if need == 0 or not segs:
            yield ctx, PySeq(segs, kind)
            return
        s = segs[-1]
        if isinstance(s, Fixed):
            if len(s.items) <= need:
                yield from self._drop_back(ctx, segs[:-1], need - len(s.items), kind)
            else:
                yield ctx, PySeq(segs[:-1] + [Fixed(s.items[:-need])], kind)
            return
        ln = s.hi - s.lo
        for c, enough in self.branch(ctx, ln >= need):
            if enough:
                yield c, PySeq(segs[:-1] + [View(s.arr, s.lo, s.hi - need)], kind)
                continue
            def shorter(c, k):
                if k == need:
                    return
                for c2, eq in self.branch(c, ln == k):
                    if eq:
                        yield from self._drop_back(c2, segs[:-1], need - k, kind)
                    else:
                        yield from shorter(c2, k + 1)
            yield from shorter(c, 0)

    def ev_Lambda(self, e, ctx):
        yield ctx, Fn('closure', node=e, frame=ctx.fid, name='<lambda>')

    def ev_ListComp(self, e, ctx):
        yield from self.ext.comprehension(self, ctx, e)

    def ev_DictComp(self, e, ctx):
        yield from self.ext.comprehension(self, ctx, e)

    def ev_GeneratorExp(self, e, ctx):
        yield from self.ext.comprehension(self, ctx, e)

    def ev_Starred(self, e, ctx):
        raise Unsupported('starred expression outside call/tuple')

    # ------------------------------------------------------------------ calls
    def ev_Call(self, e, ctx):
        if is_logging_call(e):
            # effect dropped, argument expressions still evaluated (DESIGN.md 3.2)
            exprs = [a.value if isinstance(a, ast.Starred) else a for a in e.args] + [k.value for k in e.keywords]
            if isinstance(e.func.value, ast.Call):
                exprs = list(e.func.value.args) + exprs
            for c, vals in self.ev_many(exprs, ctx):
                if isinstance(vals, Raised):
                    yield c, vals
                else:
                    yield c, S(NONE)
            return
        special = self.ext.special_call(self, ctx, e)
        if special is not None:
            yield from special
            return
        if isinstance(e.func, ast.Attribute) and e.func.attr == 'wait_for' and e.args and isinstance(e.args[0], ast.Call):
            e.args[0]._pyvc_in_wait_for = True       # E.wait() wrapped in asyncio.wait_for(..., timeout): the timeout is applied there
        for c, f in self.ev(e.func, ctx):
            if isinstance(f, Raised):
                yield c, f
                continue
            exprs = [a.value if isinstance(a, ast.Starred) else a for a in e.args] + [k.value for k in e.keywords]
            for c2, vals in self.ev_many(exprs, c):
                if isinstance(vals, Raised):
                    yield c2, vals
                    continue
                args, kwargs = [], {}
                star_kw = None
                for a, v in zip(e.args, vals[:len(e.args)]):
                    if isinstance(a, ast.Starred):
                        args.append(('*', v))
                    else:
                        args.append(v)
                for k, v in zip(e.keywords, vals[len(e.args):]):
                    if k.arg is None:
                        star_kw = v
                    else:
                        kwargs[k.arg] = v
                self.cur_call_node = e
                yield from self.call(c2, f, self.flatten_args(c2, args), kwargs, star_kw, node=e)

    def flatten_args(self, ctx, args):
        """positional args with *expansions -> PySeq"""
        segs = []
        for a in args:
            if isinstance(a, tuple) and a[0] == '*':
                segs += self.as_seq(ctx, a[1]).segs
            else:
                segs.append(Fixed([a]))
        return PySeq(segs, 'tuple')

    def call(self, ctx, f, args, kwargs, star_kw=None, node=None):
        """args: PySeq of positional arguments; kwargs: dict."""
        if star_kw is not None:
            kwargs = dict(kwargs)
            from .externals import Recorder as _Rec
            if isinstance(f, _Rec) and isinstance(star_kw, S):
                extra = {'**': star_kw}        # an opaque mapping handed on to a recorded external call: recorded as it is
            else:
                extra = self.ext.expand_kwargs(self, ctx, star_kw)
            kwargs.update(extra)
        if isinstance(f, Fn):
            if f.kind == 'builtin':
                yield from f.impl(self, ctx, args, kwargs)
                return
            if f.kind == 'method':
                yield from self.call_method(ctx, f, args, kwargs)
                return
            if f.kind == 'closure':
                yield from self.call_closure(ctx, f, args, kwargs)
                return
            if f.kind == 'partial':
                a2 = PySeq(f.args.segs + args.segs, 'tuple')
                k2 = dict(f.kwargs)
                k2.update(kwargs)
                yield from self.call(ctx, f.func, a2, k2)
                return
        if isinstance(f, ClassV):
            yield from self.ext.construct(self, ctx, f, args, kwargs)
            return
        from .externals import Recorder
        if isinstance(f, Recorder):
            k = sum(1 for n in ctx.notes if n[0] == 'api')
            r = Recorder('%s()#%d' % (f.path, k))
            if getattr(self.ext, 'recorder_raises', None) and f.path in self.ext.recorder_raises:
                # a recorded operation that may fail: any of the exception classes the surrounding code distinguishes
                for cls in self.ext.app_raises:
                    c2 = ctx.fork()
                    ex = Exc(cls, [], {'error_args': S(smt.fresh('error_args', V))} if cls.endswith('RefusedError') else {})
                    ex.origin = 'external'
                    c2.notes.append(('api', f.path, args, dict(kwargs), r, ex))
                    yield c2, Raised(ex)
            ctx.notes.append(('api', f.path, args, dict(kwargs), r, None))
            yield ctx, r
            return
        if isinstance(f, S) and f.sort == 'V':
            yield from self.ext.call_opaque(self, ctx, f, args, kwargs)
            return
        raise Unsupported('call of %r' % (f,))

    def bind_params(self, ctx, fn_node, args, kwargs, skip_self=True):
        """Bind call arguments to the parameters of fn_node -> dict name -> Value (defaults evaluated lazily by caller).
        Returns (bound, missing_defaults) or raises TypeError-outcome marker 'arity'."""
        pos, defaults, vararg, kwonly, kwarg = source.signature(fn_node)
        if skip_self and pos and pos[0] in ('self', 'cls'):
            pos = pos[1:]
        bound = {}
        fl = args.fixed_len()
        if fl is None:
            # symbolic number of positional args: only allowed when the callee takes *args right away
            nfixed = 0
            for s in args.segs:
                if isinstance(s, Fixed):
                    nfixed += len(s.items)
                else:
                    break
            lead = []
            for s in args.segs:
                if isinstance(s, Fixed):
                    lead += s.items
                else:
                    break
            if len(lead) < len(pos) and not all(p in kwargs or p in defaults for p in pos[len(lead):]):
                return 'symbolic-arity', None
            if vararg is None:
                return 'symbolic-arity', None
            for p, v in zip(pos, lead):
                bound[p] = v
            rest = PySeq(self._drop_front(args, min(len(lead), len(pos))), 'tuple')
            bound[vararg] = rest
        else:
            items = args.items()
            if len(items) > len(pos) and vararg is None:
                return 'arity', None
            for p, v in zip(pos, items):
                bound[p] = v
            if vararg is not None:
                bound[vararg] = PySeq([Fixed(items[len(pos):])], 'tuple')
        extra_kw = {}
        for k, v in kwargs.items():
            if k in pos or k in kwonly:
                if k in bound:
                    return 'arity', None
                bound[k] = v
            elif kwarg is not None:
                extra_kw[k] = v
            else:
                return 'arity', None
        if kwarg is not None:
            bound[kwarg] = ctx.alloc('map', {atom(k): v for k, v in extra_kw.items()})
        missing = [p for p in pos + kwonly if p not in bound]
        for p in missing:
            if p not in defaults:
                return 'arity', None
        return bound, {p: defaults[p] for p in missing}

    def _drop_front(self, seq, n):
        segs = []
        need = n
        for s in seq.segs:
            if need and isinstance(s, Fixed):
                if len(s.items) <= need:
                    need -= len(s.items)
                    continue
                segs.append(Fixed(s.items[need:]))
                need = 0
            else:
                segs.append(s)
        return segs

    def call_method(self, ctx, f, args, kwargs):
        obj = f.obj
        cls = self.schema.classes[obj]
        found = source.find_method(cls[0], cls[1], f.name, start_after=f.start_after)
        if not found:
            raise Unsupported('method %s.%s not found' % (obj, f.name))
        mod, cname, node = found
        qual = '%s.%s.%s' % (mod, cname, f.name)
        if self.current is not None and self.current.abstract_calls and qual.endswith(self.current.abstract_calls):
            # fault model: the callee may do anything to the state it can reach and may raise any Exception
            b = self.bind_params(ctx, source.prepared(node), args, kwargs, skip_self=True)
            vals = b[0] if isinstance(b[0], dict) else {}
            pre = ctx.st
            ctx.st = ctx.st.havoc(self.current.modifies, 'after_' + f.name)
            c2 = ctx.fork()
            ctx.notes.append(('called', qual, dict(vals), pre, ctx.st, 'return'))
            c2.notes.append(('called', qual, dict(vals), pre, c2.st, 'raise'))
            yield ctx, S(smt.fresh('res_' + f.name, V))
            ex_ = Exc('AppException', [])
            ex_.origin = 'abstract-callee'
            yield c2, Raised(ex_)
            return
        contract = self.registry.lookup(qual, obj, self.schema) if self.registry else None
        ext = self.ext.method_override(self, ctx, obj, qual, f.name)
        if ext is not None:
            yield from ext(self, ctx, args, kwargs)
            return
        if contract is not None and not contract.thin and not (self.current is not None and qual in self.current.inline):
            yield from self.apply_contract(ctx, contract, obj, node, args, kwargs, qual)
            return
        yield from self.inline(ctx, node, obj, (mod, cname), mod, args, kwargs, qual)

    def inline(self, ctx, node, self_obj, cls, modname, args, kwargs, qual, parent=None, self_val=None):
        if ctx.depth >= self.max_depth:
            raise Unsupported('inlining depth exceeded at %s' % qual)
        self.inlined.add(qual)
        node = source.prepared(node) if not getattr(node, '_pyvc_prepared', False) else node
        node._pyvc_prepared = True
        kc_ = self.registry.by_target.get(qual) if self.registry is not None and hasattr(self.registry, 'by_target') else None
        if kc_ is not None and kc_.loops and kc_ is not self.current and not getattr(node, '_pyvc_loops_tagged', False):
            from .loops import number_loops
            from .contract import recorded_loop_sigs
            number_loops(node, recorded_loop_sigs().get(qual))
            for n_ in ast.walk(node):
                k_ = getattr(n_, '_pyvc_loop', None)
                if k_ is not None and k_ in kc_.loops:
                    n_._pyvc_loop_spec = kc_.loops[k_]
                    n_._pyvc_loop_label = '%s#%d' % (qual.split('.')[-1], k_)
                if k_ is not None:
                    del n_._pyvc_loop
            node._pyvc_loops_tagged = True
        is_method = self_obj is not None or self_val is not None
        b = self.bind_params(ctx, node, args, kwargs, skip_self=is_method)
        if b[0] in ('arity', 'symbolic-arity'):
            if b[0] == 'symbolic-arity':
                raise Unsupported('call of %s with a symbolic number of positional arguments' % qual)
            yield self.raise_(ctx, 'TypeError')
            return
        bound, missing = b
        fid = ctx.new_id()
        vars = dict(bound)
        a = node.args
        if is_method and (a.posonlyargs + a.args):
            vars[(a.posonlyargs + a.args)[0].arg] = self_val if self_val is not None else Obj(self_obj)
        if getattr(node, '_pyvc_loops_tagged', False) and kc_ is not None and not missing:
            # the callee's loop invariants are inductive under ITS precondition: the call site must establish it
            from .contract import CallCtx, coerce_arg
            try:
                vals_ = {p_: coerce_arg(self, ctx, bound[p_], kd_) for p_, kd_ in kc_.params.items() if p_ in bound}
                c0_ = CallCtx(self, ctx, ctx.st, ctx.st, vals_, self_obj=self_obj)
                for rn_, rt_ in (kc_.requires(c0_) or {}).items():
                    if not (rn_.startswith('assume:') or rn_.startswith('dom.')):
                        self.oblig('call:%s/pre.%s' % (kc_.target, rn_), ctx, rt_, kind='callpre')
            except Unsupported:
                raise
        caller = ctx.fid
        ctx.frames[fid] = Frame(vars, parent, self_obj, cls, node.name if hasattr(node, 'name') else '<lambda>', modname)
        ctx.frames[fid].assigned = assigned_names(node)
        ctx.fid = fid
        ctx.depth += 1
        # defaults
        ctxs = [ctx]
        for p, dexpr in missing.items():
            nxt = []
            for c in ctxs:
                for c2, v in self.ev(dexpr, c):
                    if isinstance(v, Raised):
                        raise Unsupported('raising default')
                    if isinstance(v, HRef) and False:
                        pass
                    c2.frames[fid].vars[p] = v
                    nxt.append(c2)
            ctxs = nxt
        for c in ctxs:
            if isinstance(node, ast.Lambda):
                for c2, v in self.ev(node.body, c):
                    c2.fid = caller
                    c2.depth -= 1
                    yield c2, v
                continue
            for o in self.exec_block(node.body, c):
                c2 = o.ctx
                c2.fid = caller
                c2.depth -= 1
                if o.kind == 'raise':
                    yield c2, Raised(o.val)
                elif o.kind == 'return':
                    yield c2, o.val
                elif o.kind == 'next':
                    yield c2, S(NONE)
                else:
                    raise Unsupported('break/continue escaping a function')

    def call_closure(self, ctx, f, args, kwargs):
        fr = ctx.frames[f.frame]
        yield from self.inline(ctx, f.node, None, fr.cls, fr.modname, args, kwargs, '<closure %s>' % f.name, parent=f.frame)

    def apply_contract(self, ctx, contract, obj, node, args, kwargs, qual):
        from . import contract as cmod
        yield from cmod.apply_at_call(self, ctx, contract, obj, node, args, kwargs, qual)

    # ------------------------------------------------------------------ statements
    def exec_block(self, stmts, ctx):
        """Execute a statement list: generator of Out."""
        if not stmts:
            yield Out('next', ctx)
            return
        for o in self.exec_stmt(stmts[0], ctx):
            if o.kind == 'next':
                yield from self.exec_block(stmts[1:], o.ctx)
            else:
                yield o

    def exec_stmt(self, s, ctx):
        m = getattr(self, 'st_' + type(s).__name__, None)
        if m is None:
            raise Unsupported('statement %s' % type(s).__name__)
        return m(s, ctx)

    def st_Pass(self, s, ctx):
        yield Out('next', ctx)

    def st_Global(self, s, ctx):
        yield Out('next', ctx)

    def st_Expr(self, s, ctx):
        if isinstance(s.value, ast.Constant):
            yield Out('next', ctx)
            return
        if isinstance(s.value, ast.YieldFrom):
            # a generator whose only yield is a trailing `yield from <iterable>` produces that iterable's items
            from .loops import GenSeq, _iterable
            for c, v in self.ev(s.value.value, ctx):
                if isinstance(v, Raised):
                    yield Out('raise', c, v.exc)
                    continue
                what, coll = _iterable(self, c, v)
                if what == 'seq' and getattr(self.ext, 'yield_skip', False):
                    # a relaying generator seen from the inside: the items go to the consumer, its own state is untouched;
                    # the iterable then ends (or its creation / iteration raised: the recorded call's raise forks)
                    c.notes.append(('yielded-from', v))
                    yield Out('next', c)
                    continue
                if what == 'seq':
                    raise Unsupported('yield from a sequence')
                c.notes.append(('generator',))
                yield Out('return', c, GenSeq(what, coll))
            return
        if isinstance(s.value, ast.Yield) and getattr(self.ext, 'yield_skip', False):
            for c, v in (self.ev(s.value.value, ctx) if s.value.value is not None else [(ctx, S(NONE))]):
                if isinstance(v, Raised):
                    yield Out('raise', c, v.exc)
                else:
                    c.notes.append(('yielded', v))
                    yield Out('next', c)
            return
        for c, v in self.ev(s.value, ctx):
            yield Out('raise', c, v.exc) if isinstance(v, Raised) else Out('next', c)

    def st_Return(self, s, ctx):
        if s.value is None:
            yield Out('return', ctx, S(NONE))
            return
        for c, v in self.ev(s.value, ctx):
            yield Out('raise', c, v.exc) if isinstance(v, Raised) else Out('return', c, v)

    def st_Raise(self, s, ctx):
        if s.exc is None:
            cur = ctx.lookup('$exc')
            if cur is None:
                raise Unsupported('bare raise outside handler')
            yield Out('raise', ctx, cur)
            return
        for c, v in self.ev(s.exc, ctx):
            if isinstance(v, Raised):
                yield Out('raise', c, v.exc)
            elif isinstance(v, Exc):
                v.origin = getattr(v, 'origin', None) or 'raise-statement'
                yield Out('raise', c, v)
            elif isinstance(v, ClassV):
                for c2, x in self.ext.construct(self, c, v, PySeq([], 'tuple'), {}):
                    if not isinstance(x, Raised):
                        x.origin = 'raise-statement'
                    yield Out('raise', c2, x.exc if isinstance(x, Raised) else x)
            else:
                raise Unsupported('raise of %r' % (v,))

    def st_Break(self, s, ctx):
        yield Out('break', ctx)

    def st_Continue(self, s, ctx):
        yield Out('continue', ctx)

    def st_Assert(self, s, ctx):
        for c, v in self.ev(s.test, ctx):
            if isinstance(v, Raised):
                yield Out('raise', c, v.exc)
                continue
            for c2, ok in self.branch(c, self.truth(c, v)):
                if ok:
                    yield Out('next', c2)
                else:
                    yield Out('raise', c2, Exc('AssertionError'))

    def st_If(self, s, ctx):
        for c, t in self.ev(s.test, ctx):
            if isinstance(t, Raised):
                yield Out('raise', c, t.exc)
                continue
            for c2, side in self.branch(c, self.truth(c, t)):
                yield from self.exec_block(s.body if side else s.orelse, c2)

    def st_Assign(self, s, ctx):
        for c, v in self.ev(s.value, ctx):
            if isinstance(v, Raised):
                yield Out('raise', c, v.exc)
                continue
            ctxs = [c]
            failed = False
            for tgt in s.targets:
                nxt = []
                for cc in ctxs:
                    for c2, r in self.assign(cc, tgt, v):
                        if isinstance(r, Raised):
                            yield Out('raise', c2, r.exc)
                        else:
                            nxt.append(c2)
                ctxs = nxt
            for cc in ctxs:
                yield Out('next', cc)

    def st_AnnAssign(self, s, ctx):
        if s.value is None:
            yield Out('next', ctx)
            return
        yield from self.st_Assign(ast.Assign(targets=[s.target], value=s.value), ctx)

    def st_AugAssign(self, s, ctx):
        load_t = ast.fix_missing_locations(ast.copy_location(_as_load(s.target), s.target))
        for c, vals in self.ev_many([load_t, s.value], ctx):
            if isinstance(vals, Raised):
                yield Out('raise', c, vals.exc)
                continue
            for c2, r in self.binop(c, s.op, vals[0], vals[1]):
                if isinstance(r, Raised):
                    yield Out('raise', c2, r.exc)
                    continue
                for c3, rr in self.assign(c2, s.target, r):
                    yield Out('raise', c3, rr.exc) if isinstance(rr, Raised) else Out('next', c3)

    def assign(self, ctx, tgt, v):
        """generator of (ctx, None | Raised)"""
        if isinstance(tgt, ast.Name):
            ctx.bind(tgt.id, v)
            yield ctx, None
            return
        if isinstance(tgt, (ast.Tuple, ast.List)):
            seq = self.as_seq(ctx, v)
            n = len(tgt.elts)
            ln = seq.length()
            for c, ok in self.branch(ctx, ln == n):
                if not ok:
                    yield self.raise_(c, 'ValueError')
                    continue
                ctxs = [c]
                for i, t in enumerate(tgt.elts):
                    nxt = []
                    for cc in ctxs:
                        item = self._seq_item(cc, seq, i, z3.IntVal(i))
                        for c2, r in self.assign(cc, t, item):
                            if isinstance(r, Raised):
                                yield c2, r
                            else:
                                nxt.append(c2)
                    ctxs = nxt
                for cc in ctxs:
                    yield cc, None
            return
        if isinstance(tgt, ast.Attribute):
            for c, base in self.ev(tgt.value, ctx):
                if isinstance(base, Raised):
                    yield c, base
                    continue
                yield from self.setattr(c, base, tgt.attr, v)
            return
        if isinstance(tgt, ast.Subscript):
            if isinstance(tgt.slice, ast.Slice):
                raise Unsupported('slice assignment')
            for c, vals in self.ev_many([tgt.value, tgt.slice], ctx):
                if isinstance(vals, Raised):
                    yield c, vals
                    continue
                yield from self.setitem(c, vals[0], vals[1], v)
            return
        raise Unsupported('assignment target %s' % type(tgt).__name__)

    def setattr(self, ctx, base, attr, v):
        if isinstance(base, Obj):
            key = (base.name, attr)
            if key in self.schema.fields:
                ty = self.schema.fields[key]
                newsv = self.sv_of(ctx, v, ty)
                self.detach_field_refs(ctx, base.name, attr)
                ctx.st = ctx.st.set(base.name, attr, newsv)
                yield ctx, None
                return
            r = self.ext.obj_setattr(self, ctx, base, attr, v)
            if r is not None:
                yield from r
                return
            raise Unsupported('assignment to undeclared attribute %s.%s (state inventory)' % (base.name, attr))
        if isinstance(base, HRef) and ctx.heap[base.id].kind == 'rec':
            ctx.heap[base.id].data[attr] = v
            yield ctx, None
            return
        from .externals import Recorder
        if isinstance(base, Recorder):
            ctx.notes.append(('apiset', base.path + '.' + attr, v))
            yield ctx, None
            return
        if isinstance(base, Ref):
            ty = self.ref_type(base)
            if isinstance(ty, RecT) and attr in ty.fields:
                self.store(ctx, Ref(base.obj, base.field, base.path + (('f', attr),)), self.sv_of(ctx, v, ty.fields[attr]))
                yield ctx, None
                return
            if isinstance(ty, OptT) and isinstance(ty.inner, RecT) and attr in ty.inner.fields:
                self.store(ctx, Ref(base.obj, base.field, base.path + (('?',), ('f', attr))), self.sv_of(ctx, v, ty.inner.fields[attr]))
                yield ctx, None
                return
        raise Unsupported('attribute assignment on %r' % (base,))

    def setitem(self, ctx, cont, key, v):
        if isinstance(cont, Ref):
            ty = self.ref_type(cont)
            k = self.to_v(ctx, key)
            if isinstance(ty, MapT):
                self.store(ctx, Ref(cont.obj, cont.field, cont.path + (('k', k),)), self.sv_of(ctx, v, ty.val))
                inits = [n for n in ctx.notes if n[0] == 'counter_init']
                if inits:
                    ctx.notes = [n for n in ctx.notes if n[0] != 'counter_init']
                    cf = self.ext.counter_fields.get((cont.obj, cont.field))
                    if cf is None or len(cont.path) != 0 or len(inits) != 1:
                        raise Unsupported('itertools.count stored somewhere that is not a modelled counter slot')
                    g = ctx.st.get(*cf)
                    ctx.st = ctx.st.set(cf[0], cf[1], g.with_child(('k', k), SV(Leaf('I'), {'': self.to_i(ctx, inits[0][1])})))
                yield ctx, None
                return
            if isinstance(ty, BidictT):
                sv = self.load(ctx, cont)
                val = self.to_v(ctx, v)
                dup = z3.And(sv.c['idom'][val], sv.c['inv'][val] != k)
                for c, d in self.branch(ctx, dup):
                    if d:
                        yield self.raise_(c, 'ValueDuplicationError')
                        continue
                    sv = self.load(c, cont)
                    had = z3.And(sv.c['dom'][k], sv.c['val'][k] != val)
                    idom = z3.If(had, z3.Store(sv.c['idom'], sv.c['val'][k], z3.BoolVal(False)), sv.c['idom'])
                    new = SV(sv.ty, {'dom': z3.Store(sv.c['dom'], k, z3.BoolVal(True)), 'val': z3.Store(sv.c['val'], k, val),
                                     'idom': z3.Store(idom, val, z3.BoolVal(True)), 'inv': z3.Store(sv.c['inv'], val, k)})
                    self.store(c, cont, new)
                    yield c, None
                return
        if isinstance(cont, HRef):
            h = ctx.heap[cont.id]
            if h.alias_of is not None:
                self.alias_write(ctx, h, 'item assignment')
            if h.kind == 'map':
                k = self.to_v(ctx, key)
                if isinstance(h.data, dict):
                    d = dict(h.data)
                    for kk in list(d):
                        if z3.eq(kk, k):
                            d[kk] = v
                            break
                    else:
                        if any(not z3.is_false(z3.simplify(kk == k)) and not _distinct_atoms(kk, k) for kk in d):
                            raise Unsupported('dict literal update with possibly-aliasing key')
                        d[k] = v
                    h.data = d
                    yield ctx, None
                    return
                sv = h.data
                if isinstance(sv.ty, MapT):
                    h.data = sv.with_child(('k', k), self.sv_of(ctx, v, sv.ty.val))
                    yield ctx, None
                    return
        from .externals import Recorder
        if isinstance(cont, Recorder):
            ctx.notes.append(('apisetitem', cont.path, key, v))
            yield ctx, None
            return
        r = self.ext.setitem(self, ctx, cont, key, v)
        if r is None:
            raise Unsupported('item assignment on %r' % (cont,))
        yield from r

    def st_Delete(self, s, ctx):
        ctxs = [ctx]
        for t in s.targets:
            nxt = []
            for c in ctxs:
                for o in self._delete(t, c):
                    if o.kind == 'next':
                        nxt.append(o.ctx)
                    else:
                        yield o
            ctxs = nxt
        for c in ctxs:
            yield Out('next', c)

    def _delete(self, t, ctx):
        if isinstance(t, ast.Name):
            ctx.frame.vars.pop(t.id, None)
            yield Out('next', ctx)
            return
        if not isinstance(t, ast.Subscript):
            raise Unsupported('del target')
        for c, vals in self.ev_many([t.value, t.slice], ctx):
            if isinstance(vals, Raised):
                yield Out('raise', c, vals.exc)
                continue
            for c2, r in self.delitem(c, vals[0], vals[1]):
                yield Out('raise', c2, r.exc) if isinstance(r, Raised) else Out('next', c2)

    def delitem(self, ctx, cont, key):
        if isinstance(cont, Ref):
            ty = self.ref_type(cont)
            if isinstance(ty, (MapT, BidictT)):
                k = self.to_v(ctx, key)
                sv = self.load(ctx, cont)
                for c, pres in self.branch(ctx, sv.present(k)):
                    if not pres:
                        yield self.raise_(c, 'KeyError', key)
                        continue
                    self.detach_refs(c, cont, k)
                    sv = self.load(c, cont)
                    self.store(c, cont, sv.without(k))
                    yield c, None
                return
        if isinstance(cont, HRef):
            h = ctx.heap[cont.id]
            if h.alias_of is not None:
                self.alias_write(ctx, h, 'del')
            if h.kind == 'map' and isinstance(h.data, SV):
                k = self.to_v(ctx, key)
                for c, pres in self.branch(ctx, h.data.present(k)):
                    if not pres:
                        yield self.raise_(c, 'KeyError', key)
                        continue
                    hh = c.heap[cont.id]
                    hh.data = hh.data.without(k)
                    yield c, None
                return
        from .externals import Recorder
        if isinstance(cont, Recorder):
            ctx.notes.append(('apidelitem', cont.path, key))
            c2 = ctx.fork()
            yield ctx, None
            yield c2, Raised(Exc('KeyError'))
            return
        r = self.ext.delitem(self, ctx, cont, key)
        if r is None:
            raise Unsupported('del item of %r' % (cont,))
        yield from r

    def detach_field_refs(self, ctx, obj, field):
        """Before a whole field is overwritten, locals borrowing a path into it become detached snapshots (the Python
        objects they name live on)."""
        for fr in ctx.frames.values():
            for name, v in list(fr.vars.items()):
                if isinstance(v, Ref) and v.obj == obj and v.field == field:
                    sv = self.load(ctx, v)
                    ty = sv.ty
                    if isinstance(ty, OptT):
                        sv = sv.child(('?',))
                        ty = sv.ty
                    if isinstance(ty, RecT):
                        fields = {}
                        for f, fty in ty.fields.items():
                            ch = sv.child(('f', f))
                            if isinstance(fty, Leaf):
                                fields[f] = S(ch.leaf())
                            elif isinstance(fty, SeqT):
                                ctx.assume(ch.c['len'] >= 0)
                                fields[f] = ctx.alloc('list', PySeq([View(ch.c['arr'], z3.IntVal(0), ch.c['len'])], 'list'))
                            else:
                                fields[f] = ctx.alloc('map', ch)
                        fr.vars[name] = ctx.alloc('rec', fields, cls=self.ext.rec_class_name(ty.name))
                    elif isinstance(ty, Leaf):
                        fr.vars[name] = S(sv.leaf())
                    else:
                        fr.vars[name] = ctx.alloc('map', sv)

    def detach_refs(self, ctx, cont, k):
        """Before a path is deleted, locals borrowing it become detached snapshots (DESIGN.md 3.3)."""
        prefix = cont.path + (('k', k),)
        for fr in ctx.frames.values():
            for name, v in list(fr.vars.items()):
                if isinstance(v, Ref) and v.obj == cont.obj and v.field == cont.field and len(v.path) >= len(prefix) \
                        and all(_step_eq(a, b) for a, b in zip(v.path, prefix)):
                    sv = self.load(ctx, v)
                    if isinstance(sv.ty, RecT):
                        fields = {}
                        for f, fty in sv.ty.fields.items():
                            ch = sv.child(('f', f))
                            fields[f] = S(ch.leaf()) if isinstance(fty, Leaf) else ctx.alloc('map' if not isinstance(fty, SeqT) else 'list',
                                                                                                ch if not isinstance(fty, SeqT) else PySeq([View(ch.c['arr'], z3.IntVal(0), ch.c['len'])], 'list'))
                        fr.vars[name] = ctx.alloc('rec', fields, cls=self.ext.rec_class_name(sv.ty.name))
                    elif isinstance(sv.ty, Leaf):
                        fr.vars[name] = S(sv.leaf())
                    else:
                        fr.vars[name] = ctx.alloc('map', sv)

    def st_FunctionDef(self, s, ctx):
        f = Fn('closure', node=s, frame=ctx.fid, name=s.name)
        decos = list(s.decorator_list)
        if not decos:
            ctx.bind(s.name, f)
            yield Out('next', ctx)
            return
        # decorators: evaluate decorator expression and call it with the function (bottom-up)
        def apply(ctx, val, decos):
            if not decos:
                ctx.bind(s.name, val)
                yield Out('next', ctx)
                return
            d = decos[-1]
            for c, dv in self.ev(d, ctx):
                if isinstance(dv, Raised):
                    yield Out('raise', c, dv.exc)
                    continue
                for c2, r in self.call(c, dv, PySeq([Fixed([val])], 'tuple'), {}):
                    if isinstance(r, Raised):
                        yield Out('raise', c2, r.exc)
                    else:
                        yield from apply(c2, r, decos[:-1])
        yield from apply(ctx, f, decos)

    def st_ClassDef(self, s, ctx):
        r = self.ext.local_class(self, ctx, s)
        if r is None:
            raise Unsupported('nested class %s' % s.name)
        yield Out('next', ctx)

    def st_Import(self, s, ctx):
        for a in s.names:
            ctx.bind(a.asname or a.name.split('.')[0], ModuleV(a.name))
        yield Out('next', ctx)

    def st_ImportFrom(self, s, ctx):
        for a in s.names:
            if s.module is None:
                ctx.bind(a.asname or a.name, ModuleV('socketio.' + a.name))
            else:
                v = self.ext.import_name(self, ctx, s.module, a.name, s.level)
                ctx.bind(a.asname or a.name, v)
        yield Out('next', ctx)

    def st_Try(self, s, ctx):
        if s.finalbody:
            inner = ast.Try(body=s.body, handlers=s.handlers, orelse=s.orelse, finalbody=[])
            inner = ast.copy_location(inner, s)
            src = self._try_core(inner, ctx) if (s.handlers or s.orelse) else self.exec_block(s.body, ctx)
            for o in src:
                for f in self.exec_block(s.finalbody, o.ctx):
                    if f.kind == 'next':
                        yield Out(o.kind, f.ctx, o.val)      # the pending outcome resumes after the finally block
                    else:
                        yield f                               # return/raise/break inside finally overrides it
            return
        yield from self._try_core(s, ctx)

    def _try_core(self, s, ctx):
        for o in self.exec_block(s.body, ctx):
            if o.kind == 'raise':
                handled = False
                for h in s.handlers:
                    m = self.handler_matches(o.ctx, h, o.val)
                    if m:
                        handled = True
                        c = o.ctx
                        if h.name:
                            c.bind(h.name, o.val)
                        saved = c.frame.vars.get('$exc')
                        c.frame.vars['$exc'] = o.val
                        for o2 in self.exec_block(h.body, c):
                            if saved is None:
                                o2.ctx.frame.vars.pop('$exc', None)
                            else:
                                o2.ctx.frame.vars['$exc'] = saved
                            yield o2
                        break
                if not handled:
                    yield o
            elif o.kind == 'next':
                yield from self.exec_block(s.orelse, o.ctx)
            else:
                yield o

    def handler_matches(self, ctx, h, exc):
        if h.type is None:
            return True
        names = self.ext.exc_class_names(self, ctx, h.type)
        return any(exc_isa(exc.cls, n) for n in names)

    def st_While(self, s, ctx):
        from . import loops
        yield from loops.exec_while(self, s, ctx)

    def st_For(self, s, ctx):
        from . import loops
        yield from loops.exec_for(self, s, ctx)

    def st_With(self, s, ctx):
        raise Unsupported('with statement')


class LenOf(Value):
    """Result of len(container) for state containers: compared against 0 it is an emptiness test."""
    def __init__(self, sv):
        self.sv = sv

    def empty(self):
        return self.sv.is_empty()

    def term(self, ctx):
        sv = self.sv
        if isinstance(sv.ty, SeqT):
            return sv.c['len']
        # cardinality of a map domain: uninterpreted, tied to emptiness
        f = z3.Function('card_' + str(sv.c[next(iter(sv.c))].sort()).replace(' ', '_'), sv.c[next(iter(sv.c))].sort(), I)
        t = f(sv.c[next(iter(sv.c))])
        ctx.assume(t >= 0, (t == 0) == sv.is_empty())
        return t


def _as_load(t):
    import copy
    t2 = copy.deepcopy(t)
    for n in ast.walk(t2):
        if hasattr(n, 'ctx'):
            n.ctx = ast.Load()
    return t2


def _step_eq(a, b):
    if a[0] != b[0]:
        return False
    if a[0] == 'k':
        return z3.eq(a[1], b[1])
    if a[0] == 'f':
        return a[1] == b[1]
    return True


def _distinct_atoms(a, b):
    return z3.is_const(a) and z3.is_const(b) and a.decl().name().startswith(('str:', 'None', 'True', 'False')) \
        and b.decl().name().startswith(('str:', 'None', 'True', 'False')) and not z3.eq(a, b)
