-- spec-theory lemmas used as axioms by the SMT encoding (code-independent)

/-- prefix sums of a natural-valued function -/
def off (f : Nat → Nat) : Nat → Nat
  | 0 => 0
  | i+1 => off f i + f i

theorem off_step (f : Nat → Nat) (i : Nat) : off f (i+1) = off f i + f i := rfl

theorem off_mono (f : Nat → Nat) {i j : Nat} (h : i ≤ j) : off f i ≤ off f j := by
  induction h with
  | refl => exact Nat.le_refl _
  | step _ ih => exact Nat.le_trans ih (Nat.le_add_right _ _)

/-- doubling closed form for the reconnect back-off (C10) -/
def dbl (d : Nat) : Nat → Nat
  | 0 => d
  | k+1 => 2 * dbl d k

theorem dbl_closed (d k : Nat) : dbl d k = d * 2 ^ k := by
  induction k with
  | zero => simp [dbl]
  | succ k ih => simp [dbl, ih, Nat.pow_succ, Nat.mul_comm, Nat.mul_left_comm]

/-- invariant induction over histories (section 4.1) -/
inductive Reachable {S : Type} (init : S → Prop) (step : S → S → Prop) : S → Prop
  | base {s} : init s → Reachable init step s
  | next {s t} : Reachable init step s → step s t → Reachable init step t

theorem reachable_inv {S : Type} (init : S → Prop) (step : S → S → Prop) (Inv : S → Prop)
    (h0 : ∀ s, init s → Inv s) (hs : ∀ s t, Inv s → step s t → Inv t) :
    ∀ s, Reachable init step s → Inv s := by
  intro s h
  induction h with
  | base hi => exact h0 _ hi
  | next _ hst ih => exact hs _ _ ih hst

/-- a prefix sum is positive iff one of its summands is (used for: a list/dict payload is binary iff one item is) -/
theorem off_pos_iff (f : Nat → Nat) (n : Nat) : off f n > 0 ↔ ∃ j, j < n ∧ f j > 0 := by
  induction n with
  | zero => simp [off]
  | succ n ih =>
    constructor
    · intro h
      simp [off] at h
      by_cases hn : off f n > 0
      · obtain ⟨j, hj, hf⟩ := ih.mp hn
        exact ⟨j, Nat.lt_succ_of_lt hj, hf⟩
      · have h0 : off f n = 0 := by omega
        have : f n > 0 := by omega
        exact ⟨n, Nat.lt_succ_self n, this⟩
    · intro ⟨j, hj, hf⟩
      simp [off]
      by_cases hjn : j < n
      · have := ih.mpr ⟨j, hjn, hf⟩
        omega
      · have : j = n := by omega
        subst this
        omega
