#!/venv/bin/python
"""Counter-example finder for the handler-resolution obligations of C13 (also met in C05/C09): used ONLY when an obligation
of _get_event_handler / _get_namespace_handler / _trigger_event has already failed, to look for an input that shows the
failure on the real code.  Exhaustive over a small space of registries (function handlers on {ns, '*'} x {event, '*'},
an unrelated handler on ns, class-based namespaces for ns and '*'), events {an ordinary one, connect}, for Server,
AsyncServer, Client, AsyncClient; compared with the precedence written in the property statement.
Prints a JSON object {"checked": n, "failures": [...]}; never part of a verdict on its own."""
import asyncio
import itertools
import json
import os
import sys

ROOT = os.environ.get('VERIF_REPO_ROOT', '/repo')
sys.path.insert(0, os.path.join(ROOT, 'src'))
import socketio      # noqa: E402

NS = '/a'
KEYS = [(NS, 'E'), (NS, '*'), ('*', 'E'), ('*', '*')]       # 'E' stands for the event of the case


def oracle(event, fkeys, classes, reserved, args):
    F = {(n, event if e == 'E' else e) for n, e in fkeys}
    if (NS, event) in F:
        return ('fn', NS, event), tuple(args)
    if event not in reserved and (NS, '*') in F:
        return ('fn', NS, '*'), (event,) + tuple(args)
    if ('*', event) in F:
        return ('fn', '*', event), (NS,) + tuple(args)
    if event not in reserved and ('*', '*') in F:
        return ('fn', '*', '*'), (event, NS) + tuple(args)
    if NS in classes:
        return ('cls', NS, event), tuple(args)
    if '*' in classes:
        return ('cls', '*', event), (NS,) + tuple(args)
    return None, None


def build(kind, event, fkeys, classes, unrelated, log, unrelated_star=False):
    is_async = kind.startswith('Async')
    is_server = kind.endswith('Server')
    obj = getattr(socketio, kind)()
    base = (socketio.AsyncNamespace if is_async else socketio.Namespace) if is_server else \
        (socketio.AsyncClientNamespace if is_async else socketio.ClientNamespace)

    def mk(tag):
        if is_async:
            async def h(*a):
                log.append((tag, a))
        else:
            def h(*a):
                log.append((tag, a))
        return h
    for n, e in fkeys:
        ev = event if e == 'E' else e
        obj.on(ev, mk(('fn', n, ev)), namespace=n)
    if unrelated:
        obj.on('unrelated', mk(('fn', NS, 'unrelated')), namespace=NS)
    if unrelated_star:
        obj.on('unrelated', mk(('fn', '*', 'unrelated')), namespace='*')
    for cn in classes:
        def make_cls(cn=cn):
            class C(base):
                pass
            for ev in ('x', 'connect'):
                if is_async:
                    async def m(self, *a, _ev=ev):
                        log.append((('cls', cn, _ev), a))
                else:
                    def m(self, *a, _ev=ev):
                        log.append((('cls', cn, _ev), a))
                setattr(C, 'on_' + ev, m)
            return C(cn)
        obj.register_namespace(make_cls())
    return obj, is_async


def main():
    failures, checked = [], 0
    only = os.environ.get('ROUTING_ONLY')
    for kind in ('Server', 'AsyncServer', 'Client', 'AsyncClient'):
        if only and kind != only:
            continue
        reserved = {'connect', 'disconnect'} | ({'connect_error'} if kind.endswith('Client') else set())
        for event in ('x', 'connect'):
            for r in range(len(KEYS) + 1):
                for fkeys in itertools.combinations(KEYS, r):
                    for classes in ((), (NS,), ('*',), (NS, '*')):
                        for unrelated, unrelated_star in ((False, False), (True, False), (False, True), (True, True)):
                            checked += 1
                            log = []
                            try:
                                obj, is_async = build(kind, event, fkeys, classes, unrelated, log, unrelated_star)
                                args = ('sid1', 'payload') if kind.endswith('Server') else ('payload',)
                                if is_async:
                                    asyncio.run(obj._trigger_event(event, NS, *args))
                                else:
                                    obj._trigger_event(event, NS, *args)
                                got = log
                            except Exception as e:      # noqa: BLE001
                                got = 'raised %r' % (e,)
                            want_t, want_a = oracle(event, fkeys, classes, reserved, args)
                            want = [] if want_t is None else [(want_t, want_a)]
                            if got != want and len(failures) < 5:
                                failures.append({'class': kind, 'event': event, 'namespace': NS,
                                                 'function_handlers': [[n, event if e == 'E' else e] for n, e in fkeys] + ([[NS, 'unrelated']] if unrelated else []) + ([['*', 'unrelated']] if unrelated_star else []),
                                                 'class_based_namespaces': list(classes), 'arguments': list(args),
                                                 'expected': repr(want), 'got': repr(got)})
    print(json.dumps({'checked': checked, 'failures': failures}))


if __name__ == '__main__':
    main()
