#!/venv/bin/python
"""Counter-example finder for the acknowledgement obligations (C05, C06, C09, C02): used ONLY when an obligation of
_handle_event_internal / _handle_event (server and client) or call() has already failed, to look for a handler return value /
acknowledged payload that shows the failure on the real code.  The oracle is the statement's rule: None -> no argument, a
tuple -> its elements, anything else -> one argument; call(): none -> None, one -> the value, several -> the tuple.
Prints {"checked": n, "failures": [...]}; never part of a verdict on its own."""
import asyncio
import json
import os
import sys
import threading
from unittest import mock

ROOT = os.environ.get('VERIF_REPO_ROOT', '/repo')
sys.path.insert(0, os.path.join(ROOT, 'src'))
import socketio                      # noqa: E402
from socketio import packet          # noqa: E402

RETURNS = [None, 0, 0.0, False, '', [], {}, b'', 1, 'x', [0], {'a': None}, b'\x00', (), (0,), (1, 2), ('', None), (b'x', 1)]
IDS = [0, 1, 7]


def pack(r):
    return [] if r is None else (list(r) if isinstance(r, tuple) else [r])


def has_bytes(x):
    if isinstance(x, (bytes, bytearray)):
        return True
    if isinstance(x, (list, tuple)):
        return any(has_bytes(i) for i in x)
    if isinstance(x, dict):
        return any(has_bytes(v) for v in x.values())
    return False


def same(a, b):
    if type(a) is not type(b):
        return False
    if isinstance(a, (list, tuple)):
        return len(a) == len(b) and all(same(x, y) for x, y in zip(a, b))
    if isinstance(a, dict):
        return list(a) == list(b) and all(same(a[k], b[k]) for k in a)
    return a == b


def server_ack(async_, ret, id_, ns):
    srv = (socketio.AsyncServer if async_ else socketio.Server)(async_handlers=False)
    srv.eio = mock.MagicMock()
    sent = []
    if async_:
        async def h(sid, *a):
            return ret

        async def send(eio_sid, pkt):
            sent.append(pkt)
        srv.on('ev', h, namespace=ns)
        srv._send_packet = send
        sid = asyncio.run(srv.manager.connect('e1', ns))
        asyncio.run(srv._handle_event_internal(srv, sid, 'e1', ['ev', 1], ns, id_))
    else:
        srv.on('ev', lambda sid, *a: ret, namespace=ns)
        srv._send_packet = lambda eio_sid, pkt: sent.append(pkt)
        sid = srv.manager.connect('e1', ns)
        srv._handle_event_internal(srv, sid, 'e1', ['ev', 1], ns, id_)
    return sent


def client_ack(async_, ret, id_, ns):
    c = (socketio.AsyncClient if async_ else socketio.Client)()
    sent = []
    c.namespaces = {ns: 'S'}
    if async_:
        async def h(*a):
            return ret

        async def send(pkt):
            sent.append(pkt)
        c.on('ev', h, namespace=ns)
        c._send_packet = send
        asyncio.run(c._handle_event(ns, id_, ['ev', 1]))
    else:
        c.on('ev', lambda *a: ret, namespace=ns)
        c._send_packet = lambda pkt: sent.append(pkt)
        c._handle_event(ns, id_, ['ev', 1])
    return sent


def main():
    failures, checked = [], 0

    def fail(**kw):
        if len(failures) < 6:
            failures.append({k: (repr(v) if not isinstance(v, str) else v) for k, v in kw.items()})
    for side, fn in (('Server', server_ack), ('Client', client_ack)):
        for async_ in (False, True):
            cls = ('Async' if async_ else '') + side
            for ns in ('/', '/chat'):
                for id_ in IDS:
                    for ret in RETURNS:
                        checked += 1
                        try:
                            sent = fn(async_, ret, id_, ns)
                        except Exception as e:      # noqa: BLE001
                            fail(cls=cls, handler_returns=ret, id=id_, namespace=ns, got='raised %r' % (e,))
                            continue
                        want = pack(ret)
                        want_type = packet.BINARY_ACK if has_bytes(want) else packet.ACK
                        ok = len(sent) == 1 and sent[0].packet_type == want_type and sent[0].id == id_ and (sent[0].namespace or '/') == ns \
                            and same(sent[0].data, want)
                        if not ok:
                            fail(cls=cls, handler_returns=ret, id=id_, namespace=ns, expected_ack_payload=want,
                                 got=[(p.packet_type, p.namespace, p.id, p.data) for p in sent])
    # call(): result shaping of the acknowledged arguments
    for acked in ([], [0], [None], [''], [False], [b''], [[]], [{}], ['x'], [1, 2], [0, None], [(), 1]):
        want = None if not acked else (acked[0] if len(acked) == 1 else tuple(acked))
        for cls in ('Server', 'Client'):
            checked += 1
            try:
                if cls == 'Server':
                    o = socketio.Server()
                    o.eio = mock.MagicMock()

                    def emit(event, data=None, to=None, room=None, skip_sid=None, namespace=None, callback=None, ignore_queue=False, _a=acked):
                        callback(*_a)
                    o.emit = emit
                    got = o.call('ev', 1, sid='S', namespace='/', timeout=1)
                else:
                    o = socketio.Client()
                    o.eio = mock.MagicMock()
                    o.eio.create_event.side_effect = lambda: threading.Event()

                    def emit(event, data=None, namespace=None, callback=None, _a=acked):
                        callback(*_a)
                    o.emit = emit
                    o.namespaces = {'/': 'S'}
                    got = o.call('ev', 1, namespace='/', timeout=1)
                if not same(got, want):
                    fail(cls=cls + '.call', acknowledged_arguments=acked, expected_result=want, got=got)
            except Exception as e:      # noqa: BLE001
                fail(cls=cls + '.call', acknowledged_arguments=acked, expected_result=want, got='raised %r' % (e,))
    print(json.dumps({'checked': checked, 'failures': failures}))


if __name__ == '__main__':
    main()
