#!/venv/bin/python
"""BOUNDED stand-in (not a proof) for the part of C01/C02 the deductive verifier does not reach: the string code of
Packet.encode/decode and the placeholder substitution (_deconstruct_binary_internal/_reconstruct_binary_internal),
plus MsgPackPacket.encode/decode.

Exhaustive over a finite grammar of packets (bounds printed in the result), run natively against the code in
$VERIF_REPO_ROOT/src on every run, compared with an encoder/decoder written here from the Socket.IO v5 protocol text
(type digit, "<n>-" attachment count, "<nsp>," for non-default namespaces, decimal id, compact JSON, depth-first
placeholders {"_placeholder":true,"num":k}).  Prints one JSON object; exit 0 always (the caller decides)."""
import copy
import itertools
import json
import os
import sys

ROOT = os.environ.get('VERIF_REPO_ROOT', '/repo')
sys.path.insert(0, os.path.join(ROOT, 'src'))
from socketio import packet as P                     # noqa: E402
try:
    from socketio import msgpack_packet as MP        # noqa: E402
except Exception:                                    # pragma: no cover
    MP = None

CONNECT, DISCONNECT, EVENT, ACK, CONNECT_ERROR, BINARY_EVENT, BINARY_ACK = range(7)


# ------------------------------------------------------------------ the specification-derived codec
def spec_json(x):
    """compact JSON for the bounded value grammar, written out by hand"""
    if x is None:
        return 'null'
    if x is True:
        return 'true'
    if x is False:
        return 'false'
    if isinstance(x, int):
        return str(x)
    if isinstance(x, float):
        return repr(x)
    if isinstance(x, str):
        out = ['"']
        for ch in x:
            o = ord(ch)
            if ch == '"':
                out.append('\\"')
            elif ch == '\\':
                out.append('\\\\')
            elif ch == '\n':
                out.append('\\n')
            elif o < 0x20 or o > 0x7e:
                out.append('\\u%04x' % o)
            else:
                out.append(ch)
        out.append('"')
        return ''.join(out)
    if isinstance(x, (list, tuple)):
        return '[' + ','.join(spec_json(i) for i in x) + ']'
    if isinstance(x, dict):
        return '{' + ','.join(spec_json(k) + ':' + spec_json(v) for k, v in x.items()) + '}'
    raise TypeError(type(x))


def spec_deconstruct(x, atts):
    if isinstance(x, (bytes, bytearray)):
        atts.append(x)
        return {'_placeholder': True, 'num': len(atts) - 1}
    if isinstance(x, (list, tuple)):
        return [spec_deconstruct(i, atts) for i in x]
    if isinstance(x, dict):
        return {k: spec_deconstruct(v, atts) for k, v in x.items()}
    return x


def has_bytes(x):
    if isinstance(x, (bytes, bytearray)):
        return True
    if isinstance(x, (list, tuple)):
        return any(has_bytes(i) for i in x)
    if isinstance(x, dict):
        return any(has_bytes(v) for v in x.values())
    return False


def spec_encode(ptype, nsp, id_, data):
    """-> (text frame, [attachments])"""
    atts = []
    if has_bytes(data):
        ptype = {EVENT: BINARY_EVENT, ACK: BINARY_ACK}.get(ptype, ptype)
    s = str(ptype)
    if ptype in (BINARY_EVENT, BINARY_ACK):
        data = spec_deconstruct(data, atts)
        s += '%d-' % len(atts)
    if nsp not in (None, '/'):
        s += nsp + ','
    if id_ is not None:
        s += str(id_)
    if data is not None:
        s += spec_json(data)
    return s, atts


def spec_reconstruct(x, atts):
    if isinstance(x, list):
        return [spec_reconstruct(i, atts) for i in x]
    if isinstance(x, dict):
        if x.get('_placeholder') is True and set(x) == {'_placeholder', 'num'}:
            return atts[x['num']]
        return {k: spec_reconstruct(v, atts) for k, v in x.items()}
    return x


def spec_decode(text, atts):
    """-> (ptype, nsp, id, data) with '/' for the default namespace"""
    ptype = int(text[0])
    i = 1
    n = 0
    if ptype in (BINARY_EVENT, BINARY_ACK):
        j = text.index('-', i)
        n = int(text[i:j])
        i = j + 1
    nsp = '/'
    if text[i:i + 1] == '/':
        j = text.index(',', i) if ',' in text[i:] else len(text)       # a namespace runs up to the first ',' (or the end of the frame)
        nsp = text[i:j]
        i = j + 1
    j = i
    while j < len(text) and text[j].isdigit():
        j += 1
    id_ = int(text[i:j]) if j > i else None
    body = text[j:]
    data = json.loads(body) if body else None
    assert n == len(atts)
    if n:
        data = spec_reconstruct(data, atts)
    return ptype, nsp, id_, data


# ------------------------------------------------------------------ the bounded grammar
LEAVES = [None, True, 0, -3, 17, 2.5, '', 'a', 'a,b', '1-', '/x,', 'why?',  'é"\\\n', b'', b'x', b'\x00\xff']
PLAIN = [x for x in LEAVES if not isinstance(x, bytes)]
KEYS = ['k', '', 'num', '_placeholder']


def trees(depth, leaves):
    """values of nesting depth <= depth: leaves, lists of up to 2 items, dicts with up to 2 keys"""
    if depth == 0:
        yield from leaves
        return
    yield from leaves
    sub = list(trees(depth - 1, leaves[::3] if depth > 1 else leaves))
    sub_small = sub[:12] + [s for s in sub if isinstance(s, bytes)][:2]
    yield []
    yield {}
    for a in sub:
        yield [a]
        yield {'k': a}
    for a, b in itertools.product(sub_small, repeat=2):
        yield [a, b]
    for a, b in itertools.product(sub_small[:6] + [s for s in sub_small if isinstance(s, bytes)][:1], repeat=2):
        yield {'k': a, 'num': b}
    yield {'_placeholder': False, 'num': 0}
    yield {'_placeholder': True}


DEPTH = int(os.environ.get('VERIF_BOUNDED_DEPTH', '2'))
NAMESPACES = [None, '/', '/a', '/chat/room-1', '/1', '/9-']
IDS = [None, 0, 7, 42, 1234567, 10 ** 10 + 1, 2 ** 63 - 1]


def packets():
    seen = 0
    payload_trees = list(trees(DEPTH, LEAVES))
    for nsp in NAMESPACES:
        for id_ in IDS:
            yield CONNECT, nsp, None if id_ else None, None
            yield CONNECT, nsp, None, {'sid': 'abc'}
            yield CONNECT, nsp, None, {'token': 'a,b', 'n': 1}
            yield DISCONNECT, nsp, None, None
            yield CONNECT_ERROR, nsp, None, {'message': 'no'}
            yield CONNECT_ERROR, nsp, None, '12-not allowed'
            for t in payload_trees:
                yield EVENT, nsp, id_, ['ev', t]
                if seen % 7 == 0:
                    yield EVENT, nsp, id_, ['ev', t, t]
                    yield ACK, nsp, id_ if id_ is not None else 1, [t]
                seen += 1
            yield EVENT, nsp, id_, ['ev']
            yield ACK, nsp, id_ if id_ is not None else 0, []


def eq(a, b):
    """equality that tells 1 from True and from 1.0, and bytes from str"""
    if type(a) is not type(b):
        if isinstance(a, (bytes, bytearray)) and isinstance(b, (bytes, bytearray)):
            return bytes(a) == bytes(b)
        return False
    if isinstance(a, list):
        return len(a) == len(b) and all(eq(x, y) for x, y in zip(a, b))
    if isinstance(a, dict):
        return list(a) == list(b) and all(eq(a[k], b[k]) for k in a)
    return a == b


def norm_ns(n):
    return '/' if n is None else n


def main():
    checks = {k: {'checked': 0, 'failures': []} for k in (
        'codec.roundtrip', 'codec.frames-are-the-spec-frames', 'codec.decodes-spec-frames', 'codec.encode-leaves-the-payload-untouched',
        'codec.binary-only-in-events-and-acks', 'msgpack.roundtrip', 'msgpack.refuses-malformed-frames-cheaply')}

    def fail(name, what, pkt):
        f = checks[name]['failures']
        if len(f) < 3:
            f.append({'packet': pkt if isinstance(pkt, str) else repr(pkt), 'what': what})

    total = 0
    for ptype, nsp, id_, data in packets():
        total += 1
        pkt = repr((ptype, nsp, id_, data))
        keep = copy.deepcopy(data)
        try:
            p = P.Packet(ptype, data=data, namespace=nsp, id=id_)
            enc = p.encode()
        except Exception as e:       # noqa: BLE001
            fail('codec.roundtrip', 'encode raised %r' % (e,), pkt)
            checks['codec.roundtrip']['checked'] += 1
            continue
        checks['codec.encode-leaves-the-payload-untouched']['checked'] += 1
        if not eq(data, keep):
            fail('codec.encode-leaves-the-payload-untouched', 'payload after encode(): %r' % (data,), pkt)
            data = keep
        text, atts = (enc[0], enc[1:]) if isinstance(enc, list) else (enc, [])
        # the frames are the ones the protocol prescribes
        checks['codec.frames-are-the-spec-frames']['checked'] += 1
        st, sa = spec_encode(ptype, nsp, id_, keep)
        if text != st or len(atts) != len(sa) or any(bytes(x) != bytes(y) for x, y in zip(atts, sa)):
            fail('codec.frames-are-the-spec-frames', 'got %r + %d attachments, protocol says %r + %d' % (text, len(atts), st, len(sa)), pkt)
        # decode(encode(P)) == P
        checks['codec.roundtrip']['checked'] += 1
        try:
            q = P.Packet(encoded_packet=text)
            done = not atts
            for a in atts:
                done = q.add_attachment(a)
            want_type = {EVENT: BINARY_EVENT, ACK: BINARY_ACK}.get(ptype, ptype) if has_bytes(keep) else ptype
            if not (done and q.packet_type == want_type and norm_ns(q.namespace) == norm_ns(nsp) and q.id == id_ and eq(q.data, _lists(keep))):
                fail('codec.roundtrip', 'decoded (%r, %r, %r, %r) complete=%r' % (q.packet_type, q.namespace, q.id, q.data, done), pkt)
        except Exception as e:       # noqa: BLE001
            fail('codec.roundtrip', 'decode raised %r on %r' % (e, text), pkt)
        # the decoder accepts what the specification-derived encoder produces
        checks['codec.decodes-spec-frames']['checked'] += 1
        try:
            q = P.Packet(encoded_packet=st)
            for a in sa:
                q.add_attachment(a)
            d2 = spec_decode(text, atts)
            want = (want_type, norm_ns(nsp), id_)
            if not ((q.packet_type, norm_ns(q.namespace), q.id) == want and eq(q.data, _lists(keep)) and d2[:3] == want and eq(d2[3], _lists(keep))):
                fail('codec.decodes-spec-frames', 'decoder gave (%r, %r, %r, %r); spec decoder on the real frames gave %r' % (q.packet_type, q.namespace, q.id, q.data, d2), pkt)
        except Exception as e:       # noqa: BLE001
            fail('codec.decodes-spec-frames', 'raised %r' % (e,), pkt)
        # msgpack variant
        if MP is not None and ptype in (EVENT, ACK, CONNECT, DISCONNECT, CONNECT_ERROR):
            checks['msgpack.roundtrip']['checked'] += 1
            try:
                m = MP.MsgPackPacket(ptype, data=copy.deepcopy(keep), namespace=norm_ns(nsp), id=id_)
                q = MP.MsgPackPacket(encoded_packet=m.encode())
                if not (q.packet_type == ptype and q.namespace == norm_ns(nsp) and q.id == id_ and eq(q.data, _lists(keep))):
                    fail('msgpack.roundtrip', 'decoded (%r, %r, %r, %r)' % (q.packet_type, q.namespace, q.id, q.data), pkt)
            except Exception as e:   # noqa: BLE001
                fail('msgpack.roundtrip', 'raised %r' % (e,), pkt)
    # byte strings are refused outside events and acknowledgements
    for ptype in (CONNECT, DISCONNECT, CONNECT_ERROR):
        for data in (b'x', {'a': b'x'}, [1, [b'']]):
            checks['codec.binary-only-in-events-and-acks']['checked'] += 1
            try:
                P.Packet(ptype, data=data, namespace='/a').encode()
                fail('codec.binary-only-in-events-and-acks', 'accepted', (ptype, '/a', None, data))
            except ValueError:
                pass
            except Exception as e:   # noqa: BLE001
                fail('codec.binary-only-in-events-and-acks', 'raised %r instead of ValueError' % (e,), (ptype, '/a', None, data))
    # msgpack frames that are not exactly one well-formed packet are refused, without reserving memory for what they merely declare
    if MP is not None:
        import tracemalloc
        import msgpack
        good = msgpack.dumps({'type': 2, 'data': ['ev', 1], 'nsp': '/'})
        hostile = [('trailing bytes', good + b'\x00'), ('two packets in one frame', good + good),
                   ('array32 header declaring 2**27 elements', msgpack.dumps({'type': 2, 'nsp': '/'})[:-0 or None][:1] + b''),
                   ('truncated', good[:-2])]
        # a map {'type':2,'nsp':'/','data': <array32 of 2**27 declared, nothing sent>}
        bomb = b'\x83' + msgpack.dumps('type') + msgpack.dumps(2) + msgpack.dumps('nsp') + msgpack.dumps('/') + msgpack.dumps('data') + b'\xdd\x08\x00\x00\x00'
        hostile[2] = ('array32 header declaring 2**27 elements', bomb)
        for what, frame in hostile:
            checks['msgpack.refuses-malformed-frames-cheaply']['checked'] += 1
            tracemalloc.start()
            try:
                q = MP.MsgPackPacket(encoded_packet=frame)
                fail('msgpack.refuses-malformed-frames-cheaply', 'accepted a frame with %s: decoded data %r' % (what, q.data), repr(frame[:40]))
            except Exception:      # noqa: BLE001
                pass
            peak = tracemalloc.get_traced_memory()[1]
            tracemalloc.stop()
            if peak > 16 * 1024 * 1024:
                fail('msgpack.refuses-malformed-frames-cheaply', 'reserved %d MiB while looking at a %d-byte frame with %s' % (peak >> 20, len(frame), what), repr(frame[:40]))
    print(json.dumps({'packets': total,
                      'bound': 'types 0-6; namespaces %r; ids %r; payload trees of nesting depth <= %d (+1 for the event list), lists/dicts of <= 2 items, '
                               '%d leaf values incl. 3 byte strings and strings containing , - / " \\\\ newline and a non-ASCII letter' % (NAMESPACES, IDS, DEPTH, len(LEAVES)),
                      'checks': checks}))


def _lists(x):
    """what JSON gives back: tuples do not occur in the grammar; identity otherwise"""
    return x


if __name__ == '__main__':
    main()
